use vstd::prelude::*;
verus! {

// ---------- prelude stand-ins (assumed contracts on ring / uuid) ----------
pub enum Error { Server(String), Other }
pub type Result<T> = std::result::Result<T, Error>;
#[verifier::external_body]
pub fn opaque_string() -> String { String::new() }
#[verifier::external_body]
pub fn opaque_error() -> Error { Error::Other }

#[derive(PartialEq, Eq, Clone, Copy, Debug)]
pub struct Uuid(pub u128);
impl Uuid {
    pub uninterp spec fn bytes(&self) -> Seq<u8>;
    #[verifier::external_body]
    pub fn as_bytes(&self) -> (r: &[u8; 16]) ensures r@ == self.bytes(), r@.len() == 16 { unimplemented!() }
}

pub mod aead {
    use vstd::prelude::*;
    pub const NONCE_LEN: usize = 12;
    pub struct Algorithm;
    pub struct Nonce { pub bytes: Seq<u8> }
    pub struct Aad17 { pub bytes: Seq<u8> }
    pub struct Tag { pub bytes: Seq<u8> }
    pub struct LessSafeKey { pub key: Seq<u8> }
    /// idealised AEAD: ciphertext||tag as an uninterpreted function of (key, nonce, aad, plaintext)
    pub uninterp spec fn seal_spec(key: Seq<u8>, nonce: Seq<u8>, aad: Seq<u8>, pt: Seq<u8>) -> Seq<u8>;
    pub uninterp spec fn open_spec(key: Seq<u8>, nonce: Seq<u8>, aad: Seq<u8>, ct: Seq<u8>) -> Option<Seq<u8>>;
}
use aead::*;

pub broadcast axiom fn axiom_aead_roundtrip(key: Seq<u8>, nonce: Seq<u8>, aad: Seq<u8>, pt: Seq<u8>)
    ensures #[trigger] open_spec(key, nonce, aad, seal_spec(key, nonce, aad, pt)) == Some(pt);
/// INT-CTXT, idealised: whatever opens was sealed with the same key, nonce and aad
pub broadcast axiom fn axiom_aead_auth(key: Seq<u8>, nonce: Seq<u8>, aad: Seq<u8>, ct: Seq<u8>)
    ensures #[trigger] open_spec(key, nonce, aad, ct) matches Some(pt) ==> ct == seal_spec(key, nonce, aad, pt);

const ENVELOPE_VERSION: u8 = 1;
const AAD_LEN: usize = 17;
const TASK_APP_ID: u8 = 1;

// ---- extracted: Envelope ----
pub struct Envelope<'a> {
    pub nonce: &'a [u8],
    pub payload: &'a [u8],
}

pub open spec fn envelope_bytes(nonce: Seq<u8>, payload: Seq<u8>) -> Seq<u8> { seq![1u8] + nonce + payload }

impl<'a> Envelope<'a> {
    fn from_bytes(buf: &'a [u8]) -> (r: Result<Envelope<'a>>)
        ensures
            r is Ok <==> (buf@.len() > 13 && buf@[0] == 1),
            r matches Ok(e) ==> e.nonce@ == buf@.subrange(1, 13) && e.payload@ == buf@.subrange(13, buf@.len() as int),
    {
        if buf.len() <= 1 + aead::NONCE_LEN {
            return Err(Error::Server(String::from("envelope is too small")));
        }

        let version = buf[0];
        if version != ENVELOPE_VERSION {
            return Err(Error::Server(opaque_string()));
        }

        Ok(Envelope {
            nonce: &buf[1..1 + aead::NONCE_LEN],
            payload: &buf[1 + aead::NONCE_LEN..],
        })
    }

    fn to_bytes(&self) -> (buf: Vec<u8>)
        requires self.nonce@.len() == 12, self.payload@.len() < usize::MAX - 13
        ensures buf@ == envelope_bytes(self.nonce@, self.payload@)
    {
        let mut buf = Vec::with_capacity(1 + self.nonce.len() + self.payload.len());

        buf.push(ENVELOPE_VERSION);
        buf.extend_from_slice(self.nonce);
        buf.extend_from_slice(self.payload);
        buf
    }
}

pub proof fn lemma_envelope_roundtrip(nonce: Seq<u8>, payload: Seq<u8>)
    requires nonce.len() == 12, payload.len() > 0
    ensures ({
        let b = envelope_bytes(nonce, payload);
        b.len() > 13 && b[0] == 1 && b.subrange(1, 13) == nonce && b.subrange(13, b.len() as int) == payload
    })
{
    let b = envelope_bytes(nonce, payload);
    assert(b.subrange(1, 13) =~= nonce);
    assert(b.subrange(13, b.len() as int) =~= payload);
}

// ---- extracted: make_aad (self-free variant for the spike) ----
pub open spec fn aad_spec(v: Uuid) -> Seq<u8> { seq![1u8] + v.bytes() }

fn make_aad(version_id: Uuid) -> (aad: [u8; AAD_LEN])
    ensures aad@ == aad_spec(version_id)
{
    let mut aad = [0u8; AAD_LEN];
    aad[0] = TASK_APP_ID;
    aad[1..].copy_from_slice(version_id.as_bytes());
    aad
}

}
fn main() {}
