#[path = "/repo/src/task/time.rs"]
mod time;

#[cfg(kani)]
#[kani::proof]
fn utc_timestamp_total() {
    let secs: i64 = kani::any();
    let _ = time::utc_timestamp(secs);
}

#[cfg(kani)]
#[kani::proof]
fn utc_timestamp_in_range() {
    let secs: i64 = kani::any();
    kani::assume(secs >= -8334601228800 && secs <= 8210266876799);
    let _ = time::utc_timestamp(secs);
}
#[cfg(kani)]
#[kani::proof]
fn utc_timestamp_just_outside_hi() {
    let _ = time::utc_timestamp(8210266876800);
}
#[cfg(kani)]
#[kani::proof]
fn utc_timestamp_just_outside_lo() {
    let _ = time::utc_timestamp(-8334601228801);
}
