use vstd::prelude::*;
verus! {

// ---------- prelude ----------
#[derive(PartialEq, Eq, Clone, Copy, Debug)]
pub struct Uuid(pub u128);
#[derive(PartialEq, Eq, Clone, Copy, Debug, PartialOrd, Ord)]
pub struct DateTimeUtc(pub i64);

pub type TaskMapS = Map<Seq<char>, Seq<char>>;
pub type State = Map<Uuid, TaskMapS>;

pub enum Error { Database(String), Other }
pub type Result<T> = std::result::Result<T, Error>;

#[verifier::external_body]
pub fn drain_all<T>(v: &mut Vec<T>) -> (r: Vec<T>)
    ensures r@ == old(v)@, final(v)@ == Seq::<T>::empty()
{ v.drain(..).collect() }

#[derive(PartialEq, Eq, Debug)]
pub enum SyncOp {
    Create { uuid: Uuid },
    Delete { uuid: Uuid },
    Update { uuid: Uuid, property: String, value: Option<String>, timestamp: DateTimeUtc },
}

impl Clone for SyncOp {
    #[verifier::external_body]
    fn clone(&self) -> (r: Self) ensures r == *self { unimplemented!() }
}

pub struct Version { pub operations: Vec<SyncOp> }

// ---------- specs ----------
pub open spec fn valid(s: State, op: SyncOp) -> bool {
    match op {
        SyncOp::Create { uuid } => !s.dom().contains(uuid),
        SyncOp::Delete { uuid } => s.dom().contains(uuid),
        SyncOp::Update { uuid, .. } => s.dom().contains(uuid),
    }
}
pub open spec fn apply(s: State, op: SyncOp) -> State {
    match op {
        SyncOp::Create { uuid } => if s.dom().contains(uuid) { s } else { s.insert(uuid, Map::empty()) },
        SyncOp::Delete { uuid } => s.remove(uuid),
        SyncOp::Update { uuid, property, value, timestamp } =>
            if s.dom().contains(uuid) {
                match value {
                    Some(v) => s.insert(uuid, s[uuid].insert(property@, v@)),
                    None => s.insert(uuid, s[uuid].remove(property@)),
                }
            } else { s },
    }
}
pub open spec fn apply_opt(s: State, op: Option<SyncOp>) -> State {
    match op { Some(o) => apply(s, o), None => s }
}
pub open spec fn valid_opt(s: State, op: Option<SyncOp>) -> bool {
    match op { Some(o) => valid(s, o), None => true }
}
pub open spec fn apply_seq(s: State, ops: Seq<SyncOp>) -> State
    decreases ops.len()
{
    if ops.len() == 0 { s } else { apply(apply_seq(s, ops.drop_last()), ops.last()) }
}
pub open spec fn valid_seq(s: State, ops: Seq<SyncOp>) -> bool
    decreases ops.len()
{
    if ops.len() == 0 { true } else { valid_seq(s, ops.drop_last()) && valid(apply_seq(s, ops.drop_last()), ops.last()) }
}

// the diamond, for one pair
pub open spec fn tp1(s: State, o1: SyncOp, o2: SyncOp, r: (Option<SyncOp>, Option<SyncOp>)) -> bool {
    (valid(s, o1) && valid(s, o2)) ==> (
        apply_opt(apply(s, o1), r.1) == apply_opt(apply(s, o2), r.0)
        && valid_opt(apply(s, o1), r.1)
        && valid_opt(apply(s, o2), r.0))
}

pub trait StorageTxn {
    spec fn tasks(&self) -> State;
}

#[verifier::external_body]
pub fn transform(o1: SyncOp, o2: SyncOp) -> (r: (Option<SyncOp>, Option<SyncOp>))
    ensures forall|s: State| #[trigger] tp1(s, o1, o2, r)
{ unimplemented!() }

#[verifier::external_body]
pub fn apply_op(txn: &mut dyn StorageTxn, op: &SyncOp) -> (r: Result<()>)
    ensures
        valid(old(txn).tasks(), *op) ==> r is Ok,
        r is Ok ==> final(txn).tasks() == apply(old(txn).tasks(), *op),
        r is Err ==> final(txn).tasks() == old(txn).tasks(),
{ unimplemented!() }

// ---------- lemmas ----------
pub proof fn lemma_apply_seq_push(s: State, ops: Seq<SyncOp>, o: SyncOp)
    ensures apply_seq(s, ops.push(o)) == apply(apply_seq(s, ops), o),
            valid_seq(s, ops.push(o)) == (valid_seq(s, ops) && valid(apply_seq(s, ops), o)),
{
    assert(ops.push(o).drop_last() =~= ops);
}

pub proof fn lemma_take_succ(s: State, ops: Seq<SyncOp>, i: int)
    requires 0 <= i < ops.len()
    ensures apply_seq(s, ops.take(i + 1)) == apply(apply_seq(s, ops.take(i)), ops[i]),
            valid_seq(s, ops.take(i + 1)) == (valid_seq(s, ops.take(i)) && valid(apply_seq(s, ops.take(i)), ops[i])),
{
    assert(ops.take(i + 1).drop_last() =~= ops.take(i));
}

pub proof fn lemma_valid_take(s: State, ops: Seq<SyncOp>, i: int)
    requires 0 <= i <= ops.len(), valid_seq(s, ops)
    ensures valid_seq(s, ops.take(i))
    decreases ops.len() - i
{
    if i == ops.len() { assert(ops.take(i) =~= ops); }
    else { lemma_valid_take(s, ops, i + 1); lemma_take_succ(s, ops, i); }
}

// pre(b): b is a base state from which both the local ops and the server's version are valid,
// and the replica's tasks are base + local ops (the replica invariant).
pub open spec fn pre(b: State, tasks: State, local: Seq<SyncOp>, server: Seq<SyncOp>) -> bool {
    valid_seq(b, local) && apply_seq(b, local) == tasks && valid_seq(b, server)
}

// ---------- extracted: apply_version ----------
pub fn apply_version(
    txn: &mut dyn StorageTxn,
    local_ops: &mut Vec<SyncOp>,
    transformed_server_ops: &mut Vec<SyncOp>,
    mut version: Version,
) -> (res: Result<()>)
    ensures
        res is Ok,
        forall|b: State| pre(b, old(txn).tasks(), old(local_ops)@, version.operations@) ==> {
            let b2 = apply_seq(b, version.operations@);
            valid_seq(b2, final(local_ops)@) && apply_seq(b2, final(local_ops)@) == final(txn).tasks()
        },
{
    let ghost tasks0 = txn.tasks();
    let ghost l0 = local_ops@;
    let ghost v = version.operations@;
    for server_op in it1: drain_all(&mut version.operations)
        invariant
            it1.seq() == v,
            forall|b: State| pre(b, tasks0, l0, v) ==> {
                let bk = apply_seq(b, v.take(it1.index() as int));
                valid_seq(bk, local_ops@) && apply_seq(bk, local_ops@) == txn.tasks()
            },
    {
        let ghost k = it1.index() as int;
        let ghost lk = local_ops@;
        let ghost tk = txn.tasks();
        let ghost s = server_op;
        let mut new_local_ops = Vec::with_capacity(local_ops.len());
        let mut svr_op = Some(server_op);
        proof {
            assert(lk.take(0) =~= Seq::<SyncOp>::empty());
            assert forall|b: State| pre(b, tasks0, l0, v) implies valid(apply_seq(b, v.take(k)), s) by {
                lemma_take_succ(b, v, k);
                lemma_valid_take(b, v, k + 1);
            }
        }
        for local_op in it2: drain_all(local_ops)
            invariant
                it2.seq() == lk,
                txn.tasks() == tk,
                0 <= k < v.len(), s == v[k],
                forall|b: State| pre(b, tasks0, l0, v) ==> {
                    let bk = apply_seq(b, v.take(k));
                    valid_seq(bk, lk) && apply_seq(bk, lk) == tk
                },
                forall|b: State| pre(b, tasks0, l0, v) ==> {
                    let bk = apply_seq(b, v.take(k));
                    let bi = apply_seq(bk, lk.take(it2.index() as int));
                    valid_opt(bi, svr_op)
                    && valid_seq(apply(bk, s), new_local_ops@)
                    && apply_seq(apply(bk, s), new_local_ops@) == apply_opt(bi, svr_op)
                },
        {
            let ghost i = it2.index() as int;
            let ghost svr0 = svr_op;
            let ghost nl0 = new_local_ops@;
            if let Some(o) = svr_op {
                let (new_server_op, new_local_op) = transform(o, local_op.clone());
                svr_op = new_server_op;
                if let Some(o) = new_local_op {
                    new_local_ops.push(o);
                }
                proof {
                    assert forall|b: State| pre(b, tasks0, l0, v) implies ({
                        let bk = apply_seq(b, v.take(k));
                        let bi = apply_seq(bk, lk.take(i + 1));
                        valid_opt(bi, svr_op)
                        && valid_seq(apply(bk, s), new_local_ops@)
                        && apply_seq(apply(bk, s), new_local_ops@) == apply_opt(bi, svr_op)
                    }) by {
                        let bk = apply_seq(b, v.take(k));
                        let bi = apply_seq(bk, lk.take(i));
                        lemma_take_succ(bk, lk, i);
                        lemma_valid_take(bk, lk, i + 1);
                        assert(tp1(bi, o, local_op, (new_server_op, new_local_op)));
                        if let Some(o2) = new_local_op {
                            lemma_apply_seq_push(apply(bk, s), nl0, o2);
                        }
                    }
                }
            } else {
                new_local_ops.push(local_op);
                proof {
                    assert forall|b: State| pre(b, tasks0, l0, v) implies ({
                        let bk = apply_seq(b, v.take(k));
                        let bi = apply_seq(bk, lk.take(i + 1));
                        valid_opt(bi, svr_op)
                        && valid_seq(apply(bk, s), new_local_ops@)
                        && apply_seq(apply(bk, s), new_local_ops@) == apply_opt(bi, svr_op)
                    }) by {
                        let bk = apply_seq(b, v.take(k));
                        lemma_take_succ(bk, lk, i);
                        lemma_valid_take(bk, lk, i + 1);
                        lemma_apply_seq_push(apply(bk, s), nl0, local_op);
                    }
                }
            }
        }
        proof {
            assert(lk.take(lk.len() as int) =~= lk);
            assert forall|b: State| pre(b, tasks0, l0, v) implies valid_opt(tk, svr_op) by {}
        }
        if let Some(o) = svr_op {
            if let Err(e) = apply_op(txn, &o) {
            }
            transformed_server_ops.push(o);
        }
        *local_ops = new_local_ops;
        proof {
            assert forall|b: State| pre(b, tasks0, l0, v) implies ({
                let bk = apply_seq(b, v.take(k + 1));
                valid_seq(bk, local_ops@) && apply_seq(bk, local_ops@) == txn.tasks()
            }) by {
                lemma_take_succ(b, v, k);
                lemma_valid_take(b, v, k + 1);
            }
        }
    }
    proof { assert(v.take(v.len() as int) =~= v); }
    Ok(())
}

} // verus!
fn main() {}
