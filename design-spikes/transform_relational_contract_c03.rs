use vstd::prelude::*;
verus! {
pub mod ax {
use vstd::prelude::*;
use vstd::std_specs::cmp::PartialEqSpec;
pub broadcast axiom fn axiom_string_eq_spec(a: String, b: String)
    ensures #[trigger] a.eq_spec(&b) == (a@ == b@);
pub broadcast axiom fn axiom_string_obeys_eq()
    ensures #[trigger] <String as PartialEqSpec>::obeys_eq_spec();
}
broadcast use {ax::axiom_string_eq_spec, ax::axiom_string_obeys_eq};

#[derive(Eq, Clone, Copy, Debug)]
pub struct Uuid(pub u128);
impl PartialEq for Uuid {
    fn eq(&self, other: &Self) -> (r: bool) { self.0 == other.0 }
}
impl vstd::std_specs::cmp::PartialEqSpecImpl for Uuid {
    open spec fn obeys_eq_spec() -> bool { true }
    open spec fn eq_spec(&self, other: &Self) -> bool { *self == *other }
}

#[derive(Eq, Clone, Copy, Debug, Ord)]
pub struct DateTimeUtc(pub i64);
impl PartialEq for DateTimeUtc {
    fn eq(&self, other: &Self) -> (r: bool) { self.0 == other.0 }
}
impl vstd::std_specs::cmp::PartialEqSpecImpl for DateTimeUtc {
    open spec fn obeys_eq_spec() -> bool { true }
    open spec fn eq_spec(&self, other: &Self) -> bool { *self == *other }
}
impl PartialOrd for DateTimeUtc {
    fn partial_cmp(&self, other: &Self) -> (r: Option<core::cmp::Ordering>) { self.0.partial_cmp(&other.0) }
}
impl vstd::std_specs::cmp::PartialOrdSpecImpl for DateTimeUtc {
    open spec fn obeys_partial_cmp_spec() -> bool { true }
    open spec fn partial_cmp_spec(&self, other: &Self) -> Option<core::cmp::Ordering> {
        if self.0 < other.0 { Some(core::cmp::Ordering::Less) } else if self.0 == other.0 { Some(core::cmp::Ordering::Equal) } else { Some(core::cmp::Ordering::Greater) }
    }
}

#[derive(PartialEq, Eq, Clone, Debug)]
pub enum SyncOp {
    Create { uuid: Uuid },
    Delete { uuid: Uuid },
    Update {
        uuid: Uuid,
        property: String,
        value: Option<String>,
        timestamp: DateTimeUtc,
    },
}


pub type TaskMapS = Map<Seq<char>, Seq<char>>;
pub type State = Map<Uuid, TaskMapS>;

pub open spec fn valid(s: State, op: SyncOp) -> bool {
    match op {
        SyncOp::Create { uuid } => !s.dom().contains(uuid),
        SyncOp::Delete { uuid } => s.dom().contains(uuid),
        SyncOp::Update { uuid, .. } => s.dom().contains(uuid),
    }
}

pub open spec fn apply(s: State, op: SyncOp) -> State {
    match op {
        SyncOp::Create { uuid } => if s.dom().contains(uuid) { s } else { s.insert(uuid, Map::empty()) },
        SyncOp::Delete { uuid } => s.remove(uuid),
        SyncOp::Update { uuid, property, value, timestamp } =>
            if s.dom().contains(uuid) {
                match value {
                    Some(v) => s.insert(uuid, s[uuid].insert(property@, v@)),
                    None => s.insert(uuid, s[uuid].remove(property@)),
                }
            } else { s },
    }
}

pub open spec fn apply_opt(s: State, op: Option<SyncOp>) -> State {
    match op { Some(o) => apply(s, o), None => s }
}
pub open spec fn valid_opt(s: State, op: Option<SyncOp>) -> bool {
    match op { Some(o) => valid(s, o), None => true }
}


pub open spec fn transform_spec(o1: SyncOp, o2: SyncOp) -> (Option<SyncOp>, Option<SyncOp>) {
    match (o1, o2) {
        (SyncOp::Create { uuid: u1 }, SyncOp::Create { uuid: u2 }) if u1 == u2 => (None, None),
        (SyncOp::Delete { uuid: u1 }, SyncOp::Delete { uuid: u2 }) if u1 == u2 => (None, None),
        (SyncOp::Create { uuid: u1 }, SyncOp::Delete { uuid: u2 }) if u1 == u2 => (Some(o1), None),
        (SyncOp::Delete { uuid: u1 }, SyncOp::Create { uuid: u2 }) if u1 == u2 => (None, Some(o2)),
        (SyncOp::Update { uuid: u1, .. }, SyncOp::Create { uuid: u2 }) if u1 == u2 => (Some(o1), None),
        (SyncOp::Create { uuid: u1 }, SyncOp::Update { uuid: u2, .. }) if u1 == u2 => (None, Some(o2)),
        (SyncOp::Update { uuid: u1, .. }, SyncOp::Delete { uuid: u2 }) if u1 == u2 => (None, Some(o2)),
        (SyncOp::Delete { uuid: u1 }, SyncOp::Update { uuid: u2, .. }) if u1 == u2 => (Some(o1), None),
        (SyncOp::Update { uuid: u1, property: p1, value: v1, timestamp: t1 },
         SyncOp::Update { uuid: u2, property: p2, value: v2, timestamp: t2 }) if u1 == u2 && p1@ == p2@ =>
            if opt_view(v1) == opt_view(v2) { (None, None) } else if t1.0 < t2.0 { (None, Some(o2)) } else { (Some(o1), None) },
        _ => (Some(o1), Some(o2)),
    }
}
pub open spec fn opt_view(v: Option<String>) -> Option<Seq<char>> { match v { Some(s) => Some(s@), None => None } }

pub proof fn lemma_tp1(s: State, o1: SyncOp, o2: SyncOp)
    requires valid(s, o1), valid(s, o2)
    ensures ({ let r = transform_spec(o1, o2);
        apply_opt(apply(s, o1), r.1) =~~= apply_opt(apply(s, o2), r.0)
        && valid_opt(apply(s, o1), r.1)
        && valid_opt(apply(s, o2), r.0) })
{
}

/// C03: the documented conflict rules as a relation between (o1, o2) and the result r = (o1', o2')
pub open spec fn same_prop_update(o1: SyncOp, o2: SyncOp) -> bool {
    match (o1, o2) {
        (SyncOp::Update { uuid: u1, property: p1, .. }, SyncOp::Update { uuid: u2, property: p2, .. }) => u1 == u2 && p1@ == p2@,
        _ => false,
    }
}
pub open spec fn uuid_of(o: SyncOp) -> Uuid {
    match o { SyncOp::Create { uuid } => uuid, SyncOp::Delete { uuid } => uuid, SyncOp::Update { uuid, .. } => uuid }
}
pub open spec fn transform_ok(o1: SyncOp, o2: SyncOp, r: (Option<SyncOp>, Option<SyncOp>)) -> bool {
    // never invents an operation
    &&& (r.0 is None || r.0 == Some(o1)) && (r.1 is None || r.1 == Some(o2))
    // different tasks, or updates of different properties: both kept
    &&& uuid_of(o1) != uuid_of(o2) ==> r == (Some(o1), Some(o2))
    &&& (o1 is Update && o2 is Update && uuid_of(o1) == uuid_of(o2) && !same_prop_update(o1, o2)) ==> r == (Some(o1), Some(o2))
    // same property
    &&& same_prop_update(o1, o2) ==> (match (o1, o2) {
            (SyncOp::Update { value: v1, timestamp: t1, .. }, SyncOp::Update { value: v2, timestamp: t2, .. }) =>
                if opt_view(v1) == opt_view(v2) { r == (None::<SyncOp>, None::<SyncOp>) }
                else if t1.0 < t2.0 { r == (None::<SyncOp>, Some(o2)) }
                else if t1.0 > t2.0 { r == (Some(o1), None::<SyncOp>) }
                else { r == (Some(o1), None::<SyncOp>) || r == (None::<SyncOp>, Some(o2)) },   // tie: one survives
            _ => true })
    // update vs delete of one task: only the delete survives
    &&& (o1 is Update && o2 is Delete && uuid_of(o1) == uuid_of(o2)) ==> r == (None::<SyncOp>, Some(o2))
    &&& (o1 is Delete && o2 is Update && uuid_of(o1) == uuid_of(o2)) ==> r == (Some(o1), None::<SyncOp>)
    // concurrent creates / deletes of one task: nothing more to do
    &&& (o1 is Create && o2 is Create && uuid_of(o1) == uuid_of(o2)) ==> r == (None::<SyncOp>, None::<SyncOp>)
    &&& (o1 is Delete && o2 is Delete && uuid_of(o1) == uuid_of(o2)) ==> r == (None::<SyncOp>, None::<SyncOp>)
}
pub proof fn lemma_ok_tp1(s: State, o1: SyncOp, o2: SyncOp, r: (Option<SyncOp>, Option<SyncOp>))
    requires transform_ok(o1, o2, r), valid(s, o1), valid(s, o2)
    ensures
        apply_opt(apply(s, o1), r.1) =~~= apply_opt(apply(s, o2), r.0),
        valid_opt(apply(s, o1), r.1), valid_opt(apply(s, o2), r.0),
{
}
pub proof fn lemma_ok_self_cancel(o: SyncOp, r: (Option<SyncOp>, Option<SyncOp>))
    requires transform_ok(o, o, r)
    ensures r == (None::<SyncOp>, None::<SyncOp>)
{
}
pub proof fn lemma_ok_order_independent(s: State, a: SyncOp, b: SyncOp, r1: (Option<SyncOp>, Option<SyncOp>), r2: (Option<SyncOp>, Option<SyncOp>))
    requires valid(s, a), valid(s, b), transform_ok(a, b, r1), transform_ok(b, a, r2),
        !(same_prop_update(a, b) && (match (a, b) { (SyncOp::Update { value: v1, timestamp: t1, .. }, SyncOp::Update { value: v2, timestamp: t2, .. }) => opt_view(v1) != opt_view(v2) && t1.0 == t2.0, _ => false }))
    ensures apply_opt(apply(s, a), r1.1) =~~= apply_opt(apply(s, b), r2.1)
{
}

use SyncOp::*;

impl SyncOp {
    pub(crate) fn transform(
        operation1: SyncOp,
        operation2: SyncOp,
    ) -> (r: (Option<SyncOp>, Option<SyncOp>))
        ensures transform_ok(operation1, operation2, r),
    {
        match (&operation1, &operation2) {
            (Create { uuid: uuid1 }, Create { uuid: uuid2 }) if uuid1 == uuid2 => (None, None),
            (Delete { uuid: uuid1 }, Delete { uuid: uuid2 }) if uuid1 == uuid2 => (None, None),
            (Create { uuid: uuid1 }, Delete { uuid: uuid2 }) if uuid1 == uuid2 => {
                (Some(operation1), None)
            }
            (Delete { uuid: uuid1 }, Create { uuid: uuid2 }) if uuid1 == uuid2 => {
                (None, Some(operation2))
            }
            (Update { uuid: uuid1, .. }, Create { uuid: uuid2 }) if uuid1 == uuid2 => {
                (Some(operation1), None)
            }
            (Create { uuid: uuid1 }, Update { uuid: uuid2, .. }) if uuid1 == uuid2 => {
                (None, Some(operation2))
            }
            (Update { uuid: uuid1, .. }, Delete { uuid: uuid2 }) if uuid1 == uuid2 => {
                (None, Some(operation2))
            }
            (Delete { uuid: uuid1 }, Update { uuid: uuid2, .. }) if uuid1 == uuid2 => {
                (Some(operation1), None)
            }
            (
                Update {
                    uuid: uuid1,
                    property: property1,
                    value: value1,
                    timestamp: timestamp1,
                },
                Update {
                    uuid: uuid2,
                    property: property2,
                    value: value2,
                    timestamp: timestamp2,
                },
            ) if uuid1 == uuid2 && property1 == property2 => {
                if value1 == value2 {
                    (None, None)
                } else if timestamp1 < timestamp2 {
                    (None, Some(operation2))
                } else {
                    (Some(operation1), None)
                }
            }
            (_, _) => (Some(operation1), Some(operation2)),
        }
    }
}

} // verus!
fn main() {}
