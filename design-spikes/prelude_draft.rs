use vstd::prelude::*;
verus! {

pub mod ax {
use vstd::prelude::*;
pub broadcast axiom fn axiom_string_to_string(s: &String, r: String)
    ensures #[trigger] vstd::string::to_string_from_display_ensures::<String>(s, r) ==> r@ == s@;
}

#[derive(PartialEq, Eq, Clone, Copy, Debug, Hash)]
pub struct Uuid(pub u128);
pub type VersionId = Uuid;

#[derive(PartialEq, Eq, Clone, Copy, Debug, PartialOrd, Ord)]
pub struct Utc;
#[derive(PartialEq, Eq, Clone, Copy, Debug, PartialOrd, Ord)]
pub struct DateTime<Tz> { pub nanos: i128, pub tz: core::marker::PhantomData<Tz> }
impl Utc {
    #[verifier::external_body]
    pub fn now() -> DateTime<Utc> { unimplemented!() }
}

pub type TaskMapS = Map<Seq<char>, Seq<char>>;
pub type State = Map<Uuid, TaskMapS>;

#[verifier::external_body]
pub struct TaskMap { inner: std::collections::HashMap<String, String> }

impl View for TaskMap {
    type V = TaskMapS;
    uninterp spec fn view(&self) -> TaskMapS;
}
impl TaskMap {
    #[verifier::external_body]
    pub fn new() -> (r: Self) ensures r@ == Map::<Seq<char>, Seq<char>>::empty() { unimplemented!() }
    #[verifier::external_body]
    pub fn insert(&mut self, k: String, v: String) -> (r: Option<String>)
        ensures final(self)@ == old(self)@.insert(k@, v@) { unimplemented!() }
    #[verifier::external_body]
    pub fn remove(&mut self, k: &String) -> (r: Option<String>)
        ensures final(self)@ == old(self)@.remove(k@) { unimplemented!() }
    #[verifier::external_body]
    pub fn get(&self, k: &str) -> (r: Option<&String>)
        ensures match r { Some(v) => self@.dom().contains(k@) && v@ == self@[k@], None => !self@.dom().contains(k@) }
    { unimplemented!() }
    #[verifier::external_body]
    pub fn drain(&mut self) -> (r: Vec<(String, String)>)
        ensures final(self)@ == Map::<Seq<char>, Seq<char>>::empty()
    { unimplemented!() }
}
impl Clone for TaskMap {
    #[verifier::external_body]
    fn clone(&self) -> (r: Self) ensures r@ == self@ { unimplemented!() }
}
impl Eq for TaskMap {}
} // verus!
impl std::fmt::Debug for TaskMap { fn fmt(&self, f: &mut std::fmt::Formatter<'_>) -> std::fmt::Result { Ok(()) } }
verus! {
impl PartialEq for TaskMap {
    #[verifier::external_body]
    fn eq(&self, other: &Self) -> (r: bool) ensures r == (self@ == other@) { unimplemented!() }
}

pub assume_specification<T: Clone>[ <[T]>::to_vec ](s: &[T]) -> (r: Vec<T>)
    ensures r@.len() == s@.len();
pub assume_specification<T>[ <[T]>::reverse ](s: &mut [T])
    ensures final(s)@ == old(s)@.reverse();

#[verifier::external_body]
pub fn opaque_string() -> String { String::new() }

#[verifier::external_body]
pub fn drain_all<T>(v: &mut Vec<T>) -> (r: Vec<T>)
    ensures r@ == old(v)@, final(v)@ == Seq::<T>::empty()
{ v.drain(..).collect() }

pub enum Error { Server(String), Database(String), OutOfSync, Usage(String), Other }
pub type Result<T> = std::result::Result<T, Error>;

} // verus!
