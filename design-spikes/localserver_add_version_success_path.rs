use vstd::prelude::*;
verus! {
#[derive(PartialEq, Eq, Clone, Copy, Debug)]
pub struct Uuid(pub u128);
impl vstd::std_specs::cmp::PartialEqSpecImpl for Uuid {
    open spec fn obeys_eq_spec() -> bool { true }
    open spec fn eq_spec(&self, other: &Self) -> bool { *self == *other }
}
pub type VersionId = Uuid;
pub open spec fn nil() -> Uuid { Uuid(0) }
pub const NIL_VERSION_ID: VersionId = Uuid(0);
pub enum Error { Database(String), Other }
pub type Result<T> = std::result::Result<T, Error>;
pub type HistorySegment = Vec<u8>;
pub type Snapshot = Vec<u8>;
pub enum AddVersionResult { Ok(VersionId), ExpectedParentVersion(VersionId) }
pub enum SnapshotUrgency { None, Low, High }
pub enum GetVersionResult {
    NoSuchVersion,
    Version { version_id: VersionId, parent_version_id: VersionId, history_segment: HistorySegment },
}
pub struct Version { pub version_id: VersionId, pub parent_version_id: VersionId, pub history_segment: HistorySegment }

// ---------- ghost database behind the SQL helpers ----------
pub struct Row { pub id: Uuid, pub parent: Uuid, pub seg: Seq<u8> }
pub struct Db { pub latest: Uuid, pub rows: Set<Row> }
/// the rows are exactly a parent-linked chain ending at `latest`
pub open spec fn is_chain(db: Db, c: Seq<Row>) -> bool {
    &&& forall|k: int| 0 < k < c.len() ==> (#[trigger] c[k]).parent == c[k - 1].id
    &&& forall|k: int| 0 <= k < c.len() ==> (#[trigger] c[k]).id != nil()
    &&& forall|i: int, j: int| 0 <= i < j < c.len() ==> (#[trigger] c[i]).id != (#[trigger] c[j]).id
    &&& forall|k: int| 0 <= k < c.len() ==> (#[trigger] c[k]).id != c[0].parent   // the root is not a version id
    &&& db.latest == (if c.len() == 0 { nil() } else { c.last().id })
    &&& forall|r: Row| db.rows.contains(r) <==> (exists|k: int| 0 <= k < c.len() && #[trigger] c[k] == r)
}
/// C11: the invariant that must hold between any two SQL transactions
pub open spec fn inv(db: Db) -> bool { exists|c: Seq<Row>| #[trigger] is_chain(db, c) }

#[verifier::external_body]
pub struct LocalServer { con: () }
impl LocalServer {
    pub uninterp spec fn db(&self) -> Db;

    // SQL helpers: bodies are SQL, contracts assumed (A8); each is one transaction
    #[verifier::external_body]
    fn get_latest_version_id(&mut self) -> (r: Result<VersionId>)
        ensures final(self).db() == old(self).db(), r matches Ok(v) ==> v == old(self).db().latest
    { unimplemented!() }
    #[verifier::external_body]
    fn set_latest_version_id(&mut self, version_id: VersionId) -> (r: Result<()>)
        ensures r is Ok ==> final(self).db() == (Db { latest: version_id, rows: old(self).db().rows }),
                r is Err ==> final(self).db() == old(self).db()
    { unimplemented!() }
    #[verifier::external_body]
    fn get_version_by_parent_version_id(&mut self, parent_version_id: VersionId) -> (r: Result<Option<Version>>)
        ensures final(self).db() == old(self).db(),
            r matches Ok(Some(v)) ==> v.parent_version_id == parent_version_id
                && old(self).db().rows.contains(Row { id: v.version_id, parent: v.parent_version_id, seg: v.history_segment@ }),
            r matches Ok(None) ==> forall|row: Row| old(self).db().rows.contains(row) ==> row.parent != parent_version_id,
    { unimplemented!() }
    #[verifier::external_body]
    fn add_version_by_parent_version_id(&mut self, version: Version) -> (r: Result<()>)
        ensures r is Ok ==> final(self).db() == (Db { latest: old(self).db().latest,
                    rows: old(self).db().rows.insert(Row { id: version.version_id, parent: version.parent_version_id, seg: version.history_segment@ }) }),
                r is Err ==> final(self).db() == old(self).db()
    { unimplemented!() }
}
/// fresh id (assumption on Uuid::new_v4: not nil, not already a version id or the root)
#[verifier::external_body]
pub fn new_v4(Ghost(db): Ghost<Db>, Ghost(avoid): Ghost<Uuid>) -> (id: Uuid)
    ensures id != nil(), id != avoid, forall|row: Row| db.rows.contains(row) ==> row.id != id && row.parent != id
{ unimplemented!() }

// ---- extracted: impl Server for LocalServer :: add_version (async/await stripped) ----
impl LocalServer {
    fn add_version(
        &mut self,
        parent_version_id: VersionId,
        history_segment: HistorySegment,
    ) -> (res: Result<(AddVersionResult, SnapshotUrgency)>)
        requires inv(old(self).db())
        ensures
            res is Ok ==> inv(final(self).db()),
    {
        // check the parent_version_id for linearity
        let latest_version_id = self.get_latest_version_id()?;
        if latest_version_id != NIL_VERSION_ID && parent_version_id != latest_version_id {
            return Ok((
                AddVersionResult::ExpectedParentVersion(latest_version_id),
                SnapshotUrgency::None,
            ));
        }

        // invent a new ID for this version
        let ghost db0 = self.db();
        let ghost c = choose|c: Seq<Row>| is_chain(db0, c);
        let version_id = new_v4(Ghost(self.db()), Ghost(parent_version_id));
        let ghost row = Row { id: version_id, parent: parent_version_id, seg: history_segment@ };

        self.add_version_by_parent_version_id(Version {
            version_id,
            parent_version_id,
            history_segment,
        })?;
        self.set_latest_version_id(version_id)?;
        proof {
            let c2 = c.push(row);
            assert(c2.last() == row);
            assert forall|r: Row| self.db().rows.contains(r) <==> (exists|k: int| 0 <= k < c2.len() && #[trigger] c2[k] == r) by {
                if self.db().rows.contains(r) {
                    if r == row { assert(c2[c.len() as int] == r); }
                    else { let k = choose|k: int| 0 <= k < c.len() && #[trigger] c[k] == r; assert(c2[k] == r); }
                }
                if exists|k: int| 0 <= k < c2.len() && #[trigger] c2[k] == r {
                    let k = choose|k: int| 0 <= k < c2.len() && #[trigger] c2[k] == r;
                    if k < c.len() { assert(c[k] == r); assert(db0.rows.contains(r)); }
                }
            }
            assert forall|k: int| 0 <= k < c.len() implies db0.rows.contains(#[trigger] c[k]) by {}
            if c.len() > 0 { assert(db0.rows.contains(c[0])); assert(db0.rows.contains(c[c.len() - 1])); assert(c2[c.len() - 1] == c[c.len() - 1]); }
            assert forall|k: int| 0 <= k < c2.len() implies (#[trigger] c2[k]).id != c2[0].parent by { if k < c.len() { assert(c2[k] == c[k]); assert(c2[0] == c[0]); } else if c.len() > 0 { assert(c2[0] == c[0]); } }
            assert forall|i: int, j: int| 0 <= i < j < c2.len() implies (#[trigger] c2[i]).id != (#[trigger] c2[j]).id by { if j < c.len() { assert(c2[i] == c[i] && c2[j] == c[j]); } else { assert(c2[i] == c[i]); assert(db0.rows.contains(c[i])); } }
            assert forall|k: int| 0 < k < c2.len() implies (#[trigger] c2[k]).parent == c2[k - 1].id by { if k < c.len() { assert(c2[k] == c[k] && c2[k - 1] == c[k - 1]); } }
            assert(is_chain(self.db(), c2));
        }

        Ok((AddVersionResult::Ok(version_id), SnapshotUrgency::None))
    }
}
}
fn main() {}
