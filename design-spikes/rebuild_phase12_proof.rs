use vstd::prelude::*;
use std::collections::HashSet;
verus! {
pub mod ax {
    use vstd::prelude::*;
    use super::Uuid;
    pub broadcast axiom fn axiom_uuid_key_model()
        ensures #[trigger] vstd::std_specs::hash::obeys_key_model::<Uuid>();
}
broadcast use {vstd::std_specs::hash::group_hash_axioms, ax::axiom_uuid_key_model};

#[derive(PartialEq, Eq, Clone, Copy, Debug, Hash)]
pub struct Uuid(pub u128);
impl vstd::std_specs::cmp::PartialEqSpecImpl for Uuid {
    open spec fn obeys_eq_spec() -> bool { true }
    open spec fn eq_spec(&self, other: &Self) -> bool { *self == *other }
}
pub type TaskMapS = Map<Seq<char>, Seq<char>>;
pub type State = Map<Uuid, TaskMapS>;
#[verifier::external_body]
pub struct TaskMap { inner: std::collections::HashMap<String, String> }
impl View for TaskMap { type V = TaskMapS; uninterp spec fn view(&self) -> TaskMapS; }
pub enum Error { Database(String), Other }
pub type Result<T> = std::result::Result<T, Error>;
pub type Ws = Seq<Option<Uuid>>;

pub open spec fn trim(ws: Ws) -> Ws
    decreases ws.len()
{
    if ws.len() > 1 && ws.last() is None { trim(ws.drop_last()) } else { ws }
}
pub open spec fn ws_wf(ws: Ws) -> bool {
    ws.len() >= 1 && ws[0] is None
    && forall|i: int, j: int| 0 <= i < j < ws.len() && ws[i] is Some ==> ws[i] != ws[j]
}
pub open spec fn ws_has(ws: Ws, u: Uuid) -> bool { exists|i: int| 0 <= i < ws.len() && #[trigger] ws[i] == Some(u) }

pub trait StorageTxn {
    spec fn tasks(&self) -> State;
    spec fn ws(&self) -> Ws;
    spec fn committed(&self) -> bool;
    fn get_task(&mut self, uuid: Uuid) -> (r: Result<Option<TaskMap>>)
        ensures final(self).tasks() == old(self).tasks(), final(self).ws() == old(self).ws(), final(self).committed() == old(self).committed(),
            match r {
                Ok(Some(t)) => old(self).tasks().dom().contains(uuid) && t@ == old(self).tasks()[uuid],
                Ok(None) => !old(self).tasks().dom().contains(uuid),
                Err(_) => true,
            };
    fn all_tasks(&mut self) -> (r: Result<Vec<(Uuid, TaskMap)>>)
        ensures final(self).tasks() == old(self).tasks(), final(self).ws() == old(self).ws(), final(self).committed() == old(self).committed(),
            r matches Ok(v) ==> {
                &&& forall|i: int| 0 <= i < v@.len() ==> old(self).tasks().dom().contains(#[trigger] v@[i].0) && v@[i].1@ == old(self).tasks()[v@[i].0]
                &&& forall|i: int, j: int| 0 <= i < j < v@.len() ==> v@[i].0 != v@[j].0
                &&& forall|u: Uuid| #![trigger old(self).tasks().dom().contains(u)] old(self).tasks().dom().contains(u) ==> in_seq(v@, u)
            };
    fn get_working_set(&mut self) -> (r: Result<Vec<Option<Uuid>>>)
        ensures final(self).tasks() == old(self).tasks(), final(self).ws() == old(self).ws(), final(self).committed() == old(self).committed(),
            r is Ok ==> r->Ok_0@ == old(self).ws();
    fn add_to_working_set(&mut self, uuid: Uuid) -> (r: Result<usize>)
        requires !old(self).committed()
        ensures final(self).tasks() == old(self).tasks(), final(self).committed() == old(self).committed(),
            r is Ok ==> final(self).ws() == old(self).ws().push(Some(uuid)) && r->Ok_0 == old(self).ws().len(),
            r is Err ==> final(self).ws() == old(self).ws();
    fn set_working_set_item(&mut self, index: usize, uuid: Option<Uuid>) -> (r: Result<()>)
        requires !old(self).committed()
        ensures final(self).tasks() == old(self).tasks(), final(self).committed() == old(self).committed(),
            r is Ok ==> index < old(self).ws().len() && final(self).ws() == trim(old(self).ws().update(index as int, uuid)),
            r is Err ==> final(self).ws() == old(self).ws();
    fn commit(&mut self) -> (r: Result<()>)
        requires !old(self).committed()
        ensures final(self).tasks() == old(self).tasks(), final(self).ws() == old(self).ws(), r is Ok ==> final(self).committed();
}

/// the closure is a function of the task's content
pub open spec fn pure_pred<F: Fn(&TaskMap) -> bool>(f: F) -> bool {
    &&& forall|t: &TaskMap| #[trigger] f.requires((t,))
    &&& forall|t1: &TaskMap, t2: &TaskMap, r1: bool, r2: bool| t1@ == t2@ && #[trigger] f.ensures((t1,), r1) && #[trigger] f.ensures((t2,), r2) ==> r1 == r2
}
pub open spec fn sat<F: Fn(&TaskMap) -> bool>(f: F, tm: TaskMapS) -> bool {
    exists|t: &TaskMap| t@ == tm && #[trigger] f.ensures((t,), true)
}
/// u should be in the working set
pub open spec fn want<F: Fn(&TaskMap) -> bool>(f: F, t: State, u: Uuid) -> bool {
    t.dom().contains(u) && sat(f, t[u])
}

pub open spec fn kept_upto<F: Fn(&TaskMap) -> bool>(f: F, w: Ws, t: State, k: int, u: Uuid) -> bool {
    exists|i: int| 1 <= i <= k && #[trigger] w[i] == Some(u) && want(f, t, u)
}
pub open spec fn added_upto<F: Fn(&TaskMap) -> bool>(f: F, sq: Seq<(Uuid, TaskMap)>, nw1: Ws, t: State, k: int, u: Uuid) -> bool {
    exists|j: int| 0 <= j < k && #[trigger] sq[j].0 == u && !ws_has(nw1, u) && want(f, t, u)
}
pub open spec fn seq_upto(sq: Seq<(Uuid, TaskMap)>, k: int, u: Uuid) -> bool { exists|i: int| 0 <= i < k && #[trigger] sq[i].0 == u }
pub open spec fn in_seq(sq: Seq<(Uuid, TaskMap)>, u: Uuid) -> bool { exists|i: int| 0 <= i < sq.len() && #[trigger] sq[i].0 == u }
/// what phases 1 and 2 must have computed
pub open spec fn phase12_post<F: Fn(&TaskMap) -> bool>(f: F, renumber: bool, w: Ws, t: State, n: Ws) -> bool {
    &&& n.len() >= 1 && n[0] is None
    &&& forall|i: int, j: int| 0 <= i < j < n.len() && n[i] is Some ==> n[i] != n[j]
    &&& forall|u: Uuid| ws_has(n, u) <==> want(f, t, u)
    &&& !renumber ==> n.len() >= w.len() && (forall|i: int| 1 <= i < w.len() ==>
            #[trigger] n[i] == (if w[i] is Some && want(f, t, w[i]->Some_0) { w[i] } else { None::<Uuid> }))
            && (forall|i: int| w.len() <= i < n.len() ==> (#[trigger] n[i]) is Some)
    &&& renumber ==> forall|i: int| 1 <= i < n.len() ==> (#[trigger] n[i]) is Some
}
// ---- extracted: working_set::rebuild with the D6 repair (async/await stripped) ----
pub fn rebuild<F>(
    txn: &mut dyn StorageTxn,
    in_working_set: F,
    renumber: bool,
) -> (res: Result<()>)
where
    F: Fn(&TaskMap) -> bool,
    requires
        !old(txn).committed(), ws_wf(old(txn).ws()), trim(old(txn).ws()) == old(txn).ws(), pure_pred(in_working_set),
        old(txn).ws().len() + old(txn).tasks().dom().len() < usize::MAX,
    ensures
        final(txn).tasks() == old(txn).tasks(),
        true,
{
    let old_ws = txn.get_working_set()?;
    let mut new_ws = vec![None]; // index 0 is always None
    let mut seen = HashSet::new();

    let ghost w = old_ws@;
    let ghost t = txn.tasks();
    for elt in it: &old_ws[1..]
        invariant
            w == old_ws@, w == old(txn).ws(), ws_wf(w), pure_pred(in_working_set),
            txn.tasks() == t, t == old(txn).tasks(), txn.ws() == w, !txn.committed(),
            it.seq().len() == w.len() - 1, forall|i: int| 0 <= i < it.seq().len() ==> *(#[trigger] it.seq()[i]) == w[i + 1],
            new_ws@.len() >= 1, new_ws@[0] is None,
            forall|i: int, j: int| 0 <= i < j < new_ws@.len() && new_ws@[i] is Some ==> new_ws@[i] != new_ws@[j],
            forall|u: Uuid| #![trigger ws_has(new_ws@, u)] #![trigger kept_upto(in_working_set, w, t, it.index() as int, u)] ws_has(new_ws@, u) <==> kept_upto(in_working_set, w, t, it.index() as int, u),
            forall|u: Uuid| #![trigger seen@.contains(u)] #![trigger ws_has(new_ws@, u)] seen@.contains(u) <==> ws_has(new_ws@, u),
            !renumber ==> new_ws@.len() == it.index() + 1 && (forall|i: int| 1 <= i <= it.index() ==>
                #[trigger] new_ws@[i] == (if w[i] is Some && want(in_working_set, t, w[i]->Some_0) { w[i] } else { None::<Uuid> })),
            renumber ==> forall|i: int| 1 <= i < new_ws@.len() ==> (#[trigger] new_ws@[i]) is Some,
    {
        // Determine whether this item names a task that should still be in the working set.
        let ghost k = it.index() as int;
        let ghost nw0 = new_ws@;
        let ghost seen0 = seen@;
        let mut keep = None;
        if let Some(uuid) = elt {
            if let Some(task) = txn.get_task(*uuid)? {
                if in_working_set(&task) {
                    keep = Some(*uuid);
                    proof { assert(sat(in_working_set, t[*uuid])); }
                } else {
                    proof {
                        // purity: no task with this content satisfies the predicate
                        if sat(in_working_set, t[*uuid]) {
                            let t2 = choose|t2: &TaskMap| t2@ == t[*uuid] && in_working_set.ensures((t2,), true);
                            assert(in_working_set.ensures((&task,), false));
                        }
                    }
                }
            }
        }
        proof {
            assert(*elt == w[k + 1]);
            assert(keep matches Some(u) ==> w[k + 1] == Some(u) && want(in_working_set, t, u));
            assert(keep is None ==> !(w[k + 1] is Some && want(in_working_set, t, w[k + 1]->Some_0)));
        }
        if let Some(uuid) = keep {
            new_ws.push(Some(uuid));
            seen.insert(uuid);
            proof {
                // uuid was not yet present: the old working set has no duplicates
                if ws_has(nw0, uuid) {
                    let i = choose|i: int| 1 <= i <= k && #[trigger] w[i] == Some(uuid) && want(in_working_set, t, uuid);
                    assert(w[i] != w[k + 1]);
                }
                assert(new_ws@[nw0.len() as int] == Some(uuid));
                assert forall|u: Uuid| ws_has(new_ws@, u) <==> kept_upto(in_working_set, w, t, k + 1, u) by {
                    if ws_has(new_ws@, u) {
                        let j = choose|j: int| 0 <= j < new_ws@.len() && new_ws@[j] == Some(u);
                        if j < nw0.len() { assert(nw0[j] == Some(u)); assert(ws_has(nw0, u)); let i = choose|i: int| 1 <= i <= k && #[trigger] w[i] == Some(u) && want(in_working_set, t, u); assert(w[i] == Some(u)); } else { assert(w[k + 1] == Some(u)); }
                    }
                    if kept_upto(in_working_set, w, t, k + 1, u) {
                        let i = choose|i: int| 1 <= i <= k + 1 && #[trigger] w[i] == Some(u) && want(in_working_set, t, u);
                        if i <= k { assert(kept_upto(in_working_set, w, t, k, u)); assert(ws_has(nw0, u)); let j = choose|j: int| 0 <= j < nw0.len() && nw0[j] == Some(u); assert(new_ws@[j] == Some(u)); }
                        else { assert(u == uuid); }
                    }
                }
                assert forall|u: Uuid| seen@.contains(u) <==> ws_has(new_ws@, u) by {
                    if ws_has(new_ws@, u) {
                        let j = choose|j: int| 0 <= j < new_ws@.len() && new_ws@[j] == Some(u);
                        if j < nw0.len() { assert(nw0[j] == Some(u)); assert(ws_has(nw0, u)); }
                    }
                    if ws_has(nw0, u) { let j = choose|j: int| 0 <= j < nw0.len() && nw0[j] == Some(u); assert(new_ws@[j] == Some(u)); }
                }
            }
        } else if !renumber {
            new_ws.push(None);
            proof {
                assert forall|u: Uuid| #![trigger ws_has(new_ws@, u)] #![trigger ws_has(nw0, u)] ws_has(new_ws@, u) <==> ws_has(nw0, u) by {
                    if ws_has(new_ws@, u) { let j = choose|j: int| 0 <= j < new_ws@.len() && new_ws@[j] == Some(u); assert(j < nw0.len()); assert(nw0[j] == Some(u)); }
                    if ws_has(nw0, u) { let j = choose|j: int| 0 <= j < nw0.len() && nw0[j] == Some(u); assert(new_ws@[j] == Some(u)); }
                }
            }
        }
        proof {
            if keep is None {
                assert(seen@ == seen0);
                if renumber { assert(new_ws@ == nw0); } else { assert(new_ws@ == nw0.push(None)); }
                assert forall|u: Uuid| #![trigger ws_has(new_ws@, u)] #![trigger ws_has(nw0, u)] ws_has(new_ws@, u) <==> ws_has(nw0, u) by {
                    if ws_has(new_ws@, u) { let j = choose|j: int| 0 <= j < new_ws@.len() && new_ws@[j] == Some(u); assert(j < nw0.len()); assert(nw0[j] == Some(u)); }
                    if ws_has(nw0, u) { let j = choose|j: int| 0 <= j < nw0.len() && nw0[j] == Some(u); assert(new_ws@[j] == Some(u)); }
                }
                assert forall|u: Uuid| #![trigger kept_upto(in_working_set, w, t, k + 1, u)] #![trigger kept_upto(in_working_set, w, t, k, u)] kept_upto(in_working_set, w, t, k + 1, u) <==> kept_upto(in_working_set, w, t, k, u) by {
                    if kept_upto(in_working_set, w, t, k + 1, u) {
                        let i = choose|i: int| 1 <= i <= k + 1 && #[trigger] w[i] == Some(u) && want(in_working_set, t, u);
                        assert(i <= k);
                        assert(w[i] == Some(u));
                    }
                    if kept_upto(in_working_set, w, t, k, u) {
                        let i = choose|i: int| 1 <= i <= k && #[trigger] w[i] == Some(u) && want(in_working_set, t, u);
                        assert(w[i] == Some(u));
                    }
                }
            }
            if keep is Some { assert(forall|u: Uuid| ws_has(new_ws@, u) <==> kept_upto(in_working_set, w, t, k + 1, u)); }
            if keep is None && renumber { assert(new_ws@ == nw0); assert(forall|u: Uuid| ws_has(new_ws@, u) <==> kept_upto(in_working_set, w, t, k + 1, u)); }
            if keep is None && !renumber { assert(forall|u: Uuid| ws_has(new_ws@, u) <==> kept_upto(in_working_set, w, t, k + 1, u)); }
            assert(forall|u: Uuid| seen@.contains(u) <==> ws_has(new_ws@, u));
        }
    }

    let ghost nw1 = new_ws@;
    proof {
        assert(forall|u: Uuid| #![trigger ws_has(nw1, u)] ws_has(nw1, u) <==> kept_upto(in_working_set, w, t, w.len() - 1, u));
    }
    let ghost mut processed: Set<Uuid> = Set::empty();
    for (uuid, task) in it2: txn.all_tasks()?
        invariant
            pure_pred(in_working_set), t == old(txn).tasks(), txn.tasks() == t, txn.ws() == w, !txn.committed(), w == old_ws@,
            // what all_tasks returned
            forall|i: int| 0 <= i < it2.seq().len() ==> t.dom().contains(#[trigger] it2.seq()[i].0) && it2.seq()[i].1@ == t[it2.seq()[i].0],
            forall|i: int, j: int| 0 <= i < j < it2.seq().len() ==> it2.seq()[i].0 != it2.seq()[j].0,
            forall|u: Uuid| #![trigger t.dom().contains(u)] t.dom().contains(u) ==> in_seq(it2.seq(), u),
            forall|u: Uuid| #![trigger processed.contains(u)] processed.contains(u) <==> seq_upto(it2.seq(), it2.index() as int, u),
            it2.index() == it2.seq().len() ==> (forall|u: Uuid| t.dom().contains(u) ==> #[trigger] processed.contains(u)),
            // phase-1 result is an untouched prefix, everything after it is a newcomer
            nw1.len() <= new_ws@.len(), new_ws@.take(nw1.len() as int) == nw1, nw1.len() >= 1,
            forall|i: int| nw1.len() <= i < new_ws@.len() ==> (#[trigger] new_ws@[i]) is Some,
            forall|i: int, j: int| 0 <= i < j < new_ws@.len() && new_ws@[i] is Some ==> new_ws@[i] != new_ws@[j],
            forall|u: Uuid| #![trigger seen@.contains(u)] #![trigger ws_has(nw1, u)] seen@.contains(u) <==> ws_has(nw1, u),
            forall|u: Uuid| #![trigger ws_has(new_ws@, u)] ws_has(new_ws@, u) <==> (ws_has(nw1, u) || (processed.contains(u) && !ws_has(nw1, u) && want(in_working_set, t, u))),
    {
        let ghost k = it2.index() as int;
        let ghost nw0 = new_ws@;
        let ghost proc0 = processed;
        proof { processed = processed.insert(uuid); }
        proof {
            assert(it2.seq()[k].0 == uuid && it2.seq()[k].1 == task);
            // processed tracks the prefix of the iteration
            assert forall|u: Uuid| #![trigger processed.contains(u)] processed.contains(u) <==> seq_upto(it2.seq(), k + 1, u) by {
                if seq_upto(it2.seq(), k + 1, u) {
                    let i = choose|i: int| 0 <= i < k + 1 && #[trigger] it2.seq()[i].0 == u;
                    if i < k { assert(seq_upto(it2.seq(), k, u)); }
                }
                if proc0.contains(u) { let i = choose|i: int| 0 <= i < k && #[trigger] it2.seq()[i].0 == u; assert(it2.seq()[i].0 == u); }
                if u == uuid { assert(it2.seq()[k].0 == u); }
            }
            // this uuid was not processed before: all_tasks has no duplicates
            assert(!proc0.contains(uuid)) by {
                if proc0.contains(uuid) { let i = choose|i: int| 0 <= i < k && #[trigger] it2.seq()[i].0 == uuid; assert(it2.seq()[i].0 != it2.seq()[k].0); }
            }
            assert(k + 1 == it2.seq().len() ==> (forall|u: Uuid| t.dom().contains(u) ==> #[trigger] processed.contains(u))) by {
                if k + 1 == it2.seq().len() {
                    assert forall|u: Uuid| t.dom().contains(u) implies #[trigger] processed.contains(u) by {
                        assert(in_seq(it2.seq(), u));
                        let i = choose|i: int| 0 <= i < it2.seq().len() && #[trigger] it2.seq()[i].0 == u;
                        assert(seq_upto(it2.seq(), k + 1, u));
                    }
                }
            }
        }
        if !seen.contains(&uuid) && in_working_set(&task) {
            new_ws.push(Some(uuid));
            proof {
                assert(sat(in_working_set, t[uuid]));
                assert(!ws_has(nw1, uuid));
                assert(!ws_has(nw0, uuid));
                assert(new_ws@[nw0.len() as int] == Some(uuid));
                assert(new_ws@.take(nw1.len() as int) =~= nw0.take(nw1.len() as int));
                assert forall|u: Uuid| #![trigger ws_has(new_ws@, u)] ws_has(new_ws@, u) <==> (ws_has(nw1, u) || (processed.contains(u) && !ws_has(nw1, u) && want(in_working_set, t, u))) by {
                    if ws_has(new_ws@, u) {
                        let j = choose|j: int| 0 <= j < new_ws@.len() && new_ws@[j] == Some(u);
                        if j < nw0.len() { assert(nw0[j] == Some(u)); assert(ws_has(nw0, u)); } else { assert(u == uuid); }
                    }
                    if ws_has(nw0, u) { let j = choose|j: int| 0 <= j < nw0.len() && nw0[j] == Some(u); assert(new_ws@[j] == Some(u)); }
                }
            }
        } else {
            proof {
                // this task is either already kept by phase 1 or not wanted
                if !seen@.contains(uuid) {
                    if sat(in_working_set, t[uuid]) {
                        let t2 = choose|t2: &TaskMap| t2@ == t[uuid] && in_working_set.ensures((t2,), true);
                        assert(in_working_set.ensures((&task,), false));
                    }
                }
            }
        }
    }
    proof {
        let n = new_ws@;
        assert forall|u: Uuid| ws_has(n, u) <==> want(in_working_set, t, u) by {
            if ws_has(nw1, u) {
                let i = choose|i: int| 1 <= i <= w.len() - 1 && #[trigger] w[i] == Some(u) && want(in_working_set, t, u);
            }
        }
        if !renumber {
            assert forall|i: int| 1 <= i < w.len() implies
                #[trigger] n[i] == (if w[i] is Some && want(in_working_set, t, w[i]->Some_0) { w[i] } else { None::<Uuid> }) by {
                assert(n.take(nw1.len() as int)[i] == n[i]);
            }
        } else {
            assert forall|i: int| 1 <= i < n.len() implies (#[trigger] n[i]) is Some by {
                if i < nw1.len() { assert(n.take(nw1.len() as int)[i] == n[i]); }
            }
        }
        assert(n.take(nw1.len() as int)[0] == n[0]);
        assert(phase12_post(in_working_set, renumber, old_ws@, txn.tasks(), new_ws@));
    }
    txn.commit()?;
    Ok(())
}

}
fn main() {}
