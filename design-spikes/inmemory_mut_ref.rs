use vstd::prelude::*;
verus! {

#[derive(PartialEq, Eq, Clone, Copy, Debug)]
pub struct Uuid(pub u128);

pub struct Data {
    pub base_version: Uuid,
    pub working_set: Vec<Option<Uuid>>,
}

impl Clone for Data {
    #[verifier::external_body]
    fn clone(&self) -> (r: Self) ensures r == *self { unimplemented!() }
}

pub struct InMemoryStorage { pub data: Data }

pub struct Txn<'t> {
    pub storage: &'t mut InMemoryStorage,
    pub new_data: Option<Data>,
}

impl Txn<'_> {
    pub open spec fn cur(&self) -> Data {
        match self.new_data { Some(d) => d, None => self.storage.data }
    }

    fn mut_data_ref(&mut self) -> (r: &mut Data)
        ensures *r == old(self).cur(),
                final(self).new_data == Some(*final(r)),
                final(self).storage == old(self).storage,
    {
        if self.new_data.is_none() {
            self.new_data = Some(self.storage.data.clone());
        }
        if let Some(ref mut data) = self.new_data {
            data
        } else {
            unreachable!();
        }
    }

    fn add_to_working_set(&mut self, uuid: Uuid) -> (r: usize)
        requires old(self).cur().working_set.len() < 1000,
        ensures final(self).cur().working_set@ == old(self).cur().working_set@.push(Some(uuid)),
                r == old(self).cur().working_set.len(),
    {
        let working_set = &mut self.mut_data_ref().working_set;
        working_set.push(Some(uuid));
        working_set.len()
    }
}

}
fn main() {}
