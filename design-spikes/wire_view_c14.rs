use vstd::prelude::*;
verus! {
#[derive(PartialEq, Eq, Clone, Copy, Debug)]
pub struct Uuid(pub u128);
#[derive(PartialEq, Eq, Clone, Copy, Debug)]
pub struct DateTimeUtc(pub i64);
#[verifier::external_body]
pub struct TaskMap { inner: std::collections::HashMap<String, String> }
impl TaskMap { #[verifier::external_body] pub fn new() -> Self { unimplemented!() } }

pub enum Operation {
    Create { uuid: Uuid },
    Delete { uuid: Uuid, old_task: TaskMap },
    Update { uuid: Uuid, property: String, old_value: Option<String>, value: Option<String>, timestamp: DateTimeUtc },
    UndoPoint,
}
pub enum SyncOp {
    Create { uuid: Uuid },
    Delete { uuid: Uuid },
    Update { uuid: Uuid, property: String, value: Option<String>, timestamp: DateTimeUtc },
}

/// the documented wire format (docs/sync-protocol.md): exactly these fields
pub enum WireOp {
    Create { uuid: Uuid },
    Delete { uuid: Uuid },
    Update { uuid: Uuid, property: String, value: Option<String>, timestamp: DateTimeUtc },
}
pub open spec fn wire(op: SyncOp) -> WireOp {
    match op {
        SyncOp::Create { uuid, .. } => WireOp::Create { uuid },
        SyncOp::Delete { uuid, .. } => WireOp::Delete { uuid },
        SyncOp::Update { uuid, property, value, timestamp, .. } => WireOp::Update { uuid, property, value, timestamp },
    }
}
/// C14: a SyncOp carries nothing beyond the documented fields
pub proof fn lemma_wire_injective(a: SyncOp, b: SyncOp)
    requires wire(a) == wire(b)
    ensures a == b
{
}

impl SyncOp {
    pub fn from_op(op: Operation) -> (r: Option<Self>)
        ensures match op {
            Operation::Create { uuid } => r matches Some(s) && wire(s) == WireOp::Create { uuid },
            Operation::Delete { uuid, .. } => r matches Some(s) && wire(s) == WireOp::Delete { uuid },
            Operation::Update { uuid, property, value, timestamp, .. } => r matches Some(s) && wire(s) == WireOp::Update { uuid, property, value, timestamp },
            Operation::UndoPoint => r is None,
        }
    {
        match op {
            Operation::Create { uuid } => Some(SyncOp::Create { uuid }),
            Operation::Delete { uuid, .. } => Some(SyncOp::Delete { uuid }),
            Operation::Update {
                uuid,
                property,
                value,
                timestamp,
                ..
            } => Some(SyncOp::Update {
                uuid,
                property,
                value,
                timestamp,
            }),
            Operation::UndoPoint => None,
        }
    }
}
}
fn main() {}
