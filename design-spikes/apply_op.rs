use vstd::prelude::*;
verus! {

// ---------- prelude: assumed contracts on dependency types ----------
#[derive(PartialEq, Eq, Clone, Copy, Debug)]
pub struct Uuid(pub u128);

#[verifier::external_body]
#[verifier::accept_recursive_types(K)]
#[verifier::accept_recursive_types(V)]
pub struct HashMap<K, V> { inner: std::collections::HashMap<u8, (K, V)> }

pub type TaskMap = HashMap<String, String>;
pub type TaskMapS = Map<Seq<char>, Seq<char>>;

impl HashMap<String, String> {
    pub uninterp spec fn view(&self) -> TaskMapS;

    #[verifier::external_body]
    pub fn new() -> (r: Self) ensures r@ == Map::<Seq<char>, Seq<char>>::empty() { unimplemented!() }

    #[verifier::external_body]
    pub fn insert(&mut self, k: String, v: String) -> (r: Option<String>)
        ensures final(self)@ == old(self)@.insert(k@, v@)
    { unimplemented!() }

    #[verifier::external_body]
    pub fn remove(&mut self, k: &String) -> (r: Option<String>)
        ensures final(self)@ == old(self)@.remove(k@)
    { unimplemented!() }
}

} // verus!
impl std::fmt::Display for Uuid { fn fmt(&self, f: &mut std::fmt::Formatter<'_>) -> std::fmt::Result { write!(f, "{}", self.0) } }
verus! {
#[verifier::external_body]
pub fn opaque_string() -> String { String::new() }
pub mod ax {
use vstd::prelude::*;
pub broadcast axiom fn axiom_string_to_string(s: &String, r: String)
    ensures #[trigger] vstd::string::to_string_from_display_ensures::<String>(s, r) ==> r@ == s@;
}
pub enum Error { Database(String), Other }
pub type Result<T> = std::result::Result<T, Error>;

#[derive(PartialEq, Eq, Clone, Copy, Debug, PartialOrd, Ord)]
pub struct DateTimeUtc(pub i64);

#[derive(PartialEq, Eq, Clone, Debug)]
pub enum SyncOp {
    Create { uuid: Uuid },
    Delete { uuid: Uuid },
    Update {
        uuid: Uuid,
        property: String,
        value: Option<String>,
        timestamp: DateTimeUtc,
    },
}

pub type State = Map<Uuid, TaskMapS>;

pub open spec fn apply(s: State, op: SyncOp) -> State {
    match op {
        SyncOp::Create { uuid } => if s.dom().contains(uuid) { s } else { s.insert(uuid, Map::empty()) },
        SyncOp::Delete { uuid } => s.remove(uuid),
        SyncOp::Update { uuid, property, value, timestamp } =>
            if s.dom().contains(uuid) {
                match value {
                    Some(v) => s.insert(uuid, s[uuid].insert(property@, v@)),
                    None => s.insert(uuid, s[uuid].remove(property@)),
                }
            } else { s },
    }
}

pub trait StorageTxn {
    spec fn tasks(&self) -> State;

    fn get_task(&mut self, uuid: Uuid) -> (r: Result<Option<TaskMap>>)
        ensures final(self).tasks() == old(self).tasks(),
            match r {
                Ok(Some(t)) => old(self).tasks().dom().contains(uuid) && t@ == old(self).tasks()[uuid],
                Ok(None) => !old(self).tasks().dom().contains(uuid),
                Err(_) => true,
            };
    fn create_task(&mut self, uuid: Uuid) -> (r: Result<bool>)
        ensures
            match r {
                Ok(b) => b == !old(self).tasks().dom().contains(uuid)
                    && final(self).tasks() == (if b { old(self).tasks().insert(uuid, Map::empty()) } else { old(self).tasks() }),
                Err(_) => final(self).tasks() == old(self).tasks(),
            };
    fn set_task(&mut self, uuid: Uuid, task: TaskMap) -> (r: Result<()>)
        ensures
            match r {
                Ok(_) => final(self).tasks() == old(self).tasks().insert(uuid, task@),
                Err(_) => final(self).tasks() == old(self).tasks(),
            };
    fn delete_task(&mut self, uuid: Uuid) -> (r: Result<bool>)
        ensures
            match r {
                Ok(b) => b == old(self).tasks().dom().contains(uuid)
                    && final(self).tasks() == old(self).tasks().remove(uuid),
                Err(_) => final(self).tasks() == old(self).tasks(),
            };
}

// ---------- extracted: src/taskdb/apply.rs apply_op (async/await stripped) ----------
broadcast use ax::axiom_string_to_string;
pub fn apply_op(txn: &mut dyn StorageTxn, op: &SyncOp) -> (r: Result<()>)
    ensures
        r is Ok ==> final(txn).tasks() =~~= apply(old(txn).tasks(), *op),
        r is Err ==> final(txn).tasks() == old(txn).tasks(),
{
    match op {
        SyncOp::Create { uuid } => {
            // insert if the task does not already exist
            if !txn.create_task(*uuid)? {
                return Err(Error::Database(opaque_string()));
            }
        }
        SyncOp::Delete { ref uuid } => {
            if !txn.delete_task(*uuid)? {
                return Err(Error::Database(opaque_string()));
            }
        }
        SyncOp::Update {
            ref uuid,
            ref property,
            ref value,
            timestamp: _,
        } => {
            // update if this task exists, otherwise ignore
            if let Some(mut task) = txn.get_task(*uuid)? {
                match value {
                    Some(ref val) => task.insert(property.to_string(), val.clone()),
                    None => task.remove(property),
                };
                txn.set_task(*uuid, task)?;
            } else {
                return Err(Error::Database(opaque_string()));
            }
        }
    }

    Ok(())
}

} // verus!
fn main() {}
