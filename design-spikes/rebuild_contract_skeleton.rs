use vstd::prelude::*;
use std::collections::HashSet;
verus! {
pub mod ax {
    use vstd::prelude::*;
    use super::Uuid;
    pub broadcast axiom fn axiom_uuid_key_model()
        ensures #[trigger] vstd::std_specs::hash::obeys_key_model::<Uuid>();
}
broadcast use {vstd::std_specs::hash::group_hash_axioms, ax::axiom_uuid_key_model};

#[derive(PartialEq, Eq, Clone, Copy, Debug, Hash)]
pub struct Uuid(pub u128);
impl vstd::std_specs::cmp::PartialEqSpecImpl for Uuid {
    open spec fn obeys_eq_spec() -> bool { true }
    open spec fn eq_spec(&self, other: &Self) -> bool { *self == *other }
}
pub type TaskMapS = Map<Seq<char>, Seq<char>>;
pub type State = Map<Uuid, TaskMapS>;
#[verifier::external_body]
pub struct TaskMap { inner: std::collections::HashMap<String, String> }
impl View for TaskMap { type V = TaskMapS; uninterp spec fn view(&self) -> TaskMapS; }
pub enum Error { Database(String), Other }
pub type Result<T> = std::result::Result<T, Error>;
pub type Ws = Seq<Option<Uuid>>;

pub open spec fn trim(ws: Ws) -> Ws
    decreases ws.len()
{
    if ws.len() > 1 && ws.last() is None { trim(ws.drop_last()) } else { ws }
}
pub open spec fn ws_wf(ws: Ws) -> bool {
    ws.len() >= 1 && ws[0] is None
    && forall|i: int, j: int| 0 <= i < j < ws.len() && ws[i] is Some ==> ws[i] != ws[j]
}
pub open spec fn has(ws: Ws, u: Uuid) -> bool { exists|i: int| 0 <= i < ws.len() && #[trigger] ws[i] == Some(u) }

pub trait StorageTxn {
    spec fn tasks(&self) -> State;
    spec fn ws(&self) -> Ws;
    spec fn committed(&self) -> bool;
    fn get_task(&mut self, uuid: Uuid) -> (r: Result<Option<TaskMap>>)
        ensures final(self).tasks() == old(self).tasks(), final(self).ws() == old(self).ws(), final(self).committed() == old(self).committed(),
            match r {
                Ok(Some(t)) => old(self).tasks().dom().contains(uuid) && t@ == old(self).tasks()[uuid],
                Ok(None) => !old(self).tasks().dom().contains(uuid),
                Err(_) => true,
            };
    fn all_tasks(&mut self) -> (r: Result<Vec<(Uuid, TaskMap)>>)
        ensures final(self).tasks() == old(self).tasks(), final(self).ws() == old(self).ws(), final(self).committed() == old(self).committed(),
            r matches Ok(v) ==> {
                &&& forall|i: int| 0 <= i < v@.len() ==> old(self).tasks().dom().contains(#[trigger] v@[i].0) && v@[i].1@ == old(self).tasks()[v@[i].0]
                &&& forall|i: int, j: int| 0 <= i < j < v@.len() ==> v@[i].0 != v@[j].0
                &&& forall|u: Uuid| old(self).tasks().dom().contains(u) ==> exists|i: int| 0 <= i < v@.len() && #[trigger] v@[i].0 == u
            };
    fn get_working_set(&mut self) -> (r: Result<Vec<Option<Uuid>>>)
        ensures final(self).tasks() == old(self).tasks(), final(self).ws() == old(self).ws(), final(self).committed() == old(self).committed(),
            r is Ok ==> r->Ok_0@ == old(self).ws();
    fn add_to_working_set(&mut self, uuid: Uuid) -> (r: Result<usize>)
        requires !old(self).committed()
        ensures final(self).tasks() == old(self).tasks(), final(self).committed() == old(self).committed(),
            r is Ok ==> final(self).ws() == old(self).ws().push(Some(uuid)) && r->Ok_0 == old(self).ws().len(),
            r is Err ==> final(self).ws() == old(self).ws();
    fn set_working_set_item(&mut self, index: usize, uuid: Option<Uuid>) -> (r: Result<()>)
        requires !old(self).committed()
        ensures final(self).tasks() == old(self).tasks(), final(self).committed() == old(self).committed(),
            r is Ok ==> index < old(self).ws().len() && final(self).ws() == trim(old(self).ws().update(index as int, uuid)),
            r is Err ==> final(self).ws() == old(self).ws();
    fn commit(&mut self) -> (r: Result<()>)
        requires !old(self).committed()
        ensures final(self).tasks() == old(self).tasks(), final(self).ws() == old(self).ws(), r is Ok ==> final(self).committed();
}

/// the closure is a function of the task's content
pub open spec fn pure_pred<F: Fn(&TaskMap) -> bool>(f: F) -> bool {
    &&& forall|t: &TaskMap| #[trigger] f.requires((t,))
    &&& forall|t1: &TaskMap, t2: &TaskMap, r1: bool, r2: bool| t1@ == t2@ && #[trigger] f.ensures((t1,), r1) && #[trigger] f.ensures((t2,), r2) ==> r1 == r2
}
pub open spec fn sat<F: Fn(&TaskMap) -> bool>(f: F, tm: TaskMapS) -> bool {
    exists|t: &TaskMap| t@ == tm && #[trigger] f.ensures((t,), true)
}
/// u should be in the working set
pub open spec fn want<F: Fn(&TaskMap) -> bool>(f: F, t: State, u: Uuid) -> bool {
    t.dom().contains(u) && sat(f, t[u])
}

// ---- extracted: working_set::rebuild with the D6 repair (async/await stripped) ----
pub fn rebuild<F>(
    txn: &mut dyn StorageTxn,
    in_working_set: F,
    renumber: bool,
) -> (res: Result<()>)
where
    F: Fn(&TaskMap) -> bool,
    requires
        !old(txn).committed(), ws_wf(old(txn).ws()), trim(old(txn).ws()) == old(txn).ws(), pure_pred(in_working_set),
        old(txn).ws().len() + old(txn).tasks().dom().len() < usize::MAX,
    ensures
        final(txn).tasks() == old(txn).tasks(),
        res is Ok ==> {
            let w = old(txn).ws(); let w2 = final(txn).ws(); let t = old(txn).tasks();
            &&& final(txn).committed()
            &&& ws_wf(w2)
            // exactly the wanted tasks
            &&& forall|u: Uuid| has(w2, u) <==> want(in_working_set, t, u)
            // without renumbering, survivors keep their number
            &&& !renumber ==> forall|i: int| 0 <= i < w.len() && w[i] is Some && want(in_working_set, t, w[i]->Some_0)
                    ==> i < w2.len() && #[trigger] w2[i] == w[i]
            // with renumbering there are no gaps
            &&& renumber ==> forall|i: int| 1 <= i < w2.len() ==> (#[trigger] w2[i]) is Some
        },
{
    let old_ws = txn.get_working_set()?;
    let mut new_ws = vec![None]; // index 0 is always None
    let mut seen = HashSet::new();

    for elt in &old_ws[1..] {
        // Determine whether this item names a task that should still be in the working set.
        let mut keep = None;
        if let Some(uuid) = elt {
            if let Some(task) = txn.get_task(*uuid)? {
                if in_working_set(&task) {
                    keep = Some(*uuid);
                }
            }
        }
        if let Some(uuid) = keep {
            new_ws.push(Some(uuid));
            seen.insert(uuid);
        } else if !renumber {
            new_ws.push(None);
        }
    }

    for (uuid, task) in txn.all_tasks()? {
        if !seen.contains(&uuid) && in_working_set(&task) {
            new_ws.push(Some(uuid));
        }
    }

    {
        let mut i: usize = 0;
        for (old, new) in old_ws.iter().zip(new_ws.iter()) {
            if old != new {
                txn.set_working_set_item(i, *new)?;
            }
            i += 1;
        }
    }

    match new_ws.len().cmp(&old_ws.len()) {
        std::cmp::Ordering::Less => {
            let mut i: usize = 0;
            for item in old_ws.iter() {
                if i >= new_ws.len() {
                    if item.is_some() {
                        txn.set_working_set_item(i, None)?;
                    }
                }
                i += 1;
            }
        }
        std::cmp::Ordering::Equal => {}
        std::cmp::Ordering::Greater => {
            for uuid in &new_ws[old_ws.len()..] {
                txn.add_to_working_set(uuid.expect("new ws items should not be None"))?;
            }
        }
    }

    txn.commit()?;
    Ok(())
}

}
fn main() {}
