use vstd::prelude::*;
verus! {

#[derive(PartialEq, Eq, Clone, Copy, Debug)]
pub struct Uuid(pub u128);
pub enum Error { Database(String), Other }
pub type Result<T> = std::result::Result<T, Error>;
#[verifier::external_body]
pub fn opaque_string() -> String { String::new() }

pub struct Data {
    pub base_version: Uuid,
    pub working_set: Vec<Option<Uuid>>,
}
impl Clone for Data {
    #[verifier::external_body]
    fn clone(&self) -> (r: Self) ensures r == *self { unimplemented!() }
}
pub struct InMemoryStorage { pub data: Data }
pub struct Txn<'t> {
    pub storage: &'t mut InMemoryStorage,
    pub new_data: Option<Data>,
}

pub open spec fn trim(ws: Seq<Option<Uuid>>) -> Seq<Option<Uuid>>
    decreases ws.len()
{
    if ws.len() > 1 && ws.last() is None { trim(ws.drop_last()) } else { ws }
}

pub trait StorageTxn {
    spec fn ws(&self) -> Seq<Option<Uuid>>;
    spec fn committed_data(&self) -> Data;
    fn get_working_set(&mut self) -> (r: Result<Vec<Option<Uuid>>>)
        ensures final(self).ws() == old(self).ws(), r is Ok ==> r->Ok_0@ == old(self).ws();
    fn add_to_working_set(&mut self, uuid: Uuid) -> (r: Result<usize>)
        requires old(self).ws().len() < usize::MAX
        ensures
            r is Ok ==> final(self).ws() == old(self).ws().push(Some(uuid)) && r->Ok_0 == old(self).ws().len(),
            r is Err ==> final(self).ws() == old(self).ws();
    fn set_working_set_item(&mut self, index: usize, uuid: Option<Uuid>) -> (r: Result<()>)
        requires old(self).ws().len() >= 1
        ensures
            r is Ok ==> index < old(self).ws().len() && final(self).ws() == trim(old(self).ws().update(index as int, uuid)),
            r is Err ==> final(self).ws() == old(self).ws();
    fn commit(&mut self) -> (r: Result<()>)
        ensures r is Ok ==> final(self).committed_data().working_set@ == old(self).ws();
}

impl Txn<'_> {
    pub open spec fn cur(&self) -> Data {
        match self.new_data { Some(d) => d, None => self.storage.data }
    }
    fn mut_data_ref(&mut self) -> (r: &mut Data)
        ensures *r == old(self).cur(),
                final(self).new_data == Some(*final(r)),
                final(self).storage == old(self).storage,
    {
        if self.new_data.is_none() {
            self.new_data = Some(self.storage.data.clone());
        }
        if let Some(ref mut data) = self.new_data {
            data
        } else {
            unreachable!();
        }
    }
    fn data_ref(&mut self) -> (r: &Data)
        ensures *r == old(self).cur(), *final(self) == *old(self)
    {
        if let Some(ref data) = self.new_data {
            data
        } else {
            &self.storage.data
        }
    }
    // Remove any "None" items from the end of the working set.
    fn normalize_working_set(&mut self)
        requires old(self).cur().working_set.len() >= 1
        ensures final(self).cur().working_set@ == trim(old(self).cur().working_set@),
            final(self).cur().base_version == old(self).cur().base_version,
            final(self).storage == old(self).storage,
    {
        let working_set = &mut self.mut_data_ref().working_set;
        while let Some(None) = &working_set[1..].last()
            invariant working_set.len() >= 1, trim(working_set@) == trim(old(self).cur().working_set@)
            ensures working_set@ == trim(old(self).cur().working_set@)
            decreases working_set.len()
        {
            working_set.pop();
        }
    }
}

impl StorageTxn for Txn<'_> {
    open spec fn ws(&self) -> Seq<Option<Uuid>> { self.cur().working_set@ }
    open spec fn committed_data(&self) -> Data { self.storage.data }

    fn get_working_set(&mut self) -> Result<Vec<Option<Uuid>>> {
        Ok(self.data_ref().working_set.clone())
    }

    fn add_to_working_set(&mut self, uuid: Uuid) -> Result<usize> {
        let working_set = &mut self.mut_data_ref().working_set;
        working_set.push(Some(uuid));
        Ok(working_set.len())
    }

    fn set_working_set_item(&mut self, index: usize, uuid: Option<Uuid>) -> Result<()> {
        let working_set = &mut self.mut_data_ref().working_set;
        if index >= working_set.len() {
            return Err(Error::Database(opaque_string()));
        }
        working_set[index] = uuid;

        self.normalize_working_set();
        Ok(())
    }

    fn commit(&mut self) -> Result<()> {
        // copy the new_data back into storage to commit the transaction
        if let Some(data) = self.new_data.take() {
            self.storage.data = data;
        }
        Ok(())
    }
}

}
fn main() {}
