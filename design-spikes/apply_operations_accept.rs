use vstd::prelude::*;
use std::collections::hash_map::Entry;
use std::collections::HashMap;
verus! {

#[derive(PartialEq, Eq, Clone, Copy, Debug, Hash)]
pub struct Uuid(pub u128);

pub type TaskMapS = Map<Seq<char>, Seq<char>>;
pub type State = Map<Uuid, TaskMapS>;

#[verifier::external_body]
pub struct TaskMap { inner: std::collections::HashMap<String, String> }

impl TaskMap {
    pub uninterp spec fn view(&self) -> TaskMapS;
    #[verifier::external_body]
    pub fn new() -> (r: Self) ensures r@ == Map::<Seq<char>, Seq<char>>::empty() { unimplemented!() }
    #[verifier::external_body]
    pub fn insert(&mut self, k: String, v: String) -> (r: Option<String>)
        ensures final(self)@ == old(self)@.insert(k@, v@) { unimplemented!() }
    #[verifier::external_body]
    pub fn remove(&mut self, k: &String) -> (r: Option<String>)
        ensures final(self)@ == old(self)@.remove(k@) { unimplemented!() }
}

pub enum Error { Database(String), Other }
pub type Result<T> = std::result::Result<T, Error>;

pub struct DateTimeUtc(pub i64);

pub enum Operation {
    Create { uuid: Uuid },
    Delete { uuid: Uuid, old_task: TaskMap },
    Update { uuid: Uuid, property: String, old_value: Option<String>, value: Option<String>, timestamp: DateTimeUtc },
    UndoPoint,
}
pub type Operations = Vec<Operation>;

pub trait StorageTxn {
    spec fn tasks(&self) -> State;
    fn get_task(&mut self, uuid: Uuid) -> (r: Result<Option<TaskMap>>)
        ensures final(self).tasks() == old(self).tasks(),
            match r {
                Ok(Some(t)) => old(self).tasks().dom().contains(uuid) && t@ == old(self).tasks()[uuid],
                Ok(None) => !old(self).tasks().dom().contains(uuid),
                Err(_) => true,
            };
    fn create_task(&mut self, uuid: Uuid) -> (r: Result<bool>)
        ensures
            match r {
                Ok(b) => b == !old(self).tasks().dom().contains(uuid)
                    && final(self).tasks() == (if b { old(self).tasks().insert(uuid, Map::empty()) } else { old(self).tasks() }),
                Err(_) => final(self).tasks() == old(self).tasks(),
            };
    fn set_task(&mut self, uuid: Uuid, task: TaskMap) -> (r: Result<()>)
        ensures
            match r {
                Ok(_) => final(self).tasks() == old(self).tasks().insert(uuid, task@),
                Err(_) => final(self).tasks() == old(self).tasks(),
            };
    fn delete_task(&mut self, uuid: Uuid) -> (r: Result<bool>)
        ensures
            match r {
                Ok(b) => b == old(self).tasks().dom().contains(uuid)
                    && final(self).tasks() == old(self).tasks().remove(uuid),
                Err(_) => final(self).tasks() == old(self).tasks(),
            };
}

pub fn apply_operations(
    txn: &mut dyn StorageTxn,
    operations: &Operations,
) -> Result<()> {
    // A cache of TaskMaps updated in this sequence of operations, but for which `txn.set_task` has
    // not yet been called.
    let mut tasks: HashMap<Uuid, Option<TaskMap>> = HashMap::new();

    fn get_cache<'t>(
        uuid: Uuid,
        tasks: &'t mut HashMap<Uuid, Option<TaskMap>>,
        txn: &mut dyn StorageTxn,
    ) -> Result<Option<&'t mut TaskMap>> {
        match tasks.entry(uuid) {
            Entry::Occupied(occupied_entry) => Ok(occupied_entry.into_mut().as_mut()),
            Entry::Vacant(vacant_entry) => {
                let task = txn.get_task(uuid)?;
                Ok(vacant_entry.insert(task).as_mut())
            }
        }
    }

    // Call `txn.set_task` for this task, if necessary, and remove from the cache.
    fn flush_cache(
        uuid: Uuid,
        tasks: &mut HashMap<Uuid, Option<TaskMap>>,
        txn: &mut dyn StorageTxn,
    ) -> Result<()> {
        if let Entry::Occupied(occupied_entry) = tasks.entry(uuid) {
            let v = occupied_entry.remove();
            if let Some(taskmap) = v {
                txn.set_task(uuid, taskmap)?;
            }
        }
        Ok(())
    }

    for operation in operations {
        match operation {
            Operation::Create { uuid } => {
                flush_cache(*uuid, &mut tasks, txn)?;
                txn.create_task(*uuid)?;
            }
            Operation::Delete { uuid, .. } => {
                txn.delete_task(*uuid)?;
                tasks.insert(*uuid, None);
            }
            Operation::Update {
                uuid,
                property,
                value,
                ..
            } => {
                let task = get_cache(*uuid, &mut tasks, txn)?;
                // If the task does not exist, do nothing.
                if let Some(task) = task {
                    if let Some(v) = value {
                        task.insert(property.clone(), v.clone());
                    } else {
                        task.remove(property);
                    }
                }
            }
            Operation::UndoPoint => {}
        }
    }

    // Flush any remaining tasks in the cache.
    while let Some((uuid, _)) = tasks.iter().next() {
        flush_cache(*uuid, &mut tasks, txn)?;
    }

    Ok(())
}

}
fn main() {}
