use vstd::prelude::*;
verus! {

// ---------- prelude ----------
#[derive(PartialEq, Eq, Clone, Copy, Debug)]
pub struct Uuid(pub u128);
#[derive(PartialEq, Eq, Clone, Copy, Debug)]
pub struct DateTimeUtc(pub i64);
pub struct Utc;
impl Utc { #[verifier::external_body] pub fn now() -> DateTimeUtc { unimplemented!() } }
pub type TaskMapS = Map<Seq<char>, Seq<char>>;
pub type State = Map<Uuid, TaskMapS>;
pub enum Error { Database(String), Other }
pub type Result<T> = std::result::Result<T, Error>;

#[verifier::external_body]
pub struct TaskMap { inner: std::collections::HashMap<String, String> }
impl View for TaskMap { type V = TaskMapS; uninterp spec fn view(&self) -> TaskMapS; }
pub open spec fn drained(old: TaskMapS, r: Seq<(String, String)>) -> bool {
    &&& forall|i: int, j: int| 0 <= i < j < r.len() ==> (#[trigger] r[i]).0@ != (#[trigger] r[j]).0@
    &&& forall|i: int| 0 <= i < r.len() ==> old.dom().contains((#[trigger] r[i]).0@) && old[r[i].0@] == r[i].1@
    &&& forall|k: Seq<char>| #![trigger old.dom().contains(k)] old.dom().contains(k) ==> exists|i: int| 0 <= i < r.len() && (#[trigger] r[i]).0@ == k
}
impl TaskMap {
    #[verifier::external_body]
    pub fn drain(&mut self) -> (r: Vec<(String, String)>)
        ensures drained(old(self)@, r@)
    { unimplemented!() }
}
impl Clone for TaskMap {
    #[verifier::external_body]
    fn clone(&self) -> (r: Self) ensures r@ == self@ { unimplemented!() }
}

pub enum Operation {
    Create { uuid: Uuid },
    Delete { uuid: Uuid, old_task: TaskMap },
    Update { uuid: Uuid, property: String, old_value: Option<String>, value: Option<String>, timestamp: DateTimeUtc },
    UndoPoint,
}
pub type Operations = Vec<Operation>;
pub enum SyncOp {
    Create { uuid: Uuid },
    Delete { uuid: Uuid },
    Update { uuid: Uuid, property: String, value: Option<String>, timestamp: DateTimeUtc },
}

// ---------- views and documented semantics ----------
pub enum OpV {
    Create { uuid: Uuid },
    Delete { uuid: Uuid, old: TaskMapS },
    Update { uuid: Uuid, property: Seq<char>, old_value: Option<Seq<char>>, value: Option<Seq<char>> },
    UndoPoint,
}
pub open spec fn sv(o: Option<String>) -> Option<Seq<char>> { match o { Some(s) => Some(s@), None => None } }
pub open spec fn opv(op: Operation) -> OpV {
    match op {
        Operation::Create { uuid, .. } => OpV::Create { uuid },
        Operation::Delete { uuid, old_task, .. } => OpV::Delete { uuid, old: old_task@ },
        Operation::Update { uuid, property, old_value, value, .. } => OpV::Update { uuid, property: property@, old_value: sv(old_value), value: sv(value) },
        Operation::UndoPoint => OpV::UndoPoint,
    }
}
pub open spec fn opvs(ops: Seq<Operation>) -> Seq<OpV> { ops.map_values(|o: Operation| opv(o)) }

pub open spec fn apply_lv(s: State, op: OpV) -> State {
    match op {
        OpV::Create { uuid } => if s.dom().contains(uuid) { s } else { s.insert(uuid, Map::empty()) },
        OpV::Delete { uuid, .. } => s.remove(uuid),
        OpV::Update { uuid, property, value, .. } =>
            if s.dom().contains(uuid) {
                match value { Some(v) => s.insert(uuid, s[uuid].insert(property, v)), None => s.insert(uuid, s[uuid].remove(property)) }
            } else { s },
        OpV::UndoPoint => s,
    }
}
pub open spec fn apply_lv_seq(s: State, ops: Seq<OpV>) -> State decreases ops.len() {
    if ops.len() == 0 { s } else { apply_lv(apply_lv_seq(s, ops.drop_last()), ops.last()) }
}
/// the operation is valid in s and its recorded old values are what s holds (docs/storage.md)
pub open spec fn accurate(s: State, op: OpV) -> bool {
    match op {
        OpV::Create { uuid } => !s.dom().contains(uuid),
        OpV::Delete { uuid, old } => s.dom().contains(uuid) && s[uuid] == old,
        OpV::Update { uuid, property, old_value, .. } => s.dom().contains(uuid)
            && old_value == (if s[uuid].dom().contains(property) { Some(s[uuid][property]) } else { None::<Seq<char>> }),
        OpV::UndoPoint => true,
    }
}
pub open spec fn accurate_seq(s: State, ops: Seq<OpV>) -> bool decreases ops.len() {
    if ops.len() == 0 { true } else { accurate_seq(s, ops.drop_last()) && accurate(apply_lv_seq(s, ops.drop_last()), ops.last()) }
}

pub open spec fn valid(s: State, op: SyncOp) -> bool {
    match op {
        SyncOp::Create { uuid } => !s.dom().contains(uuid),
        SyncOp::Delete { uuid } => s.dom().contains(uuid),
        SyncOp::Update { uuid, .. } => s.dom().contains(uuid),
    }
}
pub open spec fn apply(s: State, op: SyncOp) -> State {
    match op {
        SyncOp::Create { uuid } => if s.dom().contains(uuid) { s } else { s.insert(uuid, Map::empty()) },
        SyncOp::Delete { uuid } => s.remove(uuid),
        SyncOp::Update { uuid, property, value, .. } =>
            if s.dom().contains(uuid) {
                match value { Some(v) => s.insert(uuid, s[uuid].insert(property@, v@)), None => s.insert(uuid, s[uuid].remove(property@)) }
            } else { s },
    }
}
pub open spec fn apply_seq(s: State, ops: Seq<SyncOp>) -> State decreases ops.len() {
    if ops.len() == 0 { s } else { apply(apply_seq(s, ops.drop_last()), ops.last()) }
}
pub open spec fn valid_seq(s: State, ops: Seq<SyncOp>) -> bool decreases ops.len() {
    if ops.len() == 0 { true } else { valid_seq(s, ops.drop_last()) && valid(apply_seq(s, ops.drop_last()), ops.last()) }
}

/// C07 kernel: the SyncOps `r` undo `op`
pub open spec fn undoes(op: OpV, r: Seq<SyncOp>) -> bool {
    forall|s: State| #![trigger accurate(s, op)] accurate(s, op) ==>
        valid_seq(apply_lv(s, op), r) && apply_seq(apply_lv(s, op), r) =~~= s
}

/// map built from the first k drained pairs
pub open spec fn pairs_map(r: Seq<(String, String)>, k: int) -> TaskMapS decreases k {
    if k <= 0 { Map::empty() } else { pairs_map(r, k - 1).insert(r[k - 1].0@, r[k - 1].1@) }
}
pub open spec fn is_restore(o: SyncOp, uuid: Uuid, p: Seq<char>, v: Seq<char>) -> bool {
    match o { SyncOp::Update { uuid: u, property, value, .. } => u == uuid && property@ == p && sv(value) == Some(v), _ => false }
}
pub open spec fn delete_shape(uuid: Uuid, pairs: Seq<(String, String)>, k: int, ops: Seq<SyncOp>) -> bool {
    &&& ops.len() == 1 + k
    &&& ops[0] == SyncOp::Create { uuid }
    &&& forall|j: int| 0 <= j < k ==> is_restore(#[trigger] ops[1 + j], uuid, pairs[j].0@, pairs[j].1@)
}
pub proof fn lemma_delete_prefix(s: State, uuid: Uuid, pairs: Seq<(String, String)>, k: int, ops: Seq<SyncOp>)
    requires !s.dom().contains(uuid), 0 <= k <= pairs.len(), delete_shape(uuid, pairs, k, ops)
    ensures valid_seq(s, ops), apply_seq(s, ops) =~~= s.insert(uuid, pairs_map(pairs, k))
    decreases k
{
    if k == 0 {
        assert(ops.drop_last() =~= Seq::<SyncOp>::empty());
        assert(apply_seq(s, ops.drop_last()) == s);
        assert(ops.last() == ops[0]);
        assert(apply_seq(s, ops) == apply(s, ops[0]));
        assert(valid_seq(s, ops.drop_last()));
    } else {
        let prev = ops.drop_last();
        assert(delete_shape(uuid, pairs, k - 1, prev)) by {
            assert(prev[0] == ops[0]);
            assert forall|j: int| 0 <= j < k - 1 implies is_restore(#[trigger] prev[1 + j], uuid, pairs[j].0@, pairs[j].1@) by { assert(prev[1 + j] == ops[1 + j]); }
        }
        lemma_delete_prefix(s, uuid, pairs, k - 1, prev);
        let last = ops.last();
        assert(last == ops[1 + (k - 1)]);
        assert(is_restore(last, uuid, pairs[k - 1].0@, pairs[k - 1].1@));
        let mid = apply_seq(s, prev);
        assert(mid.dom().contains(uuid));
        assert(apply_seq(s, ops) == apply(mid, last));
        assert(valid(mid, last));
    }
}
pub proof fn lemma_pairs_map_all(old: TaskMapS, pairs: Seq<(String, String)>, k: int)
    requires drained(old, pairs), 0 <= k <= pairs.len()
    ensures
        forall|key: Seq<char>| #![trigger pairs_map(pairs, k).dom().contains(key)] pairs_map(pairs, k).dom().contains(key) <==> (exists|i: int| 0 <= i < k && (#[trigger] pairs[i]).0@ == key),
        forall|i: int| 0 <= i < k ==> pairs_map(pairs, k)[(#[trigger] pairs[i]).0@] == pairs[i].1@,
    decreases k
{
    if k > 0 {
        lemma_pairs_map_all(old, pairs, k - 1);
        let m = pairs_map(pairs, k);
        assert forall|key: Seq<char>| #![trigger m.dom().contains(key)] m.dom().contains(key) <==> (exists|i: int| 0 <= i < k && (#[trigger] pairs[i]).0@ == key) by {
            if m.dom().contains(key) {
                if key == pairs[k - 1].0@ { assert(pairs[k - 1].0@ == key); }
                else { assert(pairs_map(pairs, k - 1).dom().contains(key)); let i = choose|i: int| 0 <= i < k - 1 && (#[trigger] pairs[i]).0@ == key; assert(pairs[i].0@ == key); }
            }
            if exists|i: int| 0 <= i < k && (#[trigger] pairs[i]).0@ == key {
                let i = choose|i: int| 0 <= i < k && (#[trigger] pairs[i]).0@ == key;
                if i < k - 1 { assert(pairs_map(pairs, k - 1).dom().contains(key)); }
            }
        }
        assert forall|i: int| 0 <= i < k implies m[(#[trigger] pairs[i]).0@] == pairs[i].1@ by {
            if i < k - 1 { assert(pairs[i].0@ != pairs[k - 1].0@); }
        }
    }
}


pub open spec fn rev_delete_ok(uuid: Uuid, old: TaskMapS, ops: Seq<SyncOp>) -> bool {
    exists|pairs: Seq<(String, String)>| drained(old, pairs) && #[trigger] delete_shape(uuid, pairs, pairs.len() as int, ops)
}
/// what reverse_ops returns, case by case (docs/storage.md "Undo")
pub open spec fn rev_shape(op: OpV, r: Seq<SyncOp>) -> bool {
    match op {
        OpV::Create { uuid } => r.len() == 1 && r[0] == (SyncOp::Delete { uuid }),
        OpV::Delete { uuid, old } => rev_delete_ok(uuid, old, r),
        OpV::Update { uuid, property, old_value, .. } => r.len() == 1 && (match r[0] {
            SyncOp::Update { uuid: u, property: p, value, .. } => u == uuid && p@ == property && sv(value) == old_value,
            _ => false }),
        OpV::UndoPoint => r.len() == 0,
    }
}
pub proof fn lemma_rev_shape_undoes(op: OpV, r: Seq<SyncOp>)
    requires rev_shape(op, r)
    ensures undoes(op, r)
{
    assert forall|s: State| #![trigger accurate(s, op)] accurate(s, op) implies
        valid_seq(apply_lv(s, op), r) && apply_seq(apply_lv(s, op), r) =~~= s by {
        let s1 = apply_lv(s, op);
        match op {
            OpV::Create { uuid } => {
                assert(r.drop_last() =~= Seq::<SyncOp>::empty());
                assert(apply_seq(s1, r.drop_last()) == s1);
                assert(valid_seq(s1, r.drop_last()));
                assert(r.last() == r[0]);
                assert(apply_seq(s1, r) == apply(s1, r[0]));
            }
            OpV::Delete { uuid, old } => {
                let pairs = choose|pairs: Seq<(String, String)>| drained(old, pairs) && #[trigger] delete_shape(uuid, pairs, pairs.len() as int, r);
                lemma_delete_prefix(s1, uuid, pairs, pairs.len() as int, r);
                lemma_pairs_map_all(old, pairs, pairs.len() as int);
                let m = pairs_map(pairs, pairs.len() as int);
                assert(m =~= old) by {
                    assert forall|key: Seq<char>| m.dom().contains(key) <==> old.dom().contains(key) by {
                        if m.dom().contains(key) { let i = choose|i: int| 0 <= i < pairs.len() && (#[trigger] pairs[i]).0@ == key; assert(old.dom().contains(pairs[i].0@)); }
                        if old.dom().contains(key) { let i = choose|i: int| 0 <= i < pairs.len() && (#[trigger] pairs[i]).0@ == key; assert(pairs[i].0@ == key); }
                    }
                    assert forall|key: Seq<char>| m.dom().contains(key) implies m[key] == old[key] by {
                        let i = choose|i: int| 0 <= i < pairs.len() && (#[trigger] pairs[i]).0@ == key;
                        assert(m[pairs[i].0@] == pairs[i].1@);
                    }
                }
                assert(s1.insert(uuid, m) =~~= s);
            }
            OpV::Update { uuid, property, old_value, value } => {
                assert(r.drop_last() =~= Seq::<SyncOp>::empty());
                assert(apply_seq(s1, r.drop_last()) == s1);
                assert(valid_seq(s1, r.drop_last()));
                assert(r.last() == r[0]);
                assert(apply_seq(s1, r) == apply(s1, r[0]));
                assert(s1.dom().contains(uuid));
                assert(apply(s1, r[0])[uuid] =~= s[uuid]);
            }
            OpV::UndoPoint => {}
        }
    }
}

pub trait StorageTxn {
    spec fn tasks(&self) -> State;
    spec fn unsynced(&self) -> Seq<OpV>;
    spec fn committed(&self) -> bool;
    fn unsynced_operations(&mut self) -> (r: Result<Vec<Operation>>)
        ensures final(self).tasks() == old(self).tasks(), final(self).unsynced() == old(self).unsynced(), final(self).committed() == old(self).committed(),
            r matches Ok(v) ==> opvs(v@) == old(self).unsynced();
    fn remove_operation(&mut self, op: Operation) -> (r: Result<()>)
        requires !old(self).committed()
        ensures final(self).tasks() == old(self).tasks(), final(self).committed() == old(self).committed(),
            r is Ok ==> old(self).unsynced().len() > 0 && old(self).unsynced().last() == opv(op) && final(self).unsynced() == old(self).unsynced().drop_last(),
            r is Err ==> final(self).unsynced() == old(self).unsynced();
    fn commit(&mut self) -> (r: Result<()>)
        requires !old(self).committed()
        ensures final(self).tasks() == old(self).tasks(), final(self).unsynced() == old(self).unsynced(),
            r is Ok ==> final(self).committed(), r is Err ==> !final(self).committed();
}

// assumed: derived PartialEq / Clone on Operation act on the views
impl Clone for Operation {
    #[verifier::external_body]
    fn clone(&self) -> (r: Self) ensures opv(r) == opv(*self) { unimplemented!() }
}
#[verifier::external_body]
pub fn ops_eq(a: &[Operation], b: &Vec<Operation>) -> (r: bool) ensures r == (opvs(a@) == opvs(b@)) { unimplemented!() }
#[verifier::external_body]
pub fn ops_to_vec(a: &Vec<Operation>) -> (r: Vec<Operation>) ensures opvs(r@) == opvs(a@) { unimplemented!() }
#[verifier::external_body]
pub fn ops_reverse(a: &mut Vec<Operation>) ensures final(a)@ == old(a)@.reverse() { unimplemented!() }


#[verifier::external_body]
pub fn apply_op(txn: &mut dyn StorageTxn, op: &SyncOp) -> (r: Result<()>)
    ensures
        final(txn).unsynced() == old(txn).unsynced(), final(txn).committed() == old(txn).committed(),
        r is Ok ==> final(txn).tasks() =~~= apply(old(txn).tasks(), *op),
        r is Err ==> final(txn).tasks() == old(txn).tasks(),
{ unimplemented!() }

// ---- extracted: taskdb/undo.rs :: fn reverse_ops ----
fn reverse_ops(op: Operation) -> (r: Vec<SyncOp>)
    ensures rev_shape(opv(op), r@)
{
    match op {
        Operation::Create { uuid } => vec![SyncOp::Delete { uuid }],
        Operation::Delete { uuid, mut old_task } => {
            let mut ops = vec![SyncOp::Create { uuid }];
            // We don't have the original update timestamp, but it doesn't
            // matter because this SyncOp will just be applied and discarded.
            let timestamp = Utc::now();
            let ghost old = old_task@;
            for (property, value) in it: old_task.drain()
                invariant
                    drained(old, it.seq()),
                    delete_shape(uuid, it.seq(), it.index() as int, ops@),
                    it.index() == it.seq().len() ==> rev_delete_ok(uuid, old, ops@),
            {
                ops.push(SyncOp::Update {
                    uuid,
                    property,
                    value: Some(value),
                    timestamp,
                });
                proof {
                    assert(it.index() + 1 == it.seq().len() ==> rev_delete_ok(uuid, old, ops@)) by {
                        if it.index() + 1 == it.seq().len() { assert(delete_shape(uuid, it.seq(), it.seq().len() as int, ops@)); }
                    }
                }
            }
            ops
        }
        Operation::Update {
            uuid,
            property,
            old_value,
            timestamp,
            ..
        } => vec![SyncOp::Update {
            uuid,
            property,
            value: old_value,
            timestamp,
        }],
        Operation::UndoPoint => vec![],
    }
}



pub proof fn lemma_lv_take_succ(s: State, ops: Seq<OpV>, i: int)
    requires 0 <= i < ops.len()
    ensures apply_lv_seq(s, ops.take(i + 1)) == apply_lv(apply_lv_seq(s, ops.take(i)), ops[i]),
            accurate_seq(s, ops.take(i + 1)) == (accurate_seq(s, ops.take(i)) && accurate(apply_lv_seq(s, ops.take(i)), ops[i])),
{
    assert(ops.take(i + 1).drop_last() =~= ops.take(i));
}
pub proof fn lemma_accurate_take(s: State, ops: Seq<OpV>, i: int)
    requires 0 <= i <= ops.len(), accurate_seq(s, ops)
    ensures accurate_seq(s, ops.take(i))
    decreases ops.len() - i
{
    if i == ops.len() { assert(ops.take(i) =~= ops); }
    else { lemma_accurate_take(s, ops, i + 1); lemma_lv_take_succ(s, ops, i); }
}
pub proof fn lemma_seq_take_succ(s: State, ops: Seq<SyncOp>, i: int)
    requires 0 <= i < ops.len()
    ensures apply_seq(s, ops.take(i + 1)) == apply(apply_seq(s, ops.take(i)), ops[i]),
{
    assert(ops.take(i + 1).drop_last() =~= ops.take(i));
}
/// undo_ops is a non-empty suffix of the unsynced operations
pub open spec fn tail_match(unsynced: Seq<OpV>, undo: Seq<OpV>) -> bool {
    undo.len() > 0 && undo.len() <= unsynced.len() && unsynced.skip(unsynced.len() - undo.len()) == undo
}

// ---- extracted: taskdb/undo.rs :: commit_reversed_operations (== / to_vec / reverse routed through prelude helpers in this spike) ----
pub fn commit_reversed_operations(
    txn: &mut dyn StorageTxn,
    undo_ops: Operations,
) -> (res: Result<bool>)
    requires !old(txn).committed()
    ensures
        res is Err ==> !final(txn).committed(),
        res matches Ok(b) ==> {
            let u0 = old(txn).unsynced(); let un = opvs(undo_ops@);
            if tail_match(u0, un) {
                &&& final(txn).committed()
                &&& final(txn).unsynced() == u0.take(u0.len() - un.len())
                &&& forall|sb: State| #![trigger accurate_seq(sb, un)] accurate_seq(sb, un) && apply_lv_seq(sb, un) == old(txn).tasks() ==> final(txn).tasks() == sb
            } else {
                !b && final(txn).tasks() == old(txn).tasks() && final(txn).unsynced() == u0 && !final(txn).committed()
            }
        },
{
    let ghost u0 = txn.unsynced();
    let ghost t0 = txn.tasks();
    let ghost un = opvs(undo_ops@);
    let mut applied = false;
    let local_ops = txn.unsynced_operations()?;
    let mut undo_ops_ = ops_to_vec(&undo_ops);

    if undo_ops_.is_empty() {
        proof { assert(un.len() == undo_ops_@.len()); }
        return Ok(false);
    }

    // Verify that undo_ops_ are the most recent local ops.
    let mut ok = false;
    let local_undo_ops;
    if undo_ops_.len() <= local_ops.len() {
        let new_len = local_ops.len() - undo_ops_.len();
        local_undo_ops = &local_ops[new_len..];
        proof {
            assert(un.len() == undo_ops_@.len());
            assert(u0.len() == local_ops@.len());
            assert(opvs(local_undo_ops@) =~= u0.skip(u0.len() - un.len()));
        }
        if ops_eq(local_undo_ops, &undo_ops_) {
            ok = true;
        }
    } else {
        proof { assert(un.len() == undo_ops_@.len()); assert(u0.len() == local_ops@.len()); }
    }
    if !ok {
        return Ok(applied);
    }
    proof { assert(tail_match(u0, un)); }

    ops_reverse(&mut undo_ops_);
    let ghost n = un.len() as int;
    proof { assert(un.take(n) =~= un); }
    for op in it: undo_ops_
        invariant
            u0 == old(txn).unsynced(), t0 == old(txn).tasks(), tail_match(u0, un), n == un.len(), un == opvs(undo_ops@),
            !txn.committed(),
            it.seq().len() == n,
            forall|j: int| 0 <= j < n ==> opv(#[trigger] it.seq()[j]) == un[n - 1 - j],
            txn.unsynced() == u0.take(u0.len() - it.index()),
            forall|sb: State| #![trigger accurate_seq(sb, un)] accurate_seq(sb, un) && apply_lv_seq(sb, un) == t0
                ==> txn.tasks() == apply_lv_seq(sb, un.take(n - it.index())),
    {
        let ghost j = it.index() as int;
        let ghost tk = txn.tasks();
        let ghost opj = opv(op);
        let rev_ops = reverse_ops(op.clone());
        proof { lemma_rev_shape_undoes(opj, rev_ops@); }
        for op in it2: rev_ops
            invariant
                !txn.committed(), txn.unsynced() == u0.take(u0.len() - j),
                txn.tasks() == apply_seq(tk, it2.seq().take(it2.index() as int)),
        {
            let ghost i = it2.index() as int;
            proof { lemma_seq_take_succ(tk, it2.seq(), i); }
            apply_op(txn, &op)?;
            applied = true;
        }
        proof {
            assert(rev_ops@.take(rev_ops@.len() as int) =~= rev_ops@);
            assert forall|sb: State| #![trigger accurate_seq(sb, un)] accurate_seq(sb, un) && apply_lv_seq(sb, un) == t0
                implies txn.tasks() == apply_lv_seq(sb, un.take(n - j - 1)) by {
                let s = apply_lv_seq(sb, un.take(n - j - 1));
                lemma_accurate_take(sb, un, n - j);
                lemma_lv_take_succ(sb, un, n - j - 1);
                assert(accurate(s, opj));
                assert(tk == apply_lv(s, opj));
                assert(apply_seq(tk, rev_ops@) =~~= s);
            }
        }
        txn.remove_operation(op)?;
        proof {
            assert(u0.take(u0.len() - j).drop_last() =~= u0.take(u0.len() - j - 1));
        }
    }
    proof {
        assert(un.take(0) =~= Seq::<OpV>::empty());
    }

    txn.commit()?;

    Ok(applied)
}

}
fn main() {}
