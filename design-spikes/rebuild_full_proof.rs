use vstd::prelude::*;
use std::collections::HashSet;
verus! {
pub mod ax {
    use vstd::prelude::*;
    use super::Uuid;
    pub broadcast axiom fn axiom_uuid_key_model()
        ensures #[trigger] vstd::std_specs::hash::obeys_key_model::<Uuid>();
}
broadcast use {vstd::std_specs::hash::group_hash_axioms, ax::axiom_uuid_key_model};

#[derive(PartialEq, Eq, Clone, Copy, Debug, Hash)]
pub struct Uuid(pub u128);
impl vstd::std_specs::cmp::PartialEqSpecImpl for Uuid {
    open spec fn obeys_eq_spec() -> bool { true }
    open spec fn eq_spec(&self, other: &Self) -> bool { *self == *other }
}
pub type TaskMapS = Map<Seq<char>, Seq<char>>;
pub type State = Map<Uuid, TaskMapS>;
#[verifier::external_body]
pub struct TaskMap { inner: std::collections::HashMap<String, String> }
impl View for TaskMap { type V = TaskMapS; uninterp spec fn view(&self) -> TaskMapS; }
pub enum Error { Database(String), Other }
pub type Result<T> = std::result::Result<T, Error>;
pub type Ws = Seq<Option<Uuid>>;

pub open spec fn trim(ws: Ws) -> Ws
    decreases ws.len()
{
    if ws.len() > 1 && ws.last() is None { trim(ws.drop_last()) } else { ws }
}
pub open spec fn ws_wf(ws: Ws) -> bool {
    ws.len() >= 1 && ws[0] is None
    && forall|i: int, j: int| 0 <= i < j < ws.len() && ws[i] is Some ==> ws[i] != ws[j]
}
pub open spec fn ws_has(ws: Ws, u: Uuid) -> bool { exists|i: int| 0 <= i < ws.len() && #[trigger] ws[i] == Some(u) }

pub trait StorageTxn {
    spec fn tasks(&self) -> State;
    spec fn ws(&self) -> Ws;
    spec fn committed(&self) -> bool;
    fn get_task(&mut self, uuid: Uuid) -> (r: Result<Option<TaskMap>>)
        ensures final(self).tasks() == old(self).tasks(), final(self).ws() == old(self).ws(), final(self).committed() == old(self).committed(),
            match r {
                Ok(Some(t)) => old(self).tasks().dom().contains(uuid) && t@ == old(self).tasks()[uuid],
                Ok(None) => !old(self).tasks().dom().contains(uuid),
                Err(_) => true,
            };
    fn all_tasks(&mut self) -> (r: Result<Vec<(Uuid, TaskMap)>>)
        ensures final(self).tasks() == old(self).tasks(), final(self).ws() == old(self).ws(), final(self).committed() == old(self).committed(),
            r matches Ok(v) ==> {
                &&& forall|i: int| 0 <= i < v@.len() ==> old(self).tasks().dom().contains(#[trigger] v@[i].0) && v@[i].1@ == old(self).tasks()[v@[i].0]
                &&& forall|i: int, j: int| 0 <= i < j < v@.len() ==> v@[i].0 != v@[j].0
                &&& forall|u: Uuid| #![trigger old(self).tasks().dom().contains(u)] old(self).tasks().dom().contains(u) ==> in_seq(v@, u)
            };
    fn get_working_set(&mut self) -> (r: Result<Vec<Option<Uuid>>>)
        ensures final(self).tasks() == old(self).tasks(), final(self).ws() == old(self).ws(), final(self).committed() == old(self).committed(),
            r is Ok ==> r->Ok_0@ == old(self).ws();
    fn add_to_working_set(&mut self, uuid: Uuid) -> (r: Result<usize>)
        requires !old(self).committed()
        ensures final(self).tasks() == old(self).tasks(), final(self).committed() == old(self).committed(),
            r is Ok ==> final(self).ws() == old(self).ws().push(Some(uuid)) && r->Ok_0 == old(self).ws().len(),
            r is Err ==> final(self).ws() == old(self).ws();
    fn set_working_set_item(&mut self, index: usize, uuid: Option<Uuid>) -> (r: Result<()>)
        requires !old(self).committed()
        ensures final(self).tasks() == old(self).tasks(), final(self).committed() == old(self).committed(),
            r is Ok ==> index < old(self).ws().len() && final(self).ws() == trim(old(self).ws().update(index as int, uuid)),
            r is Err ==> final(self).ws() == old(self).ws();
    fn commit(&mut self) -> (r: Result<()>)
        requires !old(self).committed()
        ensures final(self).tasks() == old(self).tasks(), final(self).ws() == old(self).ws(), r is Ok ==> final(self).committed();
}

/// the closure is a function of the task's content
pub open spec fn pure_pred<F: Fn(&TaskMap) -> bool>(f: F) -> bool {
    &&& forall|t: &TaskMap| #[trigger] f.requires((t,))
    &&& forall|t1: &TaskMap, t2: &TaskMap, r1: bool, r2: bool| t1@ == t2@ && #[trigger] f.ensures((t1,), r1) && #[trigger] f.ensures((t2,), r2) ==> r1 == r2
}
pub open spec fn sat<F: Fn(&TaskMap) -> bool>(f: F, tm: TaskMapS) -> bool {
    exists|t: &TaskMap| t@ == tm && #[trigger] f.ensures((t,), true)
}
/// u should be in the working set
pub open spec fn want<F: Fn(&TaskMap) -> bool>(f: F, t: State, u: Uuid) -> bool {
    t.dom().contains(u) && sat(f, t[u])
}


// ---------- trim lemmas ----------
pub proof fn lemma_trim_prefix(x: Ws)
    requires x.len() >= 1
    ensures
        1 <= trim(x).len() <= x.len(),
        forall|j: int| 0 <= j < trim(x).len() ==> #[trigger] trim(x)[j] == x[j],
        forall|j: int| trim(x).len() <= j < x.len() ==> (#[trigger] x[j]) is None,
        trim(x).len() > 1 ==> trim(x).last() is Some,
    decreases x.len()
{
    if x.len() > 1 && x.last() is None {
        lemma_trim_prefix(x.drop_last());
        assert forall|j: int| trim(x).len() <= j < x.len() implies (#[trigger] x[j]) is None by {
            if j < x.len() - 1 { assert(x.drop_last()[j] == x[j]); }
        }
        assert forall|j: int| 0 <= j < trim(x).len() implies #[trigger] trim(x)[j] == x[j] by {
            assert(x.drop_last()[j] == x[j]);
        }
    }
}
pub proof fn lemma_trim_fixed(x: Ws)
    requires x.len() >= 1, x.len() == 1 || x.last() is Some
    ensures trim(x) == x
{
}
/// Two sequences that agree up to trailing Nones have the same trim.
pub proof fn lemma_trim_eq(x: Ws, y: Ws)
    requires x.len() >= 1, y.len() >= x.len(),
        forall|j: int| 0 <= j < x.len() ==> #[trigger] y[j] == x[j],
        forall|j: int| x.len() <= j < y.len() ==> (#[trigger] y[j]) is None,
    ensures trim(y) == trim(x)
    decreases y.len()
{
    if y.len() > x.len() {
        assert(y.last() is None);
        lemma_trim_eq(x, y.drop_last());
    } else {
        assert(y =~= x);
    }
}
pub proof fn lemma_trim_update(x: Ws, i: int, v: Option<Uuid>)
    requires x.len() >= 1, 0 <= i < trim(x).len()
    ensures trim(trim(x).update(i, v)) == trim(x.update(i, v))
{
    lemma_trim_prefix(x);
    let a = trim(x).update(i, v);
    let b = x.update(i, v);
    lemma_trim_eq(a, b);
}
pub proof fn lemma_trim_idem(x: Ws)
    requires x.len() >= 1
    ensures trim(trim(x)) == trim(x)
{
    lemma_trim_prefix(x);
    lemma_trim_fixed(trim(x));
}
/// the stored working set after write-back
pub open spec fn final_ws(n: Ws, old_len: int) -> Ws {
    if n.len() <= old_len { trim(n) } else { trim(n.take(old_len)) + n.skip(old_len) }
}

pub open spec fn kept_upto<F: Fn(&TaskMap) -> bool>(f: F, w: Ws, t: State, k: int, u: Uuid) -> bool {
    exists|i: int| 1 <= i <= k && #[trigger] w[i] == Some(u) && want(f, t, u)
}
pub open spec fn added_upto<F: Fn(&TaskMap) -> bool>(f: F, sq: Seq<(Uuid, TaskMap)>, nw1: Ws, t: State, k: int, u: Uuid) -> bool {
    exists|j: int| 0 <= j < k && #[trigger] sq[j].0 == u && !ws_has(nw1, u) && want(f, t, u)
}
pub open spec fn seq_upto(sq: Seq<(Uuid, TaskMap)>, k: int, u: Uuid) -> bool { exists|i: int| 0 <= i < k && #[trigger] sq[i].0 == u }
pub open spec fn in_seq(sq: Seq<(Uuid, TaskMap)>, u: Uuid) -> bool { exists|i: int| 0 <= i < sq.len() && #[trigger] sq[i].0 == u }
/// what phases 1 and 2 must have computed
#[verifier::opaque]
pub open spec fn phase12_post<F: Fn(&TaskMap) -> bool>(f: F, renumber: bool, w: Ws, t: State, n: Ws) -> bool {
    &&& n.len() >= 1 && n[0] is None
    &&& forall|i: int, j: int| 0 <= i < j < n.len() && n[i] is Some ==> n[i] != n[j]
    &&& forall|u: Uuid| ws_has(n, u) <==> want(f, t, u)
    &&& !renumber ==> n.len() >= w.len() && (forall|i: int| 1 <= i < w.len() ==>
            #[trigger] n[i] == (if w[i] is Some && want(f, t, w[i]->Some_0) { w[i] } else { None::<Uuid> }))
            && (forall|i: int| w.len() <= i < n.len() ==> (#[trigger] n[i]) is Some)
    &&& renumber ==> forall|i: int| 1 <= i < n.len() ==> (#[trigger] n[i]) is Some
}


/// C15: what a successful rebuild guarantees about the stored working set
pub open spec fn rebuild_post<F: Fn(&TaskMap) -> bool>(f: F, renumber: bool, w: Ws, t: State, w2: Ws) -> bool {
    &&& ws_wf(w2)
    // exactly the wanted tasks
    &&& forall|u: Uuid| ws_has(w2, u) <==> want(f, t, u)
    // without renumbering, survivors keep their number
    &&& !renumber ==> forall|i: int| 0 <= i < w.len() && w[i] is Some && want(f, t, w[i]->Some_0)
            ==> i < w2.len() && w2[i] == #[trigger] w[i]
    // with renumbering there are no gaps
    &&& renumber ==> forall|i: int| 1 <= i < w2.len() ==> (#[trigger] w2[i]) is Some
}
/// storage contents (before trimming) while the "shrink" loop runs: new_ws, then blanks up to i, then old tail
pub open spec fn less_state(n: Ws, w: Ws, i: int) -> Ws {
    Seq::new(w.len(), |j: int| if j < n.len() { n[j] } else if j < i { None } else { w[j] })
}
pub proof fn lemma_final_ws_props<F: Fn(&TaskMap) -> bool>(f: F, renumber: bool, w: Ws, t: State, n: Ws)
    requires phase12_post(f, renumber, w, t, n), ws_wf(w),
    ensures rebuild_post(f, renumber, w, t, final_ws(n, w.len() as int))
{
    reveal(phase12_post);
    let l = w.len() as int;
    let w2 = final_ws(n, l);
    if n.len() <= l {
        lemma_trim_prefix(n);
        assert forall|u: Uuid| ws_has(w2, u) <==> ws_has(n, u) by {
            if ws_has(w2, u) { let j = choose|j: int| 0 <= j < w2.len() && w2[j] == Some(u); assert(n[j] == Some(u)); }
            if ws_has(n, u) { let j = choose|j: int| 0 <= j < n.len() && n[j] == Some(u); assert(j < w2.len()); assert(w2[j] == Some(u)); }
        }
        assert forall|i: int, j: int| 0 <= i < j < w2.len() && w2[i] is Some implies w2[i] != w2[j] by {
            assert(w2[i] == n[i] && w2[j] == n[j]);
        }
        if !renumber {
            assert forall|i: int| 0 <= i < w.len() && w[i] is Some && want(f, t, w[i]->Some_0)
                implies i < w2.len() && w2[i] == #[trigger] w[i] by {
                assert(i >= 1);
                assert(n[i] == w[i]);
            }
        } else {
            if n.len() > 1 { assert(n[n.len() - 1] is Some); }
            lemma_trim_fixed(n);
        }
    } else {
        let a = trim(n.take(l));
        let b = n.skip(l);
        lemma_trim_prefix(n.take(l));
        assert(w2 == a + b);
        assert forall|k: int| 0 <= k < b.len() implies (#[trigger] b[k]) is Some by { assert(b[k] == n[l + k]); }
        // index map from w2 into n
        assert forall|j: int| 0 <= j < w2.len() implies #[trigger] w2[j] == n[if j < a.len() { j } else { l + (j - a.len()) }] by {
            if j < a.len() { assert(a[j] == n.take(l)[j]); } else { assert(w2[j] == b[j - a.len()]); }
        }
        assert forall|u: Uuid| ws_has(w2, u) <==> ws_has(n, u) by {
            if ws_has(w2, u) {
                let j = choose|j: int| 0 <= j < w2.len() && w2[j] == Some(u);
                let jn = if j < a.len() { j } else { l + (j - a.len()) };
                assert(n[jn] == Some(u));
            }
            if ws_has(n, u) {
                let j = choose|j: int| 0 <= j < n.len() && n[j] == Some(u);
                if j < l { assert(n.take(l)[j] == Some(u)); assert(j < a.len()); assert(w2[j] == Some(u)); }
                else { assert(w2[a.len() + (j - l)] == b[j - l]); assert(b[j - l] == n[j]); }
            }
        }
        assert forall|i: int, j: int| 0 <= i < j < w2.len() && w2[i] is Some implies w2[i] != w2[j] by {
            let i_n = if i < a.len() { i } else { l + (i - a.len()) };
            let j_n = if j < a.len() { j } else { l + (j - a.len()) };
            assert(w2[i] == n[i_n] && w2[j] == n[j_n]);
            assert(i_n < j_n);
        }
        assert(w2[0] == n[0]);
        if !renumber {
            assert forall|i: int| 0 <= i < w.len() && w[i] is Some && want(f, t, w[i]->Some_0)
                implies i < w2.len() && w2[i] == #[trigger] w[i] by {
                assert(i >= 1);
                assert(n[i] == w[i]);
                assert(n.take(l)[i] == n[i]);
                assert(i < a.len());
            }
        } else {
            if l > 1 { assert(n.take(l)[l - 1] == n[l - 1]); assert(n.take(l).last() is Some); }
            lemma_trim_fixed(n.take(l));
            assert(w2 =~= n);
        }
    }
    assert(ws_wf(w2));
    assert forall|u: Uuid| ws_has(w2, u) <==> want(f, t, u) by {
        assert(ws_has(w2, u) <==> ws_has(n, u));
    }
    assert(!renumber ==> forall|i: int| 0 <= i < w.len() && w[i] is Some && want(f, t, w[i]->Some_0) ==> i < w2.len() && w2[i] == #[trigger] w[i]);
    assert(renumber ==> forall|i: int| 1 <= i < w2.len() ==> (#[trigger] w2[i]) is Some);
}
// ---- extracted: working_set::rebuild with the D6 repair (async/await stripped) ----
pub fn rebuild<F>(
    txn: &mut dyn StorageTxn,
    in_working_set: F,
    renumber: bool,
) -> (res: Result<()>)
where
    F: Fn(&TaskMap) -> bool,
    requires
        !old(txn).committed(), ws_wf(old(txn).ws()), trim(old(txn).ws()) == old(txn).ws(), pure_pred(in_working_set),
        old(txn).ws().len() + old(txn).tasks().dom().len() < usize::MAX,
    ensures
        final(txn).tasks() == old(txn).tasks(),
        res is Ok ==> final(txn).committed() && rebuild_post(in_working_set, renumber, old(txn).ws(), old(txn).tasks(), final(txn).ws()),
{
    let old_ws = txn.get_working_set()?;
    let mut new_ws = vec![None]; // index 0 is always None
    let mut seen = HashSet::new();

    let ghost w = old_ws@;
    let ghost t = txn.tasks();
    for elt in it: &old_ws[1..]
        invariant
            w == old_ws@, w == old(txn).ws(), ws_wf(w), trim(w) == w, pure_pred(in_working_set),
            txn.tasks() == t, t == old(txn).tasks(), txn.ws() == w, !txn.committed(),
            it.seq().len() == w.len() - 1, forall|i: int| 0 <= i < it.seq().len() ==> *(#[trigger] it.seq()[i]) == w[i + 1],
            new_ws@.len() >= 1, new_ws@[0] is None,
            forall|i: int, j: int| 0 <= i < j < new_ws@.len() && new_ws@[i] is Some ==> new_ws@[i] != new_ws@[j],
            forall|u: Uuid| #![trigger ws_has(new_ws@, u)] #![trigger kept_upto(in_working_set, w, t, it.index() as int, u)] ws_has(new_ws@, u) <==> kept_upto(in_working_set, w, t, it.index() as int, u),
            forall|u: Uuid| #![trigger seen@.contains(u)] #![trigger ws_has(new_ws@, u)] seen@.contains(u) <==> ws_has(new_ws@, u),
            !renumber ==> new_ws@.len() == it.index() + 1 && (forall|i: int| 1 <= i <= it.index() ==>
                #[trigger] new_ws@[i] == (if w[i] is Some && want(in_working_set, t, w[i]->Some_0) { w[i] } else { None::<Uuid> })),
            renumber ==> forall|i: int| 1 <= i < new_ws@.len() ==> (#[trigger] new_ws@[i]) is Some,
    {
        // Determine whether this item names a task that should still be in the working set.
        let ghost k = it.index() as int;
        let ghost nw0 = new_ws@;
        let ghost seen0 = seen@;
        let mut keep = None;
        if let Some(uuid) = elt {
            if let Some(task) = txn.get_task(*uuid)? {
                if in_working_set(&task) {
                    keep = Some(*uuid);
                    proof { assert(sat(in_working_set, t[*uuid])); }
                } else {
                    proof {
                        // purity: no task with this content satisfies the predicate
                        if sat(in_working_set, t[*uuid]) {
                            let t2 = choose|t2: &TaskMap| t2@ == t[*uuid] && in_working_set.ensures((t2,), true);
                            assert(in_working_set.ensures((&task,), false));
                        }
                    }
                }
            }
        }
        proof {
            assert(*elt == w[k + 1]);
            assert(keep matches Some(u) ==> w[k + 1] == Some(u) && want(in_working_set, t, u));
            assert(keep is None ==> !(w[k + 1] is Some && want(in_working_set, t, w[k + 1]->Some_0)));
        }
        if let Some(uuid) = keep {
            new_ws.push(Some(uuid));
            seen.insert(uuid);
            proof {
                // uuid was not yet present: the old working set has no duplicates
                if ws_has(nw0, uuid) {
                    let i = choose|i: int| 1 <= i <= k && #[trigger] w[i] == Some(uuid) && want(in_working_set, t, uuid);
                    assert(w[i] != w[k + 1]);
                }
                assert(new_ws@[nw0.len() as int] == Some(uuid));
                assert forall|u: Uuid| ws_has(new_ws@, u) <==> kept_upto(in_working_set, w, t, k + 1, u) by {
                    if ws_has(new_ws@, u) {
                        let j = choose|j: int| 0 <= j < new_ws@.len() && new_ws@[j] == Some(u);
                        if j < nw0.len() { assert(nw0[j] == Some(u)); assert(ws_has(nw0, u)); let i = choose|i: int| 1 <= i <= k && #[trigger] w[i] == Some(u) && want(in_working_set, t, u); assert(w[i] == Some(u)); } else { assert(w[k + 1] == Some(u)); }
                    }
                    if kept_upto(in_working_set, w, t, k + 1, u) {
                        let i = choose|i: int| 1 <= i <= k + 1 && #[trigger] w[i] == Some(u) && want(in_working_set, t, u);
                        if i <= k { assert(kept_upto(in_working_set, w, t, k, u)); assert(ws_has(nw0, u)); let j = choose|j: int| 0 <= j < nw0.len() && nw0[j] == Some(u); assert(new_ws@[j] == Some(u)); }
                        else { assert(u == uuid); }
                    }
                }
                assert forall|u: Uuid| seen@.contains(u) <==> ws_has(new_ws@, u) by {
                    if ws_has(new_ws@, u) {
                        let j = choose|j: int| 0 <= j < new_ws@.len() && new_ws@[j] == Some(u);
                        if j < nw0.len() { assert(nw0[j] == Some(u)); assert(ws_has(nw0, u)); }
                    }
                    if ws_has(nw0, u) { let j = choose|j: int| 0 <= j < nw0.len() && nw0[j] == Some(u); assert(new_ws@[j] == Some(u)); }
                }
            }
        } else if !renumber {
            new_ws.push(None);
            proof {
                assert forall|u: Uuid| #![trigger ws_has(new_ws@, u)] #![trigger ws_has(nw0, u)] ws_has(new_ws@, u) <==> ws_has(nw0, u) by {
                    if ws_has(new_ws@, u) { let j = choose|j: int| 0 <= j < new_ws@.len() && new_ws@[j] == Some(u); assert(j < nw0.len()); assert(nw0[j] == Some(u)); }
                    if ws_has(nw0, u) { let j = choose|j: int| 0 <= j < nw0.len() && nw0[j] == Some(u); assert(new_ws@[j] == Some(u)); }
                }
            }
        }
        proof {
            if keep is None {
                assert(seen@ == seen0);
                if renumber { assert(new_ws@ == nw0); } else { assert(new_ws@ == nw0.push(None)); }
                assert forall|u: Uuid| #![trigger ws_has(new_ws@, u)] #![trigger ws_has(nw0, u)] ws_has(new_ws@, u) <==> ws_has(nw0, u) by {
                    if ws_has(new_ws@, u) { let j = choose|j: int| 0 <= j < new_ws@.len() && new_ws@[j] == Some(u); assert(j < nw0.len()); assert(nw0[j] == Some(u)); }
                    if ws_has(nw0, u) { let j = choose|j: int| 0 <= j < nw0.len() && nw0[j] == Some(u); assert(new_ws@[j] == Some(u)); }
                }
                assert forall|u: Uuid| #![trigger kept_upto(in_working_set, w, t, k + 1, u)] #![trigger kept_upto(in_working_set, w, t, k, u)] kept_upto(in_working_set, w, t, k + 1, u) <==> kept_upto(in_working_set, w, t, k, u) by {
                    if kept_upto(in_working_set, w, t, k + 1, u) {
                        let i = choose|i: int| 1 <= i <= k + 1 && #[trigger] w[i] == Some(u) && want(in_working_set, t, u);
                        assert(i <= k);
                        assert(w[i] == Some(u));
                    }
                    if kept_upto(in_working_set, w, t, k, u) {
                        let i = choose|i: int| 1 <= i <= k && #[trigger] w[i] == Some(u) && want(in_working_set, t, u);
                        assert(w[i] == Some(u));
                    }
                }
            }
            if keep is Some { assert(forall|u: Uuid| ws_has(new_ws@, u) <==> kept_upto(in_working_set, w, t, k + 1, u)); }
            if keep is None && renumber { assert(new_ws@ == nw0); assert(forall|u: Uuid| ws_has(new_ws@, u) <==> kept_upto(in_working_set, w, t, k + 1, u)); }
            if keep is None && !renumber { assert(forall|u: Uuid| ws_has(new_ws@, u) <==> kept_upto(in_working_set, w, t, k + 1, u)); }
            assert(forall|u: Uuid| seen@.contains(u) <==> ws_has(new_ws@, u));
        }
    }

    let ghost nw1 = new_ws@;
    proof {
        assert(forall|u: Uuid| #![trigger ws_has(nw1, u)] ws_has(nw1, u) <==> kept_upto(in_working_set, w, t, w.len() - 1, u));
    }
    let ghost mut processed: Set<Uuid> = Set::empty();
    for (uuid, task) in it2: txn.all_tasks()?
        invariant
            pure_pred(in_working_set), t == old(txn).tasks(), txn.tasks() == t, txn.ws() == w, !txn.committed(), w == old_ws@, w == old(txn).ws(), ws_wf(w), trim(w) == w,
            // what all_tasks returned
            forall|i: int| 0 <= i < it2.seq().len() ==> t.dom().contains(#[trigger] it2.seq()[i].0) && it2.seq()[i].1@ == t[it2.seq()[i].0],
            forall|i: int, j: int| 0 <= i < j < it2.seq().len() ==> it2.seq()[i].0 != it2.seq()[j].0,
            forall|u: Uuid| #![trigger t.dom().contains(u)] t.dom().contains(u) ==> in_seq(it2.seq(), u),
            forall|u: Uuid| #![trigger processed.contains(u)] processed.contains(u) <==> seq_upto(it2.seq(), it2.index() as int, u),
            it2.index() == it2.seq().len() ==> (forall|u: Uuid| t.dom().contains(u) ==> #[trigger] processed.contains(u)),
            // phase-1 result is an untouched prefix, everything after it is a newcomer
            nw1.len() <= new_ws@.len(), new_ws@.take(nw1.len() as int) == nw1, nw1.len() >= 1,
            forall|i: int| nw1.len() <= i < new_ws@.len() ==> (#[trigger] new_ws@[i]) is Some,
            forall|i: int, j: int| 0 <= i < j < new_ws@.len() && new_ws@[i] is Some ==> new_ws@[i] != new_ws@[j],
            forall|u: Uuid| #![trigger seen@.contains(u)] #![trigger ws_has(nw1, u)] seen@.contains(u) <==> ws_has(nw1, u),
            forall|u: Uuid| #![trigger ws_has(new_ws@, u)] ws_has(new_ws@, u) <==> (ws_has(nw1, u) || (processed.contains(u) && !ws_has(nw1, u) && want(in_working_set, t, u))),
    {
        let ghost k = it2.index() as int;
        let ghost nw0 = new_ws@;
        let ghost proc0 = processed;
        proof { processed = processed.insert(uuid); }
        proof {
            assert(it2.seq()[k].0 == uuid && it2.seq()[k].1 == task);
            // processed tracks the prefix of the iteration
            assert forall|u: Uuid| #![trigger processed.contains(u)] processed.contains(u) <==> seq_upto(it2.seq(), k + 1, u) by {
                if seq_upto(it2.seq(), k + 1, u) {
                    let i = choose|i: int| 0 <= i < k + 1 && #[trigger] it2.seq()[i].0 == u;
                    if i < k { assert(seq_upto(it2.seq(), k, u)); }
                }
                if proc0.contains(u) { let i = choose|i: int| 0 <= i < k && #[trigger] it2.seq()[i].0 == u; assert(it2.seq()[i].0 == u); }
                if u == uuid { assert(it2.seq()[k].0 == u); }
            }
            // this uuid was not processed before: all_tasks has no duplicates
            assert(!proc0.contains(uuid)) by {
                if proc0.contains(uuid) { let i = choose|i: int| 0 <= i < k && #[trigger] it2.seq()[i].0 == uuid; assert(it2.seq()[i].0 != it2.seq()[k].0); }
            }
            assert(k + 1 == it2.seq().len() ==> (forall|u: Uuid| t.dom().contains(u) ==> #[trigger] processed.contains(u))) by {
                if k + 1 == it2.seq().len() {
                    assert forall|u: Uuid| t.dom().contains(u) implies #[trigger] processed.contains(u) by {
                        assert(in_seq(it2.seq(), u));
                        let i = choose|i: int| 0 <= i < it2.seq().len() && #[trigger] it2.seq()[i].0 == u;
                        assert(seq_upto(it2.seq(), k + 1, u));
                    }
                }
            }
        }
        if !seen.contains(&uuid) && in_working_set(&task) {
            new_ws.push(Some(uuid));
            proof {
                assert(sat(in_working_set, t[uuid]));
                assert(!ws_has(nw1, uuid));
                assert(!ws_has(nw0, uuid));
                assert(new_ws@[nw0.len() as int] == Some(uuid));
                assert(new_ws@.take(nw1.len() as int) =~= nw0.take(nw1.len() as int));
                assert forall|u: Uuid| #![trigger ws_has(new_ws@, u)] ws_has(new_ws@, u) <==> (ws_has(nw1, u) || (processed.contains(u) && !ws_has(nw1, u) && want(in_working_set, t, u))) by {
                    if ws_has(new_ws@, u) {
                        let j = choose|j: int| 0 <= j < new_ws@.len() && new_ws@[j] == Some(u);
                        if j < nw0.len() { assert(nw0[j] == Some(u)); assert(ws_has(nw0, u)); } else { assert(u == uuid); }
                    }
                    if ws_has(nw0, u) { let j = choose|j: int| 0 <= j < nw0.len() && nw0[j] == Some(u); assert(new_ws@[j] == Some(u)); }
                }
            }
        } else {
            proof {
                // this task is either already kept by phase 1 or not wanted
                if !seen@.contains(uuid) {
                    if sat(in_working_set, t[uuid]) {
                        let t2 = choose|t2: &TaskMap| t2@ == t[uuid] && in_working_set.ensures((t2,), true);
                        assert(in_working_set.ensures((&task,), false));
                    }
                }
            }
        }
    }
    proof {
        let n = new_ws@;
        assert forall|u: Uuid| ws_has(n, u) <==> want(in_working_set, t, u) by {
            if ws_has(nw1, u) {
                let i = choose|i: int| 1 <= i <= w.len() - 1 && #[trigger] w[i] == Some(u) && want(in_working_set, t, u);
            }
        }
        if !renumber {
            assert forall|i: int| 1 <= i < w.len() implies
                #[trigger] n[i] == (if w[i] is Some && want(in_working_set, t, w[i]->Some_0) { w[i] } else { None::<Uuid> }) by {
                assert(n.take(nw1.len() as int)[i] == n[i]);
            }
        } else {
            assert forall|i: int| 1 <= i < n.len() implies (#[trigger] n[i]) is Some by {
                if i < nw1.len() { assert(n.take(nw1.len() as int)[i] == n[i]); }
            }
        }
        assert(n.take(nw1.len() as int)[0] == n[0]);
        reveal(phase12_post);
        assert(phase12_post(in_working_set, renumber, old_ws@, txn.tasks(), new_ws@));
    }
    let ghost nn = new_ws@;
    proof { reveal(phase12_post); assert(nn.len() >= 1); assert(nn.take(0) + w.skip(0) =~= w); }
    {
        let mut i: usize = 0;
        for (old_, new) in it3: old_ws.iter().zip(new_ws.iter())
            invariant
                w == old_ws@, nn == new_ws@, w.len() >= 1, nn.len() >= 1, t == old(txn).tasks(), txn.tasks() == t, !txn.committed(), w == old(txn).ws(),
                    phase12_post(in_working_set, renumber, w, t, nn), ws_wf(w),
                i == it3.index(),
                it3.seq().len() == (if w.len() <= nn.len() { w.len() } else { nn.len() }),
                forall|j: int| 0 <= j < it3.seq().len() ==> *(#[trigger] it3.seq()[j]).0 == w[j] && *it3.seq()[j].1 == nn[j],
                txn.ws() == trim(nn.take(i as int) + w.skip(i as int)),
        {
            let ghost x = nn.take(i as int) + w.skip(i as int);
            let ghost x2 = nn.take(i as int + 1) + w.skip(i as int + 1);
            proof {
                assert(*old_ == w[i as int] && *new == nn[i as int]);
                assert(x2 =~= x.update(i as int, nn[i as int]));
            }
            if old_ != new {
                txn.set_working_set_item(i, *new)?;
                proof { lemma_trim_update(x, i as int, nn[i as int]); }
            } else {
                proof { assert(x2 =~= x); }
            }
            i += 1;
        }
    }
    let ghost mm = if w.len() <= nn.len() { w.len() as int } else { nn.len() as int };
    proof { assert(txn.ws() == trim(nn.take(mm) + w.skip(mm))); }

    match new_ws.len().cmp(&old_ws.len()) {
        std::cmp::Ordering::Less => {
            proof { assert(less_state(nn, w, 0) =~= nn.take(mm) + w.skip(mm)); }
            let mut i: usize = 0;
            for item in it4: old_ws.iter()
                invariant
                    w == old_ws@, nn == new_ws@, nn.len() < w.len(), nn.len() >= 1, t == old(txn).tasks(), txn.tasks() == t, !txn.committed(), w == old(txn).ws(),
                    phase12_post(in_working_set, renumber, w, t, nn), ws_wf(w),
                    i == it4.index(), it4.seq().len() == w.len(),
                    forall|j: int| 0 <= j < it4.seq().len() ==> *(#[trigger] it4.seq()[j]) == w[j],
                    txn.ws() == trim(less_state(nn, w, i as int)),
            {
                let ghost z = less_state(nn, w, i as int);
                let ghost z2 = less_state(nn, w, i as int + 1);
                proof { assert(*item == w[i as int]); }
                if i >= new_ws.len() {
                    if item.is_some() {
                        txn.set_working_set_item(i, None)?;
                        proof { assert(z2 =~= z.update(i as int, None)); lemma_trim_update(z, i as int, None); }
                    } else {
                        proof { assert(z2 =~= z); }
                    }
                } else {
                    proof { assert(z2 =~= z); }
                }
                i += 1;
            }
            proof {
                lemma_trim_eq(nn, less_state(nn, w, w.len() as int));
                assert(txn.ws() == final_ws(nn, w.len() as int));
            }
        }
        std::cmp::Ordering::Equal => {
            proof {
                assert(nn.take(mm) + w.skip(mm) =~= nn);
                assert(txn.ws() == final_ws(nn, w.len() as int));
            }
        }
        std::cmp::Ordering::Greater => {
            proof { reveal(phase12_post); assert(nn.take(mm) + w.skip(mm) =~= nn.take(w.len() as int)); }
            for uuid in it5: &new_ws[old_ws.len()..]
                invariant
                    w == old_ws@, nn == new_ws@, nn.len() > w.len(), w.len() >= 1, t == old(txn).tasks(), txn.tasks() == t, !txn.committed(), w == old(txn).ws(),
                    phase12_post(in_working_set, renumber, w, t, nn), ws_wf(w),
                    it5.seq().len() == nn.len() - w.len(),
                    forall|j: int| 0 <= j < it5.seq().len() ==> *(#[trigger] it5.seq()[j]) == nn[w.len() + j],
                    forall|j: int| w.len() <= j < nn.len() ==> (#[trigger] nn[j]) is Some,
                    txn.ws() == trim(nn.take(w.len() as int)) + nn.subrange(w.len() as int, w.len() + it5.index()),
            {
                let ghost k = it5.index() as int;
                proof { assert(*uuid == nn[w.len() + k]); }
                txn.add_to_working_set(uuid.expect("new ws items should not be None"))?;
                proof {
                    assert(nn.subrange(w.len() as int, w.len() + k + 1) =~= nn.subrange(w.len() as int, w.len() + k).push(nn[w.len() + k]));
                    assert(txn.ws() =~= trim(nn.take(w.len() as int)) + nn.subrange(w.len() as int, w.len() + k + 1));
                }
            }
            proof {
                assert(nn.subrange(w.len() as int, nn.len() as int) =~= nn.skip(w.len() as int));
                assert(txn.ws() == final_ws(nn, w.len() as int));
            }
        }
    }
    proof {
        assert(txn.ws() == final_ws(nn, w.len() as int));
        assert(w == old(txn).ws());
        assert(t == old(txn).tasks());
        assert(phase12_post(in_working_set, renumber, w, t, nn));
        assert(ws_wf(w));
        lemma_final_ws_props(in_working_set, renumber, w, t, nn);
    }
    txn.commit()?;
    Ok(())
}

}
fn main() {}
