use vstd::prelude::*;
verus! {

// ---------- prelude ----------
#[derive(PartialEq, Eq, Clone, Copy, Debug)]
pub struct Uuid(pub u128);
impl vstd::std_specs::cmp::PartialEqSpecImpl for Uuid {
    open spec fn obeys_eq_spec() -> bool { true }
    open spec fn eq_spec(&self, other: &Self) -> bool { *self == *other }
}
pub type VersionId = Uuid;
pub open spec fn nil() -> Uuid { Uuid(0) }

#[derive(PartialEq, Eq, Clone, Copy, Debug, PartialOrd, Ord)]
pub struct DateTimeUtc(pub i64);
pub type TaskMapS = Map<Seq<char>, Seq<char>>;
pub type State = Map<Uuid, TaskMapS>;
pub enum Error { Database(String), OutOfSync, Other }
pub type Result<T> = std::result::Result<T, Error>;

#[derive(PartialEq, Eq, Debug)]
pub enum SyncOp {
    Create { uuid: Uuid },
    Delete { uuid: Uuid },
    Update { uuid: Uuid, property: String, value: Option<String>, timestamp: DateTimeUtc },
}
pub struct Version { pub operations: Vec<SyncOp> }
pub type HistorySegment = Vec<u8>;

#[derive(Clone, Copy)]
pub enum SnapshotUrgency { None, Low, High }
pub open spec fn urg_rank(u: SnapshotUrgency) -> int { match u { SnapshotUrgency::None => 0, SnapshotUrgency::Low => 1, SnapshotUrgency::High => 2 } }
#[verifier::external_body]
pub fn urg_ge(a: SnapshotUrgency, b: SnapshotUrgency) -> (r: bool) ensures r == (urg_rank(a) >= urg_rank(b)) { unimplemented!() }
#[verifier::external_body]
pub fn urg_max(a: SnapshotUrgency, b: SnapshotUrgency) -> (r: SnapshotUrgency) ensures urg_rank(r) == (if urg_rank(a) >= urg_rank(b) { urg_rank(a) } else { urg_rank(b) }) { unimplemented!() }
pub enum AddVersionResult { Ok(VersionId), ExpectedParentVersion(VersionId) }
pub enum GetVersionResult {
    NoSuchVersion,
    Version { version_id: VersionId, parent_version_id: VersionId, history_segment: HistorySegment },
}

// ---------- specs ----------
pub open spec fn valid(s: State, op: SyncOp) -> bool {
    match op {
        SyncOp::Create { uuid } => !s.dom().contains(uuid),
        SyncOp::Delete { uuid } => s.dom().contains(uuid),
        SyncOp::Update { uuid, .. } => s.dom().contains(uuid),
    }
}
pub open spec fn apply(s: State, op: SyncOp) -> State {
    match op {
        SyncOp::Create { uuid } => if s.dom().contains(uuid) { s } else { s.insert(uuid, Map::empty()) },
        SyncOp::Delete { uuid } => s.remove(uuid),
        SyncOp::Update { uuid, property, value, timestamp } =>
            if s.dom().contains(uuid) {
                match value {
                    Some(v) => s.insert(uuid, s[uuid].insert(property@, v@)),
                    None => s.insert(uuid, s[uuid].remove(property@)),
                }
            } else { s },
    }
}
pub open spec fn apply_seq(s: State, ops: Seq<SyncOp>) -> State
    decreases ops.len()
{
    if ops.len() == 0 { s } else { apply(apply_seq(s, ops.drop_last()), ops.last()) }
}
pub open spec fn valid_seq(s: State, ops: Seq<SyncOp>) -> bool
    decreases ops.len()
{
    if ops.len() == 0 { true } else { valid_seq(s, ops.drop_last()) && valid(apply_seq(s, ops.drop_last()), ops.last()) }
}

pub struct VersionRec { pub id: Uuid, pub parent: Uuid, pub ops: Seq<SyncOp> }
pub type Chain = Seq<VersionRec>;

/// state after the first k versions
pub open spec fn replay(c: Chain, k: int) -> State
    decreases k
{
    if k <= 0 { Map::empty() } else { apply_seq(replay(c, k - 1), c[k - 1].ops) }
}
/// id naming the state after k versions
pub open spec fn id_at(c: Chain, k: int) -> Uuid { if k <= 0 { nil() } else { c[k - 1].id } }

pub open spec fn chain_wf(c: Chain) -> bool {
    &&& forall|k: int| 0 <= k < c.len() ==> #[trigger] c[k].parent == id_at(c, k)
    &&& forall|k: int| 0 <= k < c.len() ==> (#[trigger] c[k].id) != nil()
    &&& forall|i: int, j: int| 0 <= i < j < c.len() ==> (#[trigger] c[i].id) != (#[trigger] c[j].id)
    &&& forall|k: int| 0 <= k < c.len() ==> valid_seq(replay(c, k), #[trigger] c[k].ops)
}
pub open spec fn prefix(a: Chain, b: Chain) -> bool { a.len() <= b.len() && forall|i: int| #![trigger a[i]] 0 <= i < a.len() ==> a[i] == b[i] }

pub open spec fn no_child_within(c: Chain, m: int, parent: Uuid) -> bool {
    forall|k: int| 0 <= k < m ==> #[trigger] id_at(c, k) != parent
}
pub open spec fn head_is(c: Chain, m: int, h: Uuid) -> bool { 0 < m <= c.len() && id_at(c, m) == h }
pub open spec fn version_at(c: Chain, k: int, parent: Uuid, id: Uuid, ops: Seq<SyncOp>) -> bool {
    0 <= k < c.len() && id_at(c, k) == parent && c[k].id == id && c[k].ops == ops
}
pub uninterp spec fn decode(seg: Seq<u8>) -> Seq<SyncOp>;

// ---------- Server contract (rely/guarantee: chain may grow inside every call) ----------
pub uninterp spec fn snap_decode(b: Seq<u8>) -> State;
pub trait Server {
    spec fn chain(&self) -> Chain;

    fn get_child_version(&mut self, parent: VersionId) -> (r: Result<GetVersionResult>)
        requires chain_wf(old(self).chain()),
        ensures
            chain_wf(final(self).chain()), prefix(old(self).chain(), final(self).chain()),
            match r {
                Ok(GetVersionResult::Version { version_id, parent_version_id, history_segment }) =>
                    exists|k: int| #[trigger] version_at(final(self).chain(), k, parent, version_id, decode(history_segment@)),
                Ok(GetVersionResult::NoSuchVersion) =>
                    // at the linearisation point `parent` was the head (or unknown)
                    exists|m: int| old(self).chain().len() <= m <= final(self).chain().len()
                        && #[trigger] no_child_within(final(self).chain(), m, parent),
                Err(e) => !(e is OutOfSync),
            };

    fn add_version(&mut self, parent: VersionId, seg: HistorySegment) -> (r: Result<(AddVersionResult, SnapshotUrgency)>)
        requires
            chain_wf(old(self).chain()),
            // guarantee: whatever we propose is valid on top of `parent`
            forall|k: int| 0 <= k <= old(self).chain().len() && #[trigger] id_at(old(self).chain(), k) == parent
                ==> valid_seq(replay(old(self).chain(), k), decode(seg@)),
        ensures
            chain_wf(final(self).chain()), prefix(old(self).chain(), final(self).chain()),
            match r {
                Ok((AddVersionResult::Ok(id), _)) =>
                    exists|k: int| old(self).chain().len() <= k
                        && #[trigger] version_at(final(self).chain(), k, parent, id, decode(seg@)),
                Ok((AddVersionResult::ExpectedParentVersion(h), _)) =>
                    exists|m: int| old(self).chain().len() <= m
                        && #[trigger] head_is(final(self).chain(), m, h) && h != parent,
                Err(e) => !(e is OutOfSync),
            };

    /// C12: a snapshot may only be uploaded for a version whose replayed state it encodes
    fn add_snapshot(&mut self, version: VersionId, snapshot: Vec<u8>) -> (r: Result<()>)
        requires chain_wf(old(self).chain()),
            exists|k: int| 0 < k <= old(self).chain().len() && #[trigger] id_at(old(self).chain(), k) == version
                && snap_decode(snapshot@) == replay(old(self).chain(), k),
        ensures chain_wf(final(self).chain()), prefix(old(self).chain(), final(self).chain()),
            r matches Err(e) ==> !(e is OutOfSync);

}

#[verifier::external_body]
pub fn make_snapshot(txn: &mut dyn StorageTxn) -> (r: Result<Vec<u8>>)
    ensures final(txn).tasks() == old(txn).tasks(), final(txn).base() == old(txn).base(), final(txn).committed() == old(txn).committed(),
        r matches Ok(b) ==> snap_decode(b@) == old(txn).tasks(), r matches Err(e) ==> !(e is OutOfSync),
{ unimplemented!() }
pub trait StorageTxn {
    spec fn tasks(&self) -> State;
    spec fn base(&self) -> Uuid;
    spec fn committed(&self) -> bool;
    fn base_version(&mut self) -> (r: Result<VersionId>)
        ensures final(self).tasks() == old(self).tasks(), final(self).base() == old(self).base(), final(self).committed() == old(self).committed(),
            r is Ok ==> r->Ok_0 == old(self).base(), r matches Err(e) ==> !(e is OutOfSync);
    fn set_base_version(&mut self, v: VersionId) -> (r: Result<()>)
        requires !old(self).committed(),
        ensures final(self).tasks() == old(self).tasks(), final(self).committed() == old(self).committed(),
            r is Ok ==> final(self).base() == v, r is Err ==> final(self).base() == old(self).base(), r matches Err(e) ==> !(e is OutOfSync);
    fn commit(&mut self) -> (r: Result<()>)
        requires !old(self).committed(),
        ensures final(self).tasks() == old(self).tasks(), final(self).base() == old(self).base(), r is Ok ==> final(self).committed(), r is Err ==> !final(self).committed(), r matches Err(e) ==> !(e is OutOfSync);
}

pub open spec fn pre(b: State, tasks: State, local: Seq<SyncOp>, server: Seq<SyncOp>) -> bool {
    valid_seq(b, local) && apply_seq(b, local) == tasks && valid_seq(b, server)
}

#[verifier::external_body]
pub fn apply_version(txn: &mut dyn StorageTxn, local_ops: &mut Vec<SyncOp>, version: Version) -> (res: Result<()>)
    ensures
        final(txn).base() == old(txn).base(), final(txn).committed() == old(txn).committed(),
        res is Ok ==> forall|b: State| pre(b, old(txn).tasks(), old(local_ops)@, version.operations@) ==> {
            let b2 = apply_seq(b, version.operations@);
            valid_seq(b2, final(local_ops)@) && apply_seq(b2, final(local_ops)@) == final(txn).tasks()
        },
        res is Err ==> final(txn).tasks() == old(txn).tasks(),
        res matches Err(e) ==> !(e is OutOfSync),
{ unimplemented!() }

#[verifier::external_body]
pub fn decode_version(seg: &HistorySegment) -> (v: Version) ensures v.operations@ == decode(seg@) { unimplemented!() }
#[verifier::external_body]
pub fn encode_version(ops: &Vec<SyncOp>, n: usize) -> (seg: HistorySegment)
    requires n <= ops.len() ensures decode(seg@) == ops@.take(n as int) { unimplemented!() }
#[verifier::external_body]
pub fn batch_len(ops: &Vec<SyncOp>) -> (n: usize) requires ops.len() > 0 ensures 0 < n <= ops.len() { unimplemented!() }
#[verifier::external_body]
pub fn drop_front(ops: &mut Vec<SyncOp>, n: usize) requires n <= old(ops).len() ensures final(ops)@ == old(ops)@.skip(n as int) { unimplemented!() }

/// Replica invariant w.r.t. chain c at position p, with explicit pending ops
pub open spec fn ri(c: Chain, p: int, base: Uuid, tasks: State, local: Seq<SyncOp>) -> bool {
    0 <= p <= c.len() && base == id_at(c, p)
    && valid_seq(replay(c, p), local) && apply_seq(replay(c, p), local) == tasks
}



#[verifier::external_body]
pub fn op_size(op: &SyncOp) -> (n: usize) ensures n <= 0x1000_0000_0000 { unimplemented!() }

// ---------- lemmas about chains ----------
pub proof fn lemma_replay_prefix(a: Chain, b: Chain, k: int)
    requires prefix(a, b), 0 <= k <= a.len()
    ensures replay(a, k) == replay(b, k), id_at(a, k) == id_at(b, k)
    decreases k
{
    if k > 0 {
        lemma_replay_prefix(a, b, k - 1);
        assert(a[k - 1] == b[k - 1]);
    }
}
pub mod chainlem {
use super::*;
use vstd::prelude::*;
pub broadcast proof fn lemma_prefix_trans(a: Chain, b: Chain, c: Chain)
    requires #[trigger] prefix(a, b), #[trigger] prefix(b, c)
    ensures prefix(a, c)
{
    assert forall|i: int| 0 <= i < a.len() implies #[trigger] a[i] == c[i] by { assert(a[i] == b[i]); assert(b[i] == c[i]); }
}
}
pub proof fn lemma_id_at_unique(c: Chain, i: int, j: int)
    requires chain_wf(c), 0 <= i <= c.len(), 0 <= j <= c.len(), id_at(c, i) == id_at(c, j)
    ensures i == j
{
    if i != j {
        if i == 0 { assert(c[j - 1].id != nil()); }
        else if j == 0 { assert(c[i - 1].id != nil()); }
        else if i < j { assert(c[i - 1].id != c[j - 1].id); }
        else { assert(c[j - 1].id != c[i - 1].id); }
    }
}
pub proof fn lemma_valid_take_skip(s: State, ops: Seq<SyncOp>, n: int)
    requires 0 <= n <= ops.len()
    ensures
        valid_seq(s, ops) == (valid_seq(s, ops.take(n)) && valid_seq(apply_seq(s, ops.take(n)), ops.skip(n))),
        apply_seq(s, ops) == apply_seq(apply_seq(s, ops.take(n)), ops.skip(n)),
{
    assert(ops =~= ops.take(n) + ops.skip(n));
    lemma_apply_seq_concat(s, ops.take(n), ops.skip(n));
}
pub proof fn lemma_apply_seq_concat(s: State, a: Seq<SyncOp>, b: Seq<SyncOp>)
    ensures apply_seq(s, a + b) == apply_seq(apply_seq(s, a), b),
            valid_seq(s, a + b) == (valid_seq(s, a) && valid_seq(apply_seq(s, a), b)),
    decreases b.len()
{
    if b.len() == 0 { assert(a + b =~= a); }
    else {
        lemma_apply_seq_concat(s, a, b.drop_last());
        assert((a + b).drop_last() =~= a + b.drop_last());
        assert((a + b).last() == b.last());
    }
}

// ---------- the (repaired) sync loop, snapshot logic omitted in this spike ----------
#[verifier::exec_allows_no_decreases_clause]
pub fn sync(server: &mut Box<dyn Server>, txn: &mut dyn StorageTxn, local_in: Vec<SyncOp>, avoid_snapshots: bool) -> (res: Result<()>)
    requires
        chain_wf(old(server).chain()), !old(txn).committed(),
        exists|p: int| #[trigger] ri(old(server).chain(), p, old(txn).base(), old(txn).tasks(), local_in@),
    ensures
        chain_wf(final(server).chain()),
        prefix(old(server).chain(), final(server).chain()),
        // C01/C02: on success the replica is exactly some version of the chain, nothing pending, committed
        res is Ok ==> final(txn).committed() && exists|p: int| #[trigger] ri(final(server).chain(), p, final(txn).base(), final(txn).tasks(), Seq::<SyncOp>::empty()),
        // C04: any failure leaves the transaction uncommitted
        res is Err ==> !final(txn).committed(),
        // C02: a correct server never causes OutOfSync
        !(res matches Err(Error::OutOfSync)),
{
    let ghost c0 = server.chain();
    let mut base_version_id = txn.base_version()?;
    let mut local_ops: Vec<SyncOp> = local_in;
    let mut requested_parent_version_id: Option<VersionId> = None;
    let mut snapshot_urgency = SnapshotUrgency::None;
    let ghost mut p: int = choose|p: int| ri(c0, p, txn.base(), txn.tasks(), local_ops@);
    let ghost mut req_pos: int = 0;
    loop
        invariant
            c0 == old(server).chain(), chain_wf(server.chain()), prefix(c0, server.chain()), !txn.committed(),
            base_version_id == txn.base(),
            ri(server.chain(), p, txn.base(), txn.tasks(), local_ops@),
            requested_parent_version_id matches Some(h) ==> 0 < req_pos <= server.chain().len() && id_at(server.chain(), req_pos) == h,
        ensures
            local_ops@.len() == 0,
    {
        loop
            invariant
                c0 == old(server).chain(), chain_wf(server.chain()), prefix(c0, server.chain()), !txn.committed(),
                base_version_id == txn.base(),
                ri(server.chain(), p, txn.base(), txn.tasks(), local_ops@),
                requested_parent_version_id matches Some(h) ==> 0 < req_pos <= server.chain().len() && id_at(server.chain(), req_pos) == h,
            ensures
                requested_parent_version_id is Some ==> req_pos <= p,
                server.chain().len() >= 0,
        {
            let ghost c1 = server.chain();
            if let GetVersionResult::Version { version_id, history_segment, .. } = server.get_child_version(base_version_id)? {
                let version: Version = decode_version(&history_segment);
                let ghost c2 = server.chain();
                let ghost t1 = txn.tasks();
                let ghost l1 = local_ops@;
                let ghost vops = version.operations@;
                proof {
                    lemma_replay_prefix(c1, c2, p);
                    let k = choose|k: int| version_at(c2, k, base_version_id, version_id, decode(history_segment@));
                    lemma_id_at_unique(c2, k, p);
                    if requested_parent_version_id is Some { lemma_replay_prefix(c1, c2, req_pos); }
                    assert(pre(replay(c2, p), t1, l1, vops));
                }
                apply_version(txn, &mut local_ops, version)?;
                txn.set_base_version(version_id)?;
                base_version_id = version_id;
                proof {
                    assert(pre(replay(c2, p), t1, l1, vops));
                    assert(replay(c2, p + 1) == apply_seq(replay(c2, p), c2[p].ops));
                    p = p + 1;
                }
            } else {
                proof {
                    let c2 = server.chain();
                    lemma_replay_prefix(c1, c2, p);
                    if requested_parent_version_id is Some { lemma_replay_prefix(c1, c2, req_pos); }
                    let m = choose|m: int| c1.len() <= m <= c2.len() && no_child_within(c2, m, base_version_id);
                    // base is id_at(c2, p); it has no child among the first m versions, so p >= m
                    if p < m { assert(id_at(c2, p) != base_version_id); }
                }
                break;
            }
        }
        if local_ops.is_empty() {
            break;
        }
        let n = batch_len(&local_ops);
        let history_segment = encode_version(&local_ops, n);
        let ghost c1 = server.chain();
        let ghost l1 = local_ops@;
        proof {
            lemma_valid_take_skip(replay(c1, p), l1, n as int);
            assert forall|k: int| 0 <= k <= c1.len() && #[trigger] id_at(c1, k) == base_version_id
                implies valid_seq(replay(c1, k), decode(history_segment@)) by {
                lemma_id_at_unique(c1, k, p);
            }
        }
        let (res, urgency) = server.add_version(base_version_id, history_segment)?;
        let ghost c2 = server.chain();
        proof {
            lemma_replay_prefix(c1, c2, p);
            if requested_parent_version_id is Some { lemma_replay_prefix(c1, c2, req_pos); }
        }
        match res {
            AddVersionResult::Ok(new_version_id) => {
                txn.set_base_version(new_version_id)?;
                base_version_id = new_version_id;
                drop_front(&mut local_ops, n);
                snapshot_urgency = urg_max(snapshot_urgency, urgency);
                proof {
                    let k = choose|k: int| c1.len() <= k && version_at(c2, k, id_at(c2, p), new_version_id, l1.take(n as int));
                    lemma_id_at_unique(c2, k, p);
                    assert(replay(c2, p + 1) == apply_seq(replay(c2, p), c2[p].ops));
                    p = p + 1;
                }
                let base_urgency = if avoid_snapshots { SnapshotUrgency::High } else { SnapshotUrgency::Low };
                if local_ops.is_empty() && urg_ge(snapshot_urgency, base_urgency) {
                    let snapshot = make_snapshot(txn)?;
                    proof { assert(local_ops@ =~= Seq::<SyncOp>::empty()); assert(id_at(c2, p) == new_version_id); }
                    let ghost c3 = server.chain();
                    server.add_snapshot(new_version_id, snapshot)?;
                    proof {
                        let c4 = server.chain();
                        lemma_replay_prefix(c3, c4, p);
                        if requested_parent_version_id is Some { lemma_replay_prefix(c3, c4, req_pos); }
                    }
                }
            }
            AddVersionResult::ExpectedParentVersion(parent_version_id) => {
                let ghost m = choose|m: int| c1.len() <= m && head_is(c2, m, parent_version_id);
                if let Some(requested) = requested_parent_version_id {
                    if parent_version_id == requested {
                        proof {
                            // the server named the same head twice: impossible
                            lemma_id_at_unique(c2, m, req_pos);   // m == req_pos <= p <= len(c1) <= m  => m == p
                            assert(m == p);
                            assert(false);
                        }
                        return Err(Error::OutOfSync);
                    }
                }
                requested_parent_version_id = Some(parent_version_id);
                proof { req_pos = m; }
            }
        }
    }
    let ghost cf = server.chain();
    proof { assert(local_ops@ =~= Seq::<SyncOp>::empty()); }
    txn.commit()?;
    proof { assert(ri(cf, p, txn.base(), txn.tasks(), Seq::<SyncOp>::empty())); }
    Ok(())
}

} // verus!
fn main() {}
