use vstd::prelude::*;
verus! {

pub mod ax {
use vstd::prelude::*;
pub broadcast axiom fn axiom_string_to_string(s: &String, r: String)
    ensures #[trigger] vstd::string::to_string_from_display_ensures::<String>(s, r) ==> r@ == s@;
}

#[derive(PartialEq, Eq, Clone, Copy, Debug, Hash)]
pub struct Uuid(pub u128);
pub type VersionId = Uuid;

#[derive(PartialEq, Eq, Clone, Copy, Debug, PartialOrd, Ord)]
pub struct Utc;
#[derive(PartialEq, Eq, Clone, Copy, Debug, PartialOrd, Ord)]
pub struct DateTime<Tz> { pub nanos: i128, pub tz: core::marker::PhantomData<Tz> }
impl Utc {
    #[verifier::external_body]
    pub fn now() -> DateTime<Utc> { unimplemented!() }
}

pub type TaskMapS = Map<Seq<char>, Seq<char>>;
pub type State = Map<Uuid, TaskMapS>;

#[verifier::external_body]
pub struct TaskMap { inner: std::collections::HashMap<String, String> }

impl View for TaskMap {
    type V = TaskMapS;
    uninterp spec fn view(&self) -> TaskMapS;
}
impl TaskMap {
    #[verifier::external_body]
    pub fn new() -> (r: Self) ensures r@ == Map::<Seq<char>, Seq<char>>::empty() { unimplemented!() }
    #[verifier::external_body]
    pub fn insert(&mut self, k: String, v: String) -> (r: Option<String>)
        ensures final(self)@ == old(self)@.insert(k@, v@) { unimplemented!() }
    #[verifier::external_body]
    pub fn remove(&mut self, k: &String) -> (r: Option<String>)
        ensures final(self)@ == old(self)@.remove(k@) { unimplemented!() }
    #[verifier::external_body]
    pub fn get(&self, k: &str) -> (r: Option<&String>)
        ensures match r { Some(v) => self@.dom().contains(k@) && v@ == self@[k@], None => !self@.dom().contains(k@) }
    { unimplemented!() }
    #[verifier::external_body]
    pub fn drain(&mut self) -> (r: Vec<(String, String)>)
        ensures final(self)@ == Map::<Seq<char>, Seq<char>>::empty()
    { unimplemented!() }
}
impl Clone for TaskMap {
    #[verifier::external_body]
    fn clone(&self) -> (r: Self) ensures r@ == self@ { unimplemented!() }
}
impl Eq for TaskMap {}
} // verus!
impl std::fmt::Debug for TaskMap { fn fmt(&self, f: &mut std::fmt::Formatter<'_>) -> std::fmt::Result { Ok(()) } }
verus! {
impl PartialEq for TaskMap {
    #[verifier::external_body]
    fn eq(&self, other: &Self) -> (r: bool) ensures r == (self@ == other@) { unimplemented!() }
}

pub assume_specification<T: Clone>[ <[T]>::to_vec ](s: &[T]) -> (r: Vec<T>)
    ensures r@.len() == s@.len();
pub assume_specification<T>[ <[T]>::reverse ](s: &mut [T])
    ensures final(s)@ == old(s)@.reverse();

#[verifier::external_body]
pub fn opaque_string() -> String { String::new() }

#[verifier::external_body]
pub fn drain_all<T>(v: &mut Vec<T>) -> (r: Vec<T>)
    ensures r@ == old(v)@, final(v)@ == Seq::<T>::empty()
{ v.drain(..).collect() }

pub enum Error { Server(String), Database(String), OutOfSync, Usage(String), Other }
pub type Result<T> = std::result::Result<T, Error>;

} // verus!
verus! {
pub type Operations = Vec<Operation>;
use std::collections::HashSet;
pub trait StorageTxn {
    fn get_task(&mut self, uuid: Uuid) -> Result<Option<TaskMap>>;
    fn create_task(&mut self, uuid: Uuid) -> Result<bool>;
    fn set_task(&mut self, uuid: Uuid, task: TaskMap) -> Result<()>;
    fn delete_task(&mut self, uuid: Uuid) -> Result<bool>;
    fn all_tasks(&mut self) -> Result<Vec<(Uuid, TaskMap)>>;
    fn base_version(&mut self) -> Result<VersionId>;
    fn set_base_version(&mut self, version: VersionId) -> Result<()>;
    fn unsynced_operations(&mut self) -> Result<Vec<Operation>>;
    fn add_operation(&mut self, op: Operation) -> Result<()>;
    fn remove_operation(&mut self, op: Operation) -> Result<()>;
    fn sync_complete(&mut self) -> Result<()>;
    fn get_working_set(&mut self) -> Result<Vec<Option<Uuid>>>;
    fn add_to_working_set(&mut self, uuid: Uuid) -> Result<usize>;
    fn set_working_set_item(&mut self, index: usize, uuid: Option<Uuid>) -> Result<()>;
    fn is_empty(&mut self) -> Result<bool>;
    fn commit(&mut self) -> Result<()>;
}
pub mod apply {
    use super::*;
    #[verifier::external_body]
    pub fn apply_op(txn: &mut dyn StorageTxn, op: &SyncOp) -> Result<()> { unimplemented!() }
}
// ---- extracted: operation.rs :: pub enum Operation
#[derive(PartialEq, Eq, Clone, Debug)]
pub enum Operation {
    /// Create a new task.
    ///
    /// On undo, the task is deleted.
    Create { uuid: Uuid },

    /// Delete an existing task.
    ///
    /// On undo, the task's data is restored from old_task.
    Delete { uuid: Uuid, old_task: TaskMap },

    /// Update an existing task, setting the given property to the given value.  If the value is
    /// None, then the corresponding property is deleted.
    ///
    /// On undo, the property is set back to its previous value.
    Update {
        uuid: Uuid,
        property: String,
        old_value: Option<String>,
        value: Option<String>,
        timestamp: DateTime<Utc>,
    },

    /// Mark a point in the operations history to which the user might like to undo.  Users
    /// typically want to undo more than one operation at a time (for example, most changes update
    /// both the `modified` property and some other task property -- the user would like to "undo"
    /// both updates at the same time).  Applying an UndoPoint does nothing.
    UndoPoint,
}
// ---- extracted: server/op.rs :: pub\(crate\) enum SyncOp
#[derive(PartialEq, Eq, Clone, Debug)]
pub enum SyncOp {
    /// Create a new task.
    ///
    /// On application, if the task already exists, the operation does nothing.
    Create { uuid: Uuid },

    /// Delete an existing task.
    ///
    /// On application, if the task does not exist, the operation does nothing.
    Delete { uuid: Uuid },

    /// Update an existing task, setting the given property to the given value.  If the value is
    /// None, then the corresponding property is deleted.
    ///
    /// If the given task does not exist, the operation does nothing.
    Update {
        uuid: Uuid,
        property: String,
        value: Option<String>,
        timestamp: DateTime<Utc>,
    },
}
// ---- extracted: operation.rs :: impl Operation \{
impl Operation {
    /// Determine whether this is an undo point.
    pub fn is_undo_point(&self) -> bool {
        self == &Self::UndoPoint
    }

    /// Get the UUID for this function, if it has one.
    pub fn get_uuid(&self) -> Option<Uuid> {
        match self {
            Operation::Create { uuid: u } => Some(*u),
            Operation::Delete { uuid: u, .. } => Some(*u),
            Operation::Update { uuid: u, .. } => Some(*u),
            Operation::UndoPoint => None,
        }
    }
}
// ---- extracted: taskdb/working_set.rs :: pub\(crate\) async fn rebuild
pub fn rebuild<F>(
    txn: &mut dyn StorageTxn,
    in_working_set: F,
    renumber: bool,
) -> Result<()>
where
    F: Fn(&TaskMap) -> bool,
{
    let old_ws = txn.get_working_set()?;
    let mut new_ws = vec![None]; // index 0 is always None
    let mut seen = HashSet::new();

    // The goal here is for existing working-set items to be "compressed' down to index 1, so
    // we begin by scanning the current working set and inserting any tasks that should still
    // be in the set into new_ws, implicitly dropping any tasks that are no longer in the
    // working set.
    for elt in &old_ws[1..] {
        if let Some(uuid) = elt {
            if let Some(task) = txn.get_task(*uuid)? {
                if in_working_set(&task) {
                    // The existing working-set item is still in the working set -- no change.
                    new_ws.push(Some(*uuid));
                    seen.insert(*uuid);
                } else {
                    // The item should not be present. If we are not renumbering, then insert a
                    // blank working-set item here
                    if !renumber {
                        new_ws.push(None);
                    }
                }

            }
        } else {
            // This item was already None.
            new_ws.push(None);
        }
    }

    // Now go hunting for tasks that should be in this list but are not, adding them at the
    // end of the list, whether renumbering or not
    for (uuid, task) in txn.all_tasks()? {
        if !seen.contains(&uuid) && in_working_set(&task) {
            new_ws.push(Some(uuid));
        }
    }

    // Now use `set_working_set_item` to update any items within the range of the current
    // working set.
    { let mut i: usize = 0; for (old, new) in old_ws.iter().zip(new_ws.iter()) {
        if old != new {
            txn.set_working_set_item(i, *new)?;
        }
        i += 1; } }

    // If there are more new items, add them.
    match new_ws.len().cmp(&old_ws.len()) {
        std::cmp::Ordering::Less => {
            // Overall working set has shrunk, so set remaining items to None.
            { let mut i: usize = 0; for item in old_ws.iter() { if i >= new_ws.len() {
                if item.is_some() {
                    txn.set_working_set_item(i, None)?;
                }
            } i += 1; } }
        }
        std::cmp::Ordering::Equal => {}
        std::cmp::Ordering::Greater => {
            // Overall working set has grown, so add new items to the end.
            for uuid in &new_ws[old_ws.len()..] {
                txn.add_to_working_set(uuid.expect("new ws items should not be None"))
                    ?;
            }
        }
    }

    txn.commit()?;
    Ok(())
}
} // verus!
fn main() {}
