use vstd::prelude::*;
use std::collections::hash_map::Entry;
use std::collections::HashMap;
verus! {
pub mod ax {
    use vstd::prelude::*;
    use super::Uuid;
    pub broadcast axiom fn axiom_uuid_key_model()
        ensures #[trigger] vstd::std_specs::hash::obeys_key_model::<Uuid>();
}
broadcast use {vstd::std_specs::hash::group_hash_axioms, ax::axiom_uuid_key_model};

#[derive(PartialEq, Eq, Clone, Copy, Debug, Hash)]
pub struct Uuid(pub u128);

pub type TaskMapS = Map<Seq<char>, Seq<char>>;
pub type State = Map<Uuid, TaskMapS>;

#[verifier::external_body]
pub struct TaskMap { inner: std::collections::HashMap<String, String> }
impl View for TaskMap { type V = TaskMapS; uninterp spec fn view(&self) -> TaskMapS; }
impl TaskMap {
    #[verifier::external_body]
    pub fn insert(&mut self, k: String, v: String) -> (r: Option<String>)
        ensures final(self)@ == old(self)@.insert(k@, v@) { unimplemented!() }
    #[verifier::external_body]
    pub fn remove(&mut self, k: &String) -> (r: Option<String>)
        ensures final(self)@ == old(self)@.remove(k@) { unimplemented!() }
}
#[verifier::external_body]
pub fn sclone(s: &String) -> (r: String) ensures r@ == s@ { s.clone() }

pub enum Error { Database(String), Other }
pub type Result<T> = std::result::Result<T, Error>;
pub struct DateTimeUtc(pub i64);

pub enum Operation {
    Create { uuid: Uuid },
    Delete { uuid: Uuid, old_task: TaskMap },
    Update { uuid: Uuid, property: String, old_value: Option<String>, value: Option<String>, timestamp: DateTimeUtc },
    UndoPoint,
}
pub type Operations = Vec<Operation>;

// documented local semantics (docs/storage.md): invalid operations change nothing
pub open spec fn apply_l(s: State, op: Operation) -> State {
    match op {
        Operation::Create { uuid } => if s.dom().contains(uuid) { s } else { s.insert(uuid, Map::empty()) },
        Operation::Delete { uuid, .. } => s.remove(uuid),
        Operation::Update { uuid, property, value, .. } =>
            if s.dom().contains(uuid) {
                match value {
                    Some(v) => s.insert(uuid, s[uuid].insert(property@, v@)),
                    None => s.insert(uuid, s[uuid].remove(property@)),
                }
            } else { s },
        Operation::UndoPoint => s,
    }
}
pub open spec fn apply_l_seq(s: State, ops: Seq<Operation>) -> State
    decreases ops.len()
{
    if ops.len() == 0 { s } else { apply_l(apply_l_seq(s, ops.drop_last()), ops.last()) }
}

pub trait StorageTxn {
    spec fn tasks(&self) -> State;
    fn get_task(&mut self, uuid: Uuid) -> (r: Result<Option<TaskMap>>)
        ensures final(self).tasks() == old(self).tasks(),
            match r {
                Ok(Some(t)) => old(self).tasks().dom().contains(uuid) && t@ == old(self).tasks()[uuid],
                Ok(None) => !old(self).tasks().dom().contains(uuid),
                Err(_) => true,
            };
    fn create_task(&mut self, uuid: Uuid) -> (r: Result<bool>)
        ensures
            match r {
                Ok(b) => b == !old(self).tasks().dom().contains(uuid)
                    && final(self).tasks() == (if b { old(self).tasks().insert(uuid, Map::empty()) } else { old(self).tasks() }),
                Err(_) => final(self).tasks() == old(self).tasks(),
            };
    fn set_task(&mut self, uuid: Uuid, task: TaskMap) -> (r: Result<()>)
        ensures
            match r {
                Ok(_) => final(self).tasks() == old(self).tasks().insert(uuid, task@),
                Err(_) => final(self).tasks() == old(self).tasks(),
            };
    fn delete_task(&mut self, uuid: Uuid) -> (r: Result<bool>)
        ensures
            match r {
                Ok(b) => b == old(self).tasks().dom().contains(uuid)
                    && final(self).tasks() == old(self).tasks().remove(uuid),
                Err(_) => final(self).tasks() == old(self).tasks(),
            };
}

pub type Cache = Map<Uuid, Option<TaskMap>>;

/// the task set as it would be if every cached entry were written through
pub open spec fn eff(t: State, c: Cache) -> State {
    Map::new(
        t.dom().difference(c.dom()).union(c.dom().filter(|u: Uuid| c[u] is Some)),
        |u: Uuid| if c.dom().contains(u) { c[u]->Some_0@ } else { t[u] },
    )
}
/// a cached "absent" is really absent in storage
pub open spec fn cache_ok(t: State, c: Cache) -> bool {
    forall|u: Uuid| #![trigger c[u]] c.dom().contains(u) && c[u] is None ==> !t.dom().contains(u)
}

#[verifier::exec_allows_no_decreases_clause]
pub fn apply_operations(
    txn: &mut dyn StorageTxn,
    operations: &Operations,
) -> (res: Result<()>)
    ensures res is Ok ==> final(txn).tasks() =~~= apply_l_seq(old(txn).tasks(), operations@)
{
    // A cache of TaskMaps updated in this sequence of operations, but for which `txn.set_task` has
    // not yet been called.
    let mut tasks: HashMap<Uuid, Option<TaskMap>> = HashMap::new();

    fn get_cache<'t>(
        uuid: Uuid,
        tasks: &'t mut HashMap<Uuid, Option<TaskMap>>,
        txn: &mut dyn StorageTxn,
    ) -> (res: Result<Option<&'t mut TaskMap>>)
        requires cache_ok(old(txn).tasks(), old(tasks)@)
        ensures
            final(txn).tasks() == old(txn).tasks(),
            match res {
                Ok(Some(tm)) => {
                    &&& eff(old(txn).tasks(), old(tasks)@).dom().contains(uuid)
                    &&& tm@ == eff(old(txn).tasks(), old(tasks)@)[uuid]
                    &&& final(tasks)@ == old(tasks)@.insert(uuid, Some(*final(tm)))
                }
                Ok(None) => {
                    &&& !eff(old(txn).tasks(), old(tasks)@).dom().contains(uuid)
                    &&& final(tasks)@ == old(tasks)@.insert(uuid, None)
                    &&& !old(txn).tasks().dom().contains(uuid)
                }
                Err(_) => true,
            }
    {
        match tasks.entry(uuid) {
            Entry::Occupied(occupied_entry) => Ok(occupied_entry.into_mut().as_mut()),
            Entry::Vacant(vacant_entry) => {
                let task = txn.get_task(uuid)?;
                Ok(vacant_entry.insert(task).as_mut())
            }
        }
    }

    // Call `txn.set_task` for this task, if necessary, and remove from the cache.
    fn flush_cache(
        uuid: Uuid,
        tasks: &mut HashMap<Uuid, Option<TaskMap>>,
        txn: &mut dyn StorageTxn,
    ) -> (res: Result<()>)
        requires cache_ok(old(txn).tasks(), old(tasks)@)
        ensures
            res is Ok ==> {
                &&& final(tasks)@ == old(tasks)@.remove(uuid)
                &&& eff(final(txn).tasks(), final(tasks)@) =~~= eff(old(txn).tasks(), old(tasks)@)
                &&& cache_ok(final(txn).tasks(), final(tasks)@)
            }
    {
        if let Entry::Occupied(occupied_entry) = tasks.entry(uuid) {
            let v = occupied_entry.remove();
            if let Some(taskmap) = v {
                txn.set_task(uuid, taskmap)?;
            }
        }
        Ok(())
    }

    let ghost t0 = txn.tasks();
    for operation in it: operations
        invariant
            t0 == old(txn).tasks(),
            cache_ok(txn.tasks(), tasks@),
            eff(txn.tasks(), tasks@) =~~= apply_l_seq(t0, operations@.take(it.index() as int)),
    {
        let ghost i = it.index() as int;
        let ghost e0 = eff(txn.tasks(), tasks@);
        proof { assert(operations@.take(i + 1).drop_last() =~= operations@.take(i)); }
        match operation {
            Operation::Create { uuid } => {
                // The create_task method will do nothing if the task exists. If it was cached
                // as not existing, clear that information. If it had cached updates, then there
                // is no harm flushing those updates now.
                flush_cache(*uuid, &mut tasks, txn)?;
                txn.create_task(*uuid)?;
            }
            Operation::Delete { uuid, .. } => {
                // The delete_task method will do nothing if the task does not exist.
                txn.delete_task(*uuid)?;
                // The task now unconditionally does not exist. If there was a pending
                // `txn.set_task`, it can safely be skipped.
                tasks.insert(*uuid, None);
            }
            Operation::Update {
                uuid,
                property,
                value,
                ..
            } => {
                let task = get_cache(*uuid, &mut tasks, txn)?;
                // If the task does not exist, do nothing.
                if let Some(task) = task {
                    if let Some(v) = value {
                        task.insert(property.clone(), v.clone());
                    } else {
                        task.remove(property);
                    }
                }
            }
            Operation::UndoPoint => {}
        }
    }
    proof { assert(operations@.take(operations@.len() as int) =~= operations@); }

    // Flush any remaining tasks in the cache.
    while let Some((uuid, _)) = tasks.iter().next()
        invariant
            cache_ok(txn.tasks(), tasks@),
            eff(txn.tasks(), tasks@) =~~= apply_l_seq(t0, operations@),
        ensures
            tasks@.dom() =~= Set::<Uuid>::empty(),
    {
        flush_cache(*uuid, &mut tasks, txn)?;
    }

    Ok(())
}

}
fn main() {}
