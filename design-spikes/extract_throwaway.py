#!/usr/bin/env python3
"""throwaway: pull an item (fn/enum/struct/impl) out of a rust file by header regex, brace matching"""
import re,sys
def find_item(src, header_re, start=0):
    m=re.compile(header_re, re.M).search(src, start)
    if not m: raise SystemExit("no match: "+header_re)
    i=m.start()
    # include preceding attributes / doc comments? skip
    j=src.index('{', m.end()-1) if '{' not in m.group(0) else m.start()+m.group(0).index('{')
    depth=0; k=j
    in_str=False
    while True:
        c=src[k]
        if in_str:
            if c=='\\': k+=2; continue
            if c=='"': in_str=False
        else:
            if c=='"': in_str=True
            elif c=='/' and src[k+1]=='/':
                k=src.index('\n',k); continue
            elif c=="'" and re.match(r"'(\\.|[^\\'])'", src[k:k+4]):
                k+=len(re.match(r"'(\\.|[^\\'])'", src[k:k+4]).group(0)); continue
            elif c=='{': depth+=1
            elif c=='}':
                depth-=1
                if depth==0: return src[i:k+1]
        k+=1
def rewrite(t):
    t=re.sub(r'\basync\s+fn\b','fn',t)
    t=re.sub(r'\.await\b','',t)
    t=re.sub(r'^\s*(trace|debug|info|warn)!\((?:[^;]|\n)*?\);\s*$','',t,flags=re.M)
    t=re.sub(r'format!\((?:[^()]|\([^()]*\))*\)','opaque_string()',t)
    t=re.sub(r'pub\((crate|super|in [a-z:]+)\)','pub',t)
    t=re.sub(r'([\w\.]+)\.drain\(\.\.\)',r'drain_all(&mut \1)',t)
    t=re.sub(r'\(&(Create|Delete|Update)\b',r'(\1',t)
    t=re.sub(r', &(Create|Delete|Update)\b',r', \1',t)
    return t
if __name__=='__main__':
    src=open(sys.argv[1]).read()
    print(rewrite(find_item(src, sys.argv[2])))
