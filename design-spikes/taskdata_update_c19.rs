use vstd::prelude::*;
use vstd::std_specs::convert::IntoSpec;
verus! {
pub mod ax {
    use vstd::prelude::*;
    use vstd::std_specs::cmp::PartialEqSpec;
    pub broadcast axiom fn axiom_string_eq_spec(a: String, b: String) ensures #[trigger] a.eq_spec(&b) == (a@ == b@);
    pub broadcast axiom fn axiom_string_obeys_eq() ensures #[trigger] <String as PartialEqSpec>::obeys_eq_spec();
}
broadcast use {ax::axiom_string_eq_spec, ax::axiom_string_obeys_eq};

#[derive(PartialEq, Eq, Clone, Copy, Debug)]
pub struct Uuid(pub u128);
#[derive(PartialEq, Eq, Clone, Copy, Debug)]
pub struct DateTimeUtc(pub i64);
pub struct Utc;
impl Utc { #[verifier::external_body] pub fn now() -> DateTimeUtc { unimplemented!() } }
pub type TaskMapS = Map<Seq<char>, Seq<char>>;

#[verifier::external_body]
pub struct TaskMap { inner: std::collections::HashMap<String, String> }
impl View for TaskMap { type V = TaskMapS; uninterp spec fn view(&self) -> TaskMapS; }
impl TaskMap {
    #[verifier::external_body]
    pub fn new() -> (r: Self) ensures r@ == Map::<Seq<char>, Seq<char>>::empty() { unimplemented!() }
    #[verifier::external_body]
    pub fn insert(&mut self, k: String, v: String) -> (r: Option<String>) ensures final(self)@ == old(self)@.insert(k@, v@) { unimplemented!() }
    #[verifier::external_body]
    pub fn remove(&mut self, k: &String) -> (r: Option<String>) ensures final(self)@ == old(self)@.remove(k@) { unimplemented!() }
    #[verifier::external_body]
    pub fn get(&self, k: &String) -> (r: Option<&String>)
        ensures match r { Some(v) => self@.dom().contains(k@) && v@ == self@[k@], None => !self@.dom().contains(k@) } { unimplemented!() }
}
pub open spec fn sv(o: Option<String>) -> Option<Seq<char>> { match o { Some(s) => Some(s@), None => None } }

pub enum Operation {
    Create { uuid: Uuid },
    Delete { uuid: Uuid, old_task: TaskMap },
    Update { uuid: Uuid, property: String, old_value: Option<String>, value: Option<String>, timestamp: DateTimeUtc },
    UndoPoint,
}
pub type Operations = Vec<Operation>;

pub struct TaskData { pub uuid: Uuid, pub taskmap: TaskMap }

/// C19: the pushed Update records the value the property really had, and the map changes accordingly
pub open spec fn is_update_of(op: Operation, uuid: Uuid, before: TaskMapS, p: Seq<char>, value: Option<Seq<char>>) -> bool {
    match op {
        Operation::Update { uuid: u, property, old_value, value: v, .. } =>
            u == uuid && property@ == p && sv(v) == value
            && sv(old_value) == (if before.dom().contains(p) { Some(before[p]) } else { None::<Seq<char>> }),
        _ => false,
    }
}

impl TaskData {
    // ---- extracted: TaskData::update ----
    pub fn update<P: Into<String>>(
        &mut self,
        property: P,
        value: Option<String>,
        ops: &mut Operations,
    )
        requires P::obeys_into_spec()
        ensures
            final(self).uuid == old(self).uuid,
            final(ops)@.len() == old(ops)@.len() + 1,
            final(ops)@.take(old(ops)@.len() as int) == old(ops)@,
            ({ let p = property.into_spec()@;
               &&& is_update_of(final(ops)@.last(), old(self).uuid, old(self).taskmap@, p, sv(value))
               &&& final(self).taskmap@ == (match value { Some(v) => old(self).taskmap@.insert(p, v@), None => old(self).taskmap@.remove(p) }) }),
    {
        let property = property.into();
        let old_value = self.taskmap.get(&property).cloned();
        if let Some(value) = &value {
            self.taskmap.insert(property.clone(), value.clone());
        } else {
            self.taskmap.remove(&property);
        }
        ops.push(Operation::Update {
            uuid: self.uuid,
            property,
            old_value,
            value,
            timestamp: Utc::now(),
        });
    }
}
}
fn main() {}
