use vstd::prelude::*;
use vstd::std_specs::cmp::PartialEqSpec;
verus! {
pub mod ax {
use vstd::prelude::*;
use vstd::std_specs::cmp::PartialEqSpec;
pub broadcast axiom fn axiom_string_eq_spec(a: String, b: String)
    ensures #[trigger] a.eq_spec(&b) == (a@ == b@);
pub broadcast axiom fn axiom_string_obeys_eq()
    ensures #[trigger] <String as PartialEqSpec>::obeys_eq_spec();
}
broadcast use {ax::axiom_string_eq_spec, ax::axiom_string_obeys_eq};
pub open spec fn opt_view(v: Option<String>) -> Option<Seq<char>> { match v { Some(s) => Some(s@), None => None } }
pub fn c2(a: &String, b: &String) -> (r: bool) ensures r == (a@ == b@) { a == b }
pub fn c3(a: &Option<String>, b: &Option<String>) -> (r: bool) ensures r == (opt_view(*a) == opt_view(*b)) { a == b }
}
fn main() {}
