use vstd::prelude::*;
verus! {
pub enum Error { Server(String), Other }
pub type Result<T> = std::result::Result<T, Error>;
#[verifier::external_body]
pub fn opaque_string() -> String { String::new() }
pub mod aead { pub const NONCE_LEN: usize = 12; }
const ENVELOPE_VERSION: u8 = 1;
const AAD_LEN: usize = 17;
const TASK_APP_ID: u8 = 1;
struct Envelope<'a> {
    nonce: &'a [u8],
    payload: &'a [u8],
}
impl<'a> Envelope<'a> {
    fn from_bytes(buf: &'a [u8]) -> Result<Envelope<'a>> {
        if buf.len() <= 1 + aead::NONCE_LEN {
            return Err(Error::Server(String::from("envelope is too small")));
        }

        let version = buf[0];
        if version != ENVELOPE_VERSION {
            return Err(Error::Server(opaque_string()));
        }

        Ok(Envelope {
            nonce: &buf[1..1 + aead::NONCE_LEN],
            payload: &buf[1 + aead::NONCE_LEN..],
        })
    }

    fn to_bytes(&self) -> Vec<u8> {
        let mut buf = Vec::with_capacity(1 + self.nonce.len() + self.payload.len());

        buf.push(ENVELOPE_VERSION);
        buf.extend_from_slice(self.nonce);
        buf.extend_from_slice(self.payload);
        buf
    }
}
} // verus!
fn main() {}
