use taskchampion::{Operations, Replica, Uuid};
use taskchampion::storage::inmemory::InMemoryStorage;
#[tokio::test]
async fn d8_huge_timestamps_do_not_panic() {
    let mut rep = Replica::new(InMemoryStorage::new());
    let mut ops = Operations::new();
    let u = Uuid::new_v4();
    let mut t = rep.create_task(u, &mut ops).await.unwrap();
    t.set_value("due", Some("9223372036854775807".into()), &mut ops).unwrap();
    t.set_value("annotation_-9223372036854775808", Some("x".into()), &mut ops).unwrap();
    rep.commit_operations(ops).await.unwrap();
    let t = rep.get_task(u).await.unwrap().unwrap();
    assert_eq!(t.get_due(), None);
    assert_eq!(t.get_annotations().count(), 0);
    assert!(!t.is_waiting());
}
