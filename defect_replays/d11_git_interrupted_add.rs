// D11 (C11), open finding: replay on the real code.  Copy to /repo/tests/d11_git_interrupted_add.rs and run
//   cargo test --offline --test d11_git_interrupted_add
// The git-backed server of replica A is given a `git` that fails at its third invocation during add_version (that is
// `git commit`, after `git add` of the version file and of the meta file).  add_version reports an error -- the version was
// not accepted.  After both replicas restart, A nevertheless serves that version (from the files still staged in its working
// tree) while B, and the remote, know nothing of it.
use std::os::unix::fs::PermissionsExt;
use taskchampion::server::{GetVersionResult, ServerConfig};
use taskchampion::Uuid;

fn git_cfg(dir: &std::path::Path, clone: &str, git: Option<std::path::PathBuf>) -> ServerConfig {
    ServerConfig::Git {
        local_path: dir.join(clone),
        branch: "main".into(),
        remote: Some(dir.join("bare.git").to_str().unwrap().to_string()),
        local_only: false,
        encryption_secret: b"secret".to_vec(),
        git_path: git,
    }
}

#[tokio::test]
async fn interrupted_version_is_accepted_for_everyone_or_visible_to_nobody() {
    let tmp = tempfile::TempDir::new().unwrap();
    let dir = tmp.path();
    assert!(std::process::Command::new("git").args(["init", "--bare", "-q", "bare.git"]).current_dir(dir).status().unwrap().success());
    // a `git` that fails at its N-th invocation while the file `plan` exists
    let wrap = dir.join("gitwrap.sh");
    std::fs::write(
        &wrap,
        format!(
            "#!/bin/sh\nD='{}'\nif [ -f \"$D/plan\" ]; then\n  read N < \"$D/plan\"\n  C=$(cat \"$D/count\" 2>/dev/null || echo 0); C=$((C+1)); echo $C > \"$D/count\"\n  if [ \"$C\" -eq \"$N\" ]; then exit 1; fi\nfi\nexec git \"$@\"\n",
            dir.display()
        ),
    )
    .unwrap();
    std::fs::set_permissions(&wrap, std::fs::Permissions::from_mode(0o755)).unwrap();

    let mut a = git_cfg(dir, "a", Some(wrap.clone())).into_server().await.unwrap();
    let b = git_cfg(dir, "b", None).into_server().await.unwrap();

    std::fs::write(dir.join("plan"), "3\n").unwrap();
    let res = a.add_version(Uuid::nil(), b"first".to_vec()).await;
    std::fs::remove_file(dir.join("plan")).unwrap();
    assert!(res.is_err(), "the third git command (commit) failed, so the version cannot have been accepted: {res:?}");

    // both processes restart
    drop(a);
    drop(b);
    let mut a = git_cfg(dir, "a", Some(wrap)).into_server().await.unwrap();
    let mut b = git_cfg(dir, "b", None).into_server().await.unwrap();
    let seen_a = a.get_child_version(Uuid::nil()).await.unwrap();
    let seen_b = b.get_child_version(Uuid::nil()).await.unwrap();
    assert_eq!(seen_b, GetVersionResult::NoSuchVersion, "nothing was published");
    assert_eq!(seen_a, seen_b, "the interrupted version is either accepted for everyone or visible to nobody");
}
