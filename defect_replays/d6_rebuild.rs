//! throwaway replays of defects D4, D6 against the real code (public API only)
use taskchampion::storage::inmemory::InMemoryStorage;
use taskchampion::{Operation, Operations, Replica, Status, Uuid, TaskData};

async fn mk(r: &mut Replica<InMemoryStorage>, n: usize) -> Vec<Uuid> {
    let mut ops = Operations::new();
    let mut uuids = vec![];
    for i in 0..n {
        let u = Uuid::new_v4();
        let mut t = r.create_task(u, &mut ops).await.unwrap();
        t.set_description(format!("t{i}"), &mut ops).unwrap();
        t.set_status(Status::Pending, &mut ops).unwrap();
        uuids.push(u);
    }
    r.commit_operations(ops).await.unwrap();
    uuids
}

#[tokio::test]
async fn d6a_missing_task_shifts_numbers_without_renumber() {
    let mut r = Replica::new(InMemoryStorage::new());
    let u = mk(&mut r, 3).await;
    r.rebuild_working_set(true).await.unwrap();
    let ws = r.working_set().await.unwrap();
    let idx2_before = ws.by_uuid(u[2]).unwrap();
    let first = ws.by_index(1).unwrap();
    // delete the task at index 1 outright
    let mut ops = Operations::new();
    let mut td: TaskData = r.get_task_data(first).await.unwrap().unwrap();
    td.delete(&mut ops);
    r.commit_operations(ops).await.unwrap();
    r.rebuild_working_set(false).await.unwrap();
    let ws = r.working_set().await.unwrap();
    let last = if first == u[2] { u[1] } else { u[2] };
    let before = if first == u[2] { 0 } else { idx2_before };
    if before != 0 {
        assert_eq!(ws.by_uuid(last), Some(before), "D6a: task kept but its number changed although renumber=false");
    }
}

#[tokio::test]
async fn d6b_renumber_keeps_old_gaps() {
    let mut r = Replica::new(InMemoryStorage::new());
    let u = mk(&mut r, 3).await;
    r.rebuild_working_set(true).await.unwrap();
    let ws = r.working_set().await.unwrap();
    let mid = ws.by_index(2).unwrap();
    // complete the middle task, rebuild without renumbering -> gap at 2
    let mut ops = Operations::new();
    let mut t = r.get_task(mid).await.unwrap().unwrap();
    t.set_status(Status::Completed, &mut ops).unwrap();
    r.commit_operations(ops).await.unwrap();
    r.rebuild_working_set(false).await.unwrap();
    let ws = r.working_set().await.unwrap();
    assert_eq!(ws.by_index(2), None);
    // now renumber: tasks must occupy 1..n
    r.rebuild_working_set(true).await.unwrap();
    let ws = r.working_set().await.unwrap();
    let _ = u;
    assert_eq!(ws.len(), 2);
    assert_eq!(ws.largest_index(), 2, "D6b: renumbering kept a gap");
}
