//! throwaway replays of defects D1, D2, D3 against the real code (public API only)
use async_trait::async_trait;
use std::sync::{Arc, Mutex};
use taskchampion::server::{
    AddVersionResult, GetVersionResult, HistorySegment, Server, Snapshot, SnapshotUrgency,
    VersionId,
};
use taskchampion::storage::inmemory::InMemoryStorage;
use taskchampion::{Operation, Operations, Replica, Uuid};
use chrono::{TimeZone, Utc};

#[derive(Default)]
struct Inner {
    chain: Vec<(VersionId, VersionId, Vec<u8>)>, // (id, parent, segment)
    snapshots: Vec<(VersionId, Vec<u8>)>,
    urgency: Option<SnapshotUrgency>,
    // hook: called before serving add_version number n (0-based count of add_version calls)
    before_add: Vec<(usize, Vec<u8>)>, // inject a foreign version before the nth add_version call
    add_calls: usize,
    sent: Vec<Vec<u8>>,
}
#[derive(Clone, Default)]
struct Srv(Arc<Mutex<Inner>>);
impl Srv {
    fn head(i: &Inner) -> VersionId { i.chain.last().map(|v| v.0).unwrap_or(Uuid::nil()) }
    fn append(i: &mut Inner, seg: Vec<u8>) -> VersionId {
        let id = Uuid::new_v4();
        let parent = Self::head(i);
        i.chain.push((id, parent, seg));
        id
    }
}
#[async_trait(?Send)]
impl Server for Srv {
    async fn add_version(&mut self, parent: VersionId, seg: HistorySegment)
        -> std::result::Result<(AddVersionResult, SnapshotUrgency), taskchampion::Error> {
        let mut i = self.0.lock().unwrap();
        let n = i.add_calls; i.add_calls += 1;
        let inj: Vec<Vec<u8>> = i.before_add.iter().filter(|(k, _)| *k == n).map(|(_, s)| s.clone()).collect();
        for s in inj { Srv::append(&mut i, s); }
        i.sent.push(seg.clone());
        let head = Srv::head(&i);
        if head != Uuid::nil() && head != parent {
            return Ok((AddVersionResult::ExpectedParentVersion(head), SnapshotUrgency::None));
        }
        let id = Srv::append(&mut i, seg);
        let u = i.urgency.unwrap_or(SnapshotUrgency::None);
        Ok((AddVersionResult::Ok(id), u))
    }
    async fn get_child_version(&mut self, parent: VersionId) -> std::result::Result<GetVersionResult, taskchampion::Error> {
        let i = self.0.lock().unwrap();
        for (id, p, seg) in &i.chain {
            if *p == parent {
                return Ok(GetVersionResult::Version { version_id: *id, parent_version_id: *p, history_segment: seg.clone() });
            }
        }
        Ok(GetVersionResult::NoSuchVersion)
    }
    async fn add_snapshot(&mut self, v: VersionId, s: Snapshot) -> std::result::Result<(), taskchampion::Error> {
        self.0.lock().unwrap().snapshots.push((v, s)); Ok(())
    }
    async fn get_snapshot(&mut self) -> std::result::Result<Option<(VersionId, Snapshot)>, taskchampion::Error> { Ok(None) }
}

fn upd(uuid: Uuid, p: &str, v: &str, t: i64) -> Operation {
    Operation::Update { uuid, property: p.into(), value: Some(v.into()), old_value: None, timestamp: Utc.timestamp_opt(t, 0).unwrap() }
}
fn seg(ops: &str) -> Vec<u8> { format!("{{\"operations\":[{ops}]}}").into_bytes() }

async fn tasks(r: &mut Replica<InMemoryStorage>) -> Vec<(Uuid, Vec<(String, String)>)> {
    let mut v: Vec<_> = r.all_task_data().await.unwrap().into_iter().map(|(u, t)| {
        let mut p: Vec<_> = t.iter().map(|(a, b)| (a.clone(), b.clone())).collect(); p.sort(); (u, p)
    }).collect();
    v.sort(); v
}

#[tokio::test]
async fn d1_second_batch_not_rebased() {
    let srv = Srv::default();
    let mut sa: Box<dyn Server> = Box::new(srv.clone());
    let mut sb: Box<dyn Server> = Box::new(srv.clone());
    let mut a = Replica::new(InMemoryStorage::new());
    let mut b = Replica::new(InMemoryStorage::new());
    let u = Uuid::new_v4();
    a.commit_operations(vec![Operation::Create { uuid: u }]).await.unwrap();
    a.sync(&mut sa, true).await.unwrap();
    b.sync(&mut sb, true).await.unwrap();
    // B: remote update of p with a LATE timestamp
    b.commit_operations(vec![upd(u, "p", "remote", 2000)]).await.unwrap();
    b.sync(&mut sb, true).await.unwrap();
    // A: two batches: a big op first, then an update of p with an EARLY timestamp (must lose)
    let big: String = std::iter::repeat('x').take(1_000_001).collect();
    a.commit_operations(vec![upd(u, "big", &big, 1000), upd(u, "p", "local-early", 1000)]).await.unwrap();
    a.sync(&mut sa, true).await.unwrap();
    b.sync(&mut sb, true).await.unwrap();
    a.sync(&mut sa, true).await.unwrap();
    let (ta, tb) = (tasks(&mut a).await, tasks(&mut b).await);
    let pa = ta[0].1.iter().find(|(k, _)| k == "p").unwrap().1.clone();
    let pb = tb[0].1.iter().find(|(k, _)| k == "p").unwrap().1.clone();
    println!("D1: A.p={pa} B.p={pb}");
    assert_eq!(pa, pb, "D1: replicas diverge");
}

#[tokio::test]
async fn d2_retry_resends_lost_op() {
    let srv = Srv::default();
    let mut sa: Box<dyn Server> = Box::new(srv.clone());
    let mut sb: Box<dyn Server> = Box::new(srv.clone());
    let mut a = Replica::new(InMemoryStorage::new());
    let mut b = Replica::new(InMemoryStorage::new());
    let u = Uuid::new_v4();
    a.commit_operations(vec![Operation::Create { uuid: u }]).await.unwrap();
    a.sync(&mut sa, true).await.unwrap();
    b.sync(&mut sb, true).await.unwrap();
    // B: update p late, synced -> on the chain before A pulls
    b.commit_operations(vec![upd(u, "p", "remote-late", 2000)]).await.unwrap();
    b.sync(&mut sb, true).await.unwrap();
    // A: update p early (loses) and q (kept, so there is something to push)
    a.commit_operations(vec![upd(u, "p", "local-early", 1000), upd(u, "q", "mine", 1000)]).await.unwrap();
    // a third replica's version lands between A's last pull and A's push (A's add_version call #1, counting the create)
    let other = Uuid::new_v4();
    srv.0.lock().unwrap().before_add.push((2, seg(&format!("{{\"Create\":{{\"uuid\":\"{other}\"}}}}"))));
    println!("add_calls so far {}", srv.0.lock().unwrap().add_calls);
    a.sync(&mut sa, true).await.unwrap();
    b.sync(&mut sb, true).await.unwrap();
    a.sync(&mut sa, true).await.unwrap();
    let (ta, tb) = (tasks(&mut a).await, tasks(&mut b).await);
    println!("D2: A={:?}\n    B={:?}", ta, tb);
    for s in &srv.0.lock().unwrap().sent { println!("sent: {}", String::from_utf8_lossy(s).chars().take(200).collect::<String>()); }
    assert_eq!(ta, tb, "D2: replicas diverge");
}

#[tokio::test]
async fn d3_snapshot_between_batches() {
    let srv = Srv::default();
    srv.0.lock().unwrap().urgency = Some(SnapshotUrgency::High);
    let mut sa: Box<dyn Server> = Box::new(srv.clone());
    let mut a = Replica::new(InMemoryStorage::new());
    let u = Uuid::new_v4();
    let big: String = std::iter::repeat('x').take(1_000_001).collect();
    a.commit_operations(vec![Operation::Create { uuid: u }, upd(u, "big", &big, 1000), upd(u, "later", "second-batch", 1000)]).await.unwrap();
    a.sync(&mut sa, false).await.unwrap();
    let i = srv.0.lock().unwrap();
    println!("D3: versions={} snapshots={}", i.chain.len(), i.snapshots.len());
    // the first snapshot belongs to the first version; decode it (zlib json) and look for the later property
    use std::io::Read;
    for (v, s) in &i.snapshots {
        let k = i.chain.iter().position(|c| c.0 == *v).expect("snapshot for a version on the chain");
        let mut d = flate2::read::ZlibDecoder::new(&s[..]); let mut txt = String::new(); d.read_to_string(&mut txt).unwrap();
        let sent_up_to_k = i.chain[..=k].iter().any(|c| String::from_utf8_lossy(&c.2).contains("second-batch"));
        assert!(!txt.contains("second-batch") || sent_up_to_k,
            "D3: snapshot for version #{k} contains an operation that is only in a later version");
    }
}
