//! D9: a failure between the two writes of LocalServer::add_version must not leave a visible, non-latest version
use taskchampion::server::{AddVersionResult, GetVersionResult, NIL_VERSION_ID};
use taskchampion::ServerConfig;

#[tokio::test]
async fn d9_failure_between_version_row_and_latest_pointer() {
    let dir = tempfile::TempDir::new().unwrap();
    let cfg = || ServerConfig::Local { server_dir: dir.path().to_path_buf() };
    let mut s = cfg().into_server().await.unwrap();
    let (r, _) = s.add_version(NIL_VERSION_ID, b"v1".to_vec()).await.unwrap();
    let AddVersionResult::Ok(v1) = r else { panic!() };
    // make the *second* write of add_version (the latest-version pointer) fail once
    let db = dir.path().join("taskchampion-local-sync-server.sqlite3");
    let con = rusqlite::Connection::open(&db).unwrap();
    con.execute_batch("CREATE TRIGGER failptr BEFORE INSERT ON data BEGIN SELECT RAISE(ABORT, 'injected'); END;").unwrap();
    let res = s.add_version(v1, b"v2".to_vec()).await;
    assert!(res.is_err(), "the injected failure must surface");
    con.execute_batch("DROP TRIGGER failptr;").unwrap();
    drop(con);
    // the failed version must not be visible ...
    let child = s.get_child_version(v1).await.unwrap();
    assert_eq!(child, GetVersionResult::NoSuchVersion, "D9: half-added version is served to clients");
    // ... and the request can simply be repeated
    let (r, _) = s.add_version(v1, b"v2".to_vec()).await.unwrap();
    assert!(matches!(r, AddVersionResult::Ok(_)), "D9: retry rejected: {r:?}");
}
