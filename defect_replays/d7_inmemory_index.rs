use taskchampion::storage::inmemory::InMemoryStorage;
use taskchampion::storage::Storage;
use taskchampion::Uuid;
#[tokio::test]
async fn d7_add_to_working_set_returns_the_index() {
    let mut st = InMemoryStorage::new();
    let mut txn = st.txn().await.unwrap();
    let u = Uuid::new_v4();
    let i = txn.add_to_working_set(u).await.unwrap();
    let ws = txn.get_working_set().await.unwrap();
    assert_eq!(ws.get(i), Some(&Some(u)), "returned index {i} does not hold the task; working set = {ws:?}");
}
