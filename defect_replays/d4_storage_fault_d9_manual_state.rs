//! throwaway replays of defects D4 (storage error swallowed during sync) and D9 (local server two-step add_version)
use async_trait::async_trait;
use std::sync::{Arc, Mutex};
use taskchampion::storage::inmemory::InMemoryStorage;
use taskchampion::storage::{Storage, StorageTxn, TaskMap};
use taskchampion::{Error, Operation, Replica, ServerConfig, Uuid};
use chrono::{TimeZone, Utc};

type R<T> = std::result::Result<T, Error>;

/// Storage wrapper that makes the n-th `set_task` call (counted across transactions once armed) fail.
struct Faulty { inner: InMemoryStorage, fail_set_task_at: Arc<Mutex<Option<usize>>> }
struct FaultyTxn<'a> { inner: Box<dyn StorageTxn + Send + 'a>, fail: Arc<Mutex<Option<usize>>> }
#[async_trait]
impl Storage for Faulty {
    async fn txn<'a>(&'a mut self) -> R<Box<dyn StorageTxn + Send + 'a>> {
        let inner = self.inner.txn().await?;
        Ok(Box::new(FaultyTxn { inner, fail: self.fail_set_task_at.clone() }))
    }
}
#[async_trait]
impl StorageTxn for FaultyTxn<'_> {
    async fn get_task(&mut self, uuid: Uuid) -> R<Option<TaskMap>> { self.inner.get_task(uuid).await }
    async fn get_pending_tasks(&mut self) -> R<Vec<(Uuid, TaskMap)>> { self.inner.get_pending_tasks().await }
    async fn create_task(&mut self, uuid: Uuid) -> R<bool> { self.inner.create_task(uuid).await }
    async fn set_task(&mut self, uuid: Uuid, task: TaskMap) -> R<()> {
        let fail_now = {
            let mut f = self.fail.lock().unwrap();
            match *f {
                Some(0) => { *f = None; true }
                Some(n) => { *f = Some(n - 1); false }
                None => false,
            }
        };
        if fail_now { return Err(Error::Other(anyhow::anyhow!("injected I/O error (before effect)"))); }
        self.inner.set_task(uuid, task).await
    }
    async fn delete_task(&mut self, uuid: Uuid) -> R<bool> { self.inner.delete_task(uuid).await }
    async fn all_tasks(&mut self) -> R<Vec<(Uuid, TaskMap)>> { self.inner.all_tasks().await }
    async fn all_task_uuids(&mut self) -> R<Vec<Uuid>> { self.inner.all_task_uuids().await }
    async fn base_version(&mut self) -> R<Uuid> { self.inner.base_version().await }
    async fn set_base_version(&mut self, v: Uuid) -> R<()> { self.inner.set_base_version(v).await }
    async fn get_task_operations(&mut self, uuid: Uuid) -> R<Vec<Operation>> { self.inner.get_task_operations(uuid).await }
    async fn unsynced_operations(&mut self) -> R<Vec<Operation>> { self.inner.unsynced_operations().await }
    async fn num_unsynced_operations(&mut self) -> R<usize> { self.inner.num_unsynced_operations().await }
    async fn add_operation(&mut self, op: Operation) -> R<()> { self.inner.add_operation(op).await }
    async fn remove_operation(&mut self, op: Operation) -> R<()> { self.inner.remove_operation(op).await }
    async fn sync_complete(&mut self) -> R<()> { self.inner.sync_complete().await }
    async fn get_working_set(&mut self) -> R<Vec<Option<Uuid>>> { self.inner.get_working_set().await }
    async fn add_to_working_set(&mut self, uuid: Uuid) -> R<usize> { self.inner.add_to_working_set(uuid).await }
    async fn set_working_set_item(&mut self, i: usize, u: Option<Uuid>) -> R<()> { self.inner.set_working_set_item(i, u).await }
    async fn clear_working_set(&mut self) -> R<()> { self.inner.clear_working_set().await }
    async fn commit(&mut self) -> R<()> { self.inner.commit().await }
}

fn upd(uuid: Uuid, p: &str, v: &str, t: i64) -> Operation {
    Operation::Update { uuid, property: p.into(), value: Some(v.into()), old_value: None, timestamp: Utc.timestamp_opt(t, 0).unwrap() }
}

#[tokio::test]
async fn d4_storage_error_during_sync_is_swallowed() {
    let dir = tempfile::TempDir::new().unwrap();
    let mut sa = ServerConfig::Local { server_dir: dir.path().to_path_buf() }.into_server().await.unwrap();
    let mut sb = ServerConfig::Local { server_dir: dir.path().to_path_buf() }.into_server().await.unwrap();
    let fail = Arc::new(Mutex::new(None));
    let mut a = Replica::new(Faulty { inner: InMemoryStorage::new(), fail_set_task_at: fail.clone() });
    let mut b = Replica::new(InMemoryStorage::new());
    let u = Uuid::new_v4();
    a.commit_operations(vec![Operation::Create { uuid: u }]).await.unwrap();
    a.sync(&mut sa, true).await.unwrap();
    b.sync(&mut sb, true).await.unwrap();
    b.commit_operations(vec![upd(u, "p", "from-b", 1000)]).await.unwrap();
    b.sync(&mut sb, true).await.unwrap();
    // A's storage fails once, before effect, on the next set_task (which happens while applying B's version)
    *fail.lock().unwrap() = Some(0);
    let res = a.sync(&mut sa, true).await;
    println!("D4: sync with one injected storage error returned {:?}", res.as_ref().map(|_| ()));
    // sync again, fault-free
    a.sync(&mut sa, true).await.unwrap();
    b.sync(&mut sb, true).await.unwrap();
    let pa = a.get_task_data(u).await.unwrap().unwrap().get("p").map(|s| s.to_string());
    let pb = b.get_task_data(u).await.unwrap().unwrap().get("p").map(|s| s.to_string());
    println!("D4: A.p={pa:?} B.p={pb:?}");
    assert_eq!(pa, pb, "D4: an interrupted sync lost a server operation for good");
}

#[tokio::test]
async fn d9_crash_between_insert_and_latest_pointer() {
    let dir = tempfile::TempDir::new().unwrap();
    let cfg = || ServerConfig::Local { server_dir: dir.path().to_path_buf() };
    let mut sa = cfg().into_server().await.unwrap();
    let mut a = Replica::new(InMemoryStorage::new());
    let mut b = Replica::new(InMemoryStorage::new());
    let u = Uuid::new_v4();
    a.commit_operations(vec![Operation::Create { uuid: u }]).await.unwrap();
    a.sync(&mut sa, true).await.unwrap();
    // remember the latest pointer, let A push a second version, then put the pointer back:
    // exactly the on-disk state after a stop between `add_version_by_parent_version_id` and `set_latest_version_id`
    let db = dir.path().join("taskchampion-local-sync-server.sqlite3");
    let con = rusqlite::Connection::open(&db).unwrap();
    let latest1: Vec<u8> = con.query_row("SELECT CAST(value AS BLOB) FROM data WHERE key='latest_version_id'", [], |r| r.get(0)).unwrap();
    let mut a2 = Replica::new(InMemoryStorage::new()); // stands for A's process that crashes: same ops, pushed, reply lost
    let mut sa2 = cfg().into_server().await.unwrap();
    a2.sync(&mut sa2, true).await.unwrap();
    a2.commit_operations(vec![upd(u, "p", "v1", 1000)]).await.unwrap();
    a2.sync(&mut sa2, true).await.unwrap();
    con.execute("UPDATE data SET value = CAST(?1 AS TEXT) WHERE key='latest_version_id'", [String::from_utf8(latest1).unwrap()]).unwrap();
    drop(con);
    // B pulls: is the half-written version visible?
    let mut sb = cfg().into_server().await.unwrap();
    b.sync(&mut sb, true).await.unwrap();
    let pb = b.get_task_data(u).await.unwrap().unwrap().get("p").map(|s| s.to_string());
    println!("D9: after the simulated crash B sees p={pb:?} (version visible although not latest)");
    // A (restarted, never got the reply) makes the same change again and syncs
    a.commit_operations(vec![upd(u, "p", "v1", 1000)]).await.unwrap();
    let mut sa3 = cfg().into_server().await.unwrap();
    let ra = a.sync(&mut sa3, true).await;
    println!("D9: A re-sync -> {:?}", ra.as_ref().map(|_| ()));
    // B makes a change and syncs
    b.commit_operations(vec![upd(u, "q", "from-b", 2000)]).await.unwrap();
    let rb = b.sync(&mut sb, true).await;
    println!("D9: B sync -> {:?}", rb.as_ref().map(|_| ()).map_err(|e| e.to_string()));
    assert!(ra.is_ok() && rb.is_ok(), "D9: a replica can no longer synchronize");
}
