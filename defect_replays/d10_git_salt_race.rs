// D10 (C08, C13): replay on the real code.  Copy to /repo/tests/d10_git_salt_race.rs and run
//   cargo test --offline --test d10_git_salt_race
// Two replicas set up their clone of a still-empty shared remote before either has synced: each creates its own `meta`
// file with its own random salt.  The first push wins; the other handle is reset to the remote's history (and meta file)
// but, on the pinned tree, keeps the key derived from the salt it invented itself: it can read nothing the first replica
// wrote until the process is restarted, and a snapshot it stores is unreadable for everyone else.
use taskchampion::server::{AddVersionResult, GetVersionResult, ServerConfig};
use taskchampion::Uuid;

fn git_cfg(dir: &std::path::Path, clone: &str) -> ServerConfig {
    ServerConfig::Git {
        local_path: dir.join(clone),
        branch: "main".into(),
        remote: Some(dir.join("bare.git").to_str().unwrap().to_string()),
        local_only: false,
        encryption_secret: b"secret".to_vec(),
        git_path: None,
    }
}

#[tokio::test]
async fn second_replica_can_read_what_the_first_one_pushed() {
    let tmp = tempfile::TempDir::new().unwrap();
    let dir = tmp.path();
    assert!(std::process::Command::new("git")
        .args(["init", "--bare", "-q", "bare.git"])
        .current_dir(dir)
        .status()
        .unwrap()
        .success());
    // both replicas are set up before either has synced
    let mut a = git_cfg(dir, "a").into_server().await.unwrap();
    let mut b = git_cfg(dir, "b").into_server().await.unwrap();

    let (res, _) = a.add_version(Uuid::nil(), b"first".to_vec()).await.unwrap();
    let AddVersionResult::Ok(v1) = res else { panic!("first version rejected") };

    // an accepted version is returned byte for byte as the child of its parent to every client
    match b.get_child_version(Uuid::nil()).await {
        Ok(GetVersionResult::Version { version_id, history_segment, .. }) => {
            assert_eq!(version_id, v1);
            assert_eq!(history_segment, b"first".to_vec());
        }
        other => panic!("replica b cannot read the version replica a added: {other:?}"),
    }
}
