// GENERATED from src/lib.rs.in by vf/kani.py: the files under test are included from /repo by #[path], unmodified.
#![allow(dead_code, unused_imports)]
#[path = "/repo/src/task/time.rs"]
mod time;

/// C18 kernel: the checked conversion used by every timestamp read accessor is total over i64 (full domain, loop-free)
#[cfg(kani)]
#[kani::proof]
fn utc_timestamp_opt_never_panics() {
    let secs: i64 = kani::any();
    let r = time::utc_timestamp_opt(secs);
    // and it agrees with the panicking public function wherever that one is defined
    if secs >= -8334601228800 && secs <= 8210266876799 {
        assert!(r.is_some());
    }
}

/// the public utc_timestamp() keeps its documented behaviour on chrono's range (it panics outside; callers reading stored
/// data must not use it -- that is checked on the callers in the Verus unit)
#[cfg(kani)]
#[kani::proof]
fn utc_timestamp_total_on_chrono_range() {
    let secs: i64 = kani::any();
    kani::assume(secs >= -8334601228800 && secs <= 8210266876799);
    let _ = time::utc_timestamp(secs);
}
