//@include prelude/head.rs
//@props C03 C14 C20 C01 C02 C04
//@include regions/op_types.rs
//@include vocab/syncmodel.rs
//@include vocab/wire.rs
//@include regions/op_impl.rs
//@include lemmas/transform.rs
//@include prelude/tail.rs
