//@include prelude/head.rs
//@include prelude/hash.rs
broadcast use {vstd::std_specs::hash::group_hash_axioms, axh::axiom_uuid_key_model, ax::axiom_string_eq_spec, ax::axiom_string_obeys_eq, ax::axiom_string_to_string};
//@props C03 C14 C20 C01 C02 C04
//@include regions/op_types.rs
//@include vocab/syncmodel.rs
//@include vocab/wire.rs
//@include regions/op_impl.rs
//@include lemmas/transform.rs
// ---- functions these properties depend on that are NOT verified (outside the verifier's reach): hashed; a change -> UNDECIDED
//@include prelude/tail.rs
