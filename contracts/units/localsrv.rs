//@include prelude/head.rs
//@include prelude/hash.rs
broadcast use {vstd::std_specs::hash::group_hash_axioms, axh::axiom_uuid_key_model, ax::axiom_string_eq_spec, ax::axiom_string_obeys_eq, ax::axiom_string_to_string};
//@props C08 C11
//@include regions/errors.rs
//@include regions/server_plain_types.rs
//@include regions/localsrv_impl.rs
//@include prelude/tail.rs
