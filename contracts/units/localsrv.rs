//@include prelude/head.rs
broadcast use {ax::axiom_string_eq_spec, ax::axiom_string_obeys_eq, ax::axiom_string_to_string};
//@props C08 C11
//@include regions/errors.rs
//@include regions/server_plain_types.rs
//@include regions/localsrv_impl.rs
//@include prelude/tail.rs
