//@include prelude/head.rs
//@include prelude/hash.rs
broadcast use {vstd::std_specs::hash::group_hash_axioms, axh::axiom_uuid_key_model, ax::axiom_string_eq_spec, ax::axiom_string_obeys_eq, ax::axiom_string_to_string, ringspec::axiom_aead_roundtrip, ringspec::axiom_aead_auth, ringspec::axiom_kdf_len, ringspec::axiom_seal_len, axr::axiom_as_ref_bytes};
//@props C08
//@include regions/errors.rs
//@include prelude/ring.rs
//@include regions/crypto_impl.rs
//@include regions/server_plain_types.rs
//@include prelude/cloud.rs
//@include regions/cloudsrv_impl.rs
// ---- the git backend (spawns `git`; outside the verifier's reach) belongs to the same properties: hashed, so that a change there makes
// ---- the checks answer UNDECIDED instead of "holds"
//@include prelude/tail.rs
