//@include prelude/head.rs
broadcast use {ax::axiom_string_eq_spec, ax::axiom_string_obeys_eq, ax::axiom_string_to_string, vstd::std_specs::hash::group_hash_axioms, axh::axiom_uuid_key_model};
//@include prelude/hash.rs
//@props C15
//@include regions/errors.rs
//@include regions/op_types.rs
pub type VersionId = Uuid;
//@include regions/storage_trait.rs
//@include vocab/ws_trim_lemmas.rs
//@include vocab/workingset.rs
//@include regions/rebuild_impl.rs
//@include regions/taskdb_types.rs
//@include regions/taskdb_rebuild_wrapper.rs
//@include prelude/tail.rs
