//@include prelude/head.rs
//@include prelude/hash.rs
use vstd::std_specs::convert::IntoSpec;
broadcast use {vstd::std_specs::hash::group_hash_axioms, axh::axiom_uuid_key_model, ax::axiom_string_eq_spec, ax::axiom_string_obeys_eq, ax::axiom_string_to_string, tmod::axiom_taskmap_view_injective, ax::axiom_string_view_injective, axs::axiom_str_into_string, axs::axiom_str_into_string_obeys, axs::axiom_string_into_string, axs::axiom_string_into_string_obeys, axs::axiom_string_str_eq, axs::axiom_string_str_eq_obeys, axs::axiom_string_from_str, axs::axiom_string_from_str_obeys};
//@props C19
//@include regions/errors.rs
//@include regions/op_types.rs
//@include vocab/syncmodel.rs
//@include vocab/chain.rs
//@include vocab/localmodel.rs
//@include vocab/undomodel.rs
//@include prelude/taskstd.rs
//@include regions/taskdata_impl.rs
//@include regions/task_impl.rs
//@include prelude/tail.rs
