//@include prelude/head.rs
//@include prelude/hash.rs
use vstd::std_specs::convert::IntoSpec;
broadcast use {vstd::std_specs::hash::group_hash_axioms, axh::axiom_uuid_key_model, ax::axiom_string_eq_spec, ax::axiom_string_obeys_eq, ax::axiom_string_to_string, ax::axiom_str_view_injective, axr::axiom_as_ref_chars, axr::axiom_as_ref_chars_str, axr::axiom_as_ref_chars_string, axr::axiom_as_ref_chars_string_ref, tmod::axiom_taskmap_view_injective, ax::axiom_string_view_injective, axs::axiom_str_into_string, axs::axiom_str_into_string_obeys, axs::axiom_string_into_string, axs::axiom_string_into_string_obeys, axs::axiom_string_str_eq, axs::axiom_string_str_eq_obeys, axs::axiom_string_from_str, axs::axiom_string_from_str_obeys};
//@props C19
//@include regions/errors.rs
//@include regions/op_types.rs
//@include vocab/syncmodel.rs
//@include vocab/chain.rs
//@include vocab/localmodel.rs
//@include vocab/undomodel.rs
//@include prelude/taskstd.rs
//@include prelude/uuidtext.rs
//@include regions/depmap_impl.rs
//@include regions/status_impl.rs
//@include regions/taskdata_impl.rs
//@include regions/task_impl.rs
//@include regions/workingset_type.rs
//@include regions/task_keys_impl.rs
// ---- functions these properties depend on that are NOT verified (outside the verifier's reach): hashed; a change -> UNDECIDED
//@include prelude/tail.rs
