//@include prelude/head.rs
//@include prelude/hash.rs
broadcast use {vstd::std_specs::hash::group_hash_axioms, axh::axiom_uuid_key_model, ax::axiom_string_eq_spec, ax::axiom_string_obeys_eq, ax::axiom_string_to_string, axw::axiom_into_string_bytes, axw::axiom_version_round_trip};
//@props C01 C02 C04
//@include regions/errors.rs
//@include regions/op_types.rs
//@include vocab/syncmodel.rs
//@include vocab/wire.rs
//@include vocab/chain.rs
//@include regions/server_types.rs
//@include regions/storage_trait.rs
//@include prelude/wire.rs
//@include vocab/chain_lemmas.rs
//@include regions/op_impl.rs
//@include lemmas/transform.rs
//@include regions/snapshot_impl.rs
//@include regions/apply_op.rs
//@include regions/sync_impl.rs
//@include regions/taskdb_types.rs
//@include regions/taskdb_sync_wrapper.rs
//@include lemmas/history.rs
// ---- functions these properties depend on that are NOT verified (outside the verifier's reach): hashed; a change -> UNDECIDED
//@include prelude/tail.rs
