//@include prelude/head.rs
broadcast use {ax::axiom_string_eq_spec, ax::axiom_string_obeys_eq, ax::axiom_string_to_string, vstd::std_specs::hash::group_hash_axioms, axh::axiom_uuid_key_model};
//@include prelude/hash.rs
//@props C05
//@include regions/errors.rs
//@include regions/op_types.rs
//@include vocab/syncmodel.rs
//@include vocab/chain.rs
//@include vocab/localmodel.rs
pub type VersionId = Uuid;
//@include regions/storage_trait.rs
//@include regions/apply_operations.rs
//@include regions/taskdb_types.rs
//@include vocab/taskdbmodel.rs
//@include regions/taskdb_impl.rs
// ---- functions these properties depend on that are NOT verified (outside the verifier's reach): hashed; a change -> UNDECIDED
//@watch C15 :: src/taskdb/mod.rs :: impl<S: Storage> TaskDb<S> :: fn rebuild_working_set
//@include prelude/tail.rs
