//@include prelude/head.rs
//@include prelude/hash.rs
broadcast use {vstd::std_specs::hash::group_hash_axioms, axh::axiom_uuid_key_model, ax::axiom_string_eq_spec, ax::axiom_string_obeys_eq, ax::axiom_string_to_string, tmod::axiom_taskmap_view_injective, ax::axiom_string_view_injective};
//@props C07
//@include regions/errors.rs
//@include regions/op_types.rs
//@include vocab/syncmodel.rs
//@include vocab/chain.rs
//@include vocab/localmodel.rs
//@include vocab/undomodel.rs
pub type VersionId = Uuid;
//@include regions/storage_trait.rs
//@include vocab/chain_lemmas.rs
//@include regions/apply_op.rs
//@include lemmas/undo.rs
//@include regions/undo_impl.rs
//@include regions/taskdb_types.rs
//@include regions/taskdb_undo_wrapper.rs
// ---- functions these properties depend on that are NOT verified (outside the verifier's reach): hashed; a change -> UNDECIDED
//@watch C07 :: src/taskdb/mod.rs :: impl<S: Storage> TaskDb<S> :: fn commit_reversed_operations
//@watch C07 :: src/taskdb/mod.rs :: impl<S: Storage> TaskDb<S> :: fn get_undo_operations
//@include prelude/tail.rs
