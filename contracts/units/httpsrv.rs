//@include prelude/head.rs
//@include prelude/hash.rs
broadcast use {vstd::std_specs::hash::group_hash_axioms, axh::axiom_uuid_key_model, ax::axiom_string_eq_spec, ax::axiom_string_obeys_eq, ax::axiom_string_to_string, ax::axiom_str_view_injective, ringspec::axiom_aead_roundtrip, ringspec::axiom_aead_auth, ringspec::axiom_kdf_len, ringspec::axiom_seal_len, axr::axiom_as_ref_bytes};
//@props C13
//@include regions/errors.rs
//@include prelude/ring.rs
//@include regions/crypto_impl.rs
//@include regions/server_plain_types.rs
//@include prelude/uuidtext.rs
//@include prelude/reqwest.rs
//@include regions/httpsrv_impl.rs
// which backend a configuration selects (plumbing, not verified): hashed
//@watch C08 C13 :: src/server/config.rs :: impl ServerConfig :: fn into_server
//@include prelude/tail.rs
