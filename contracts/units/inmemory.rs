//@include prelude/head.rs
broadcast use {ax::axiom_string_eq_spec, ax::axiom_string_obeys_eq, ax::axiom_string_to_string, tmod::axiom_taskmap_view_injective, ax::axiom_string_view_injective, vstd::std_specs::hash::group_hash_axioms, axh::axiom_uuid_key_model};
//@include prelude/hash.rs
//@props C16
//@include regions/errors.rs
//@include regions/op_types.rs
pub type VersionId = Uuid;
//@include regions/storage_trait.rs
//@include vocab/ws_trim_lemmas.rs
//@include regions/inmemory_impl.rs
// ---- the other half of C16: the SQLite store is NOT verified (SQL in a C library); its Rust side is hashed, so that a change there makes
// ---- the check answer UNDECIDED instead of "holds" (it says nothing about whether the change is right)
//@include prelude/tail.rs
