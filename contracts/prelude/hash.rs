// ---- A5: Uuid obeys vstd's hash-key model (it is a plain 128-bit value with derived Hash/Eq) ------------
pub mod axh {
    use vstd::prelude::*;
    use super::Uuid;
    pub broadcast axiom fn axiom_uuid_key_model()
        ensures #[trigger] vstd::std_specs::hash::obeys_key_model::<Uuid>();
}
/// rule R17: `E.iter().filter_map(|x| *x).collect()` into a HashSet: the set of Some-values of a list of options (TRUSTED)
pub open spec fn somes(v: Seq<Option<Uuid>>) -> Set<Uuid>
    decreases v.len()
{
    if v.len() == 0 { Set::empty() } else {
        match v.last() { Some(u) => somes(v.drop_last()).insert(u), None => somes(v.drop_last()) }
    }
}
pub proof fn lemma_somes(v: Seq<Option<Uuid>>)
    ensures forall|u: Uuid| #[trigger] somes(v).contains(u) <==> (exists|i: int| 0 <= i < v.len() && #[trigger] v[i] == Some(u))
    decreases v.len()
{
    if v.len() > 0 {
        lemma_somes(v.drop_last());
        assert forall|u: Uuid| #[trigger] somes(v).contains(u) <==> (exists|i: int| 0 <= i < v.len() && #[trigger] v[i] == Some(u)) by {
            if somes(v).contains(u) {
                if v.last() == Some(u) { assert(v[v.len() - 1] == Some(u)); }
                else {
                    assert(somes(v.drop_last()).contains(u));
                    let i = choose|i: int| 0 <= i < v.drop_last().len() && #[trigger] v.drop_last()[i] == Some(u);
                    assert(v[i] == Some(u));
                }
            }
            if exists|i: int| 0 <= i < v.len() && #[trigger] v[i] == Some(u) {
                let i = choose|i: int| 0 <= i < v.len() && #[trigger] v[i] == Some(u);
                if i < v.len() - 1 { assert(v.drop_last()[i] == Some(u)); }
            }
        }
    }
}
#[verifier::external_body]
pub fn flatten_options(v: &Vec<Option<Uuid>>) -> (r: std::collections::HashSet<Uuid>)
    ensures r@ == somes(v@)
{ v.iter().filter_map(|u| *u).collect() }
// A4: Entry::or_insert_with, modelled on vstd's specification of Entry::or_insert
pub assume_specification<'a, K, V, A: std::alloc::Allocator, F: FnOnce() -> V>[ std::collections::hash_map::Entry::<'a, K, V, A>::or_insert_with ](entry: std::collections::hash_map::Entry<'a, K, V, A>, default: F) -> (value: &'a mut V)
    requires vstd::std_specs::hash::EntrySpecFns::value(entry) is None ==> default.requires(()),
    ensures
        match vstd::std_specs::hash::EntrySpecFns::value(entry) { Some(v) => *value == v, None => default.ensures((), *value) },
        vstd::std_specs::hash::EntrySpecFns::final_value(entry) == Some(*final(value));
