// ---- A6: serde_json / str::from_utf8 / flate2 stand-ins (TRUSTED) -------------------------------------------------
// The JSON text itself is outside reach (serde derive macros); what the proofs use is that encoding and decoding
// are inverse, that encoding never fails, and that a string is at most isize::MAX bytes long.

pub assume_specification[ std::string::String::len ](s: &std::string::String) -> (r: usize)
    ensures r <= isize::MAX;
// String -> bytes by `into_bytes()` is the same conversion as `.into()`
pub assume_specification[ std::string::String::into_bytes ](s: String) -> (r: Vec<u8>)
    ensures r@ == string_bytes(s);
#[derive(Debug)]
pub struct Utf8Error;
#[derive(Debug)]
pub struct JsonError;
/// the bytes of a string slice
pub uninterp spec fn str_bytes(s: &str) -> Seq<u8>;
pub use axw::{string_bytes, json_text};

pub mod str {
    use super::*;
    #[verifier::external_body]
    pub fn from_utf8(v: &Vec<u8>) -> (r: core::result::Result<&str, Utf8Error>)
        ensures decodable(v@) ==> (r matches Ok(s) && str_bytes(s) == v@)
    { unimplemented!() }
}
pub mod serde_json {
    use super::*;
    #[verifier::external_body]
    pub fn to_string<T>(v: &T) -> (r: core::result::Result<String, JsonError>)
        ensures r matches Ok(s) && s == json_text(*v)
    { unimplemented!() }
    /// instance `serde_json::from_str::<Version>`
    #[verifier::external_body]
    pub fn from_str(s: &str) -> (r: core::result::Result<Version, JsonError>)
        ensures decodable(str_bytes(s)) ==> (r matches Ok(v) && v.operations@ == decode(str_bytes(s)))
    { unimplemented!() }
}
pub mod axw {
use vstd::prelude::*;
use super::Version;
use super::enc::{decodable, decode};
/// the bytes `String -> Vec<u8>` (`.into()`) yields
pub uninterp spec fn string_bytes(s: String) -> Seq<u8>;
/// the JSON text serde_json::to_string produces for a value
pub uninterp spec fn json_text<T>(v: T) -> String;
/// relation between the argument and the result of `.into()`
pub uninterp spec fn into_post<T, U>(x: T, r: U) -> bool;
/// instance String -> Vec<u8>: the UTF-8 bytes of the string
pub broadcast axiom fn axiom_into_string_bytes(s: String, r: Vec<u8>)
    ensures #[trigger] into_post::<String, Vec<u8>>(s, r) ==> r@ == string_bytes(s);
/// A6: what a replica serialises decodes to the same operations (serde round trip through UTF-8 JSON)
pub broadcast axiom fn axiom_version_round_trip(v: Version)
    ensures decodable(#[trigger] string_bytes(json_text(v))) && decode(string_bytes(json_text(v))) == v.operations@;
}
/// rule R16 rewrites `E.into()` to `into_conv(E)`; what a conversion yields is fixed per instance by an axiom
#[verifier::external_body]
pub fn into_conv<T, U: From<T>>(x: T) -> (r: U)
    ensures axw::into_post(x, r)
{ x.into() }
