// ================================================================================================
// A10 (TRUSTED): stand-ins for the parts of reqwest 0.12 / url / http that src/server/sync/mod.rs uses.
// A request under construction and a received response are plain values; `send` performs one exchange: the response
// remembers the request it answers (`resp.req`), so a contract can say what left the host.  Header names are compared
// as written (the real HeaderMap is case-insensitive); a header value is a string unless it is not visible ASCII.
// ================================================================================================
pub struct Url { pub s: String }
pub struct UrlParseError { pub e: u8 }
impl Url {
    #[verifier::external_body]
    pub fn parse(s: &str) -> (r: core::result::Result<Url, UrlParseError>) { unimplemented!() }
    #[verifier::external_body]
    pub fn join(&self, s: &str) -> (r: core::result::Result<Url, UrlParseError>) { unimplemented!() }
    /// the path component (a `&str` in the url crate; only its last character is ever inspected)
    #[verifier::external_body]
    pub fn path(&self) -> (r: &UrlPath) { unimplemented!() }
    #[verifier::external_body]
    pub fn set_path(&mut self, p: &str) { unimplemented!() }
}
pub struct UrlPath { pub p: String }
impl UrlPath {
    #[verifier::external_body]
    pub fn ends_with(&self, c: char) -> (r: bool) { unimplemented!() }
}
pub mod reqwest {
    use vstd::prelude::*;
    use super::{Url, Uuid};
    use std::collections::HashMap;
    verus! {
    #[derive(Clone, Copy, Debug)]
    pub struct StatusCode(pub u16);
    impl StatusCode {
        pub const CONFLICT: StatusCode = StatusCode(409);
        pub const NOT_FOUND: StatusCode = StatusCode(404);
    }
    impl PartialEq for StatusCode {
        fn eq(&self, other: &Self) -> (r: bool) { self.0 == other.0 }
    }
    impl Eq for StatusCode {}
    impl vstd::std_specs::cmp::PartialEqSpecImpl for StatusCode {
        open spec fn obeys_eq_spec() -> bool { true }
        open spec fn eq_spec(&self, other: &Self) -> bool { self.0 == other.0 }
    }
    /// a header value; `text` is None when the bytes are not visible ASCII (`to_str` fails)
    pub struct HeaderValue { pub text: Option<String> }
    pub struct ToStrError { pub e: u8 }
    impl HeaderValue {
        pub fn to_str(&self) -> (r: core::result::Result<&str, ToStrError>)
            ensures match r { Ok(s) => self.text matches Some(t) && s@ == t@, Err(_) => self.text is None }
        {
            match &self.text { Some(t) => Ok(t.as_str()), None => Err(ToStrError { e: 0 }) }
        }
    }
    pub struct HeaderMap { pub m: Ghost<Map<Seq<char>, HeaderValue>> }
    impl HeaderMap {
        /// header value by name (None when absent)
        pub open spec fn hv(&self, name: Seq<char>) -> Option<HeaderValue> {
            if self.m@.dom().contains(name) { Some(self.m@[name]) } else { None }
        }
        #[verifier::external_body]
        pub fn get(&self, name: &str) -> (r: Option<&HeaderValue>)
            ensures match r { Some(v) => self.hv(name@) == Some(*v), None => self.hv(name@) is None }
        { unimplemented!() }
    }
    /// what a request consists of
    pub struct ReqView {
        pub post: bool,
        pub url: Url,
        pub headers: Map<Seq<char>, Seq<char>>,
        pub body: Option<Seq<u8>>,
    }
    pub struct Client { pub c: u8 }
    pub struct RequestBuilder { pub req: Ghost<ReqView> }
    pub struct Error { pub status: Option<StatusCode> }
    pub struct Bytes { pub b: Vec<u8> }
    impl Bytes {
        pub fn to_vec(&self) -> (r: Vec<u8>) ensures r@ == self.b@ { self.b.clone() }
    }
    pub struct Response {
        pub status: StatusCode,
        pub headers: HeaderMap,
        pub body: Vec<u8>,
        /// the request this response answers
        pub req: Ghost<ReqView>,
    }
    /// this response was received in an exchange with the server (a marker the contracts quantify over)
    pub uninterp spec fn exchanged(x: Response) -> bool;
    impl Client {
        #[verifier::external_body]
        pub fn post(&self, url: Url) -> (r: RequestBuilder)
            ensures r.req@ == (ReqView { post: true, url, headers: Map::empty(), body: None })
        { unimplemented!() }
        #[verifier::external_body]
        pub fn get(&self, url: Url) -> (r: RequestBuilder)
            ensures r.req@ == (ReqView { post: false, url, headers: Map::empty(), body: None })
        { unimplemented!() }
    }
    impl RequestBuilder {
        #[verifier::external_body]
        pub fn header(self, name: &str, value: &str) -> (r: RequestBuilder)
            ensures r.req@ == (ReqView { headers: self.req@.headers.insert(name@, value@), ..self.req@ })
        { unimplemented!() }
        #[verifier::external_body]
        pub fn body(self, b: Vec<u8>) -> (r: RequestBuilder)
            ensures r.req@ == (ReqView { body: Some(b@), ..self.req@ })
        { unimplemented!() }
        /// one exchange with the server: any response may come back, or a transport error (no status)
        #[verifier::external_body]
        pub fn send(self) -> (r: core::result::Result<Response, Error>)
            ensures match r { Ok(resp) => resp.req@ == self.req@ && exchanged(resp), Err(e) => e.status is None }
        { unimplemented!() }
    }
    impl Response {
        pub fn status(&self) -> (r: StatusCode) ensures r == self.status { self.status }
        pub fn headers(&self) -> (r: &HeaderMap) ensures *r == self.headers { &self.headers }
        /// "Turn a response into an error if the server returned an error": 400..=599
        pub fn error_for_status(self) -> (r: core::result::Result<Response, Error>)
            ensures match r {
                Ok(resp) => resp == self && !(400 <= self.status.0 <= 599),
                Err(e) => 400 <= self.status.0 <= 599 && e.status == Some(self.status),
            }
        {
            if 400 <= self.status.0 && self.status.0 <= 599 { Err(Error { status: Some(self.status) }) } else { Ok(self) }
        }
        #[verifier::external_body]
        pub fn bytes(self) -> (r: core::result::Result<Bytes, Error>)
            ensures r matches Ok(b) ==> b.b@ == self.body@
        { unimplemented!() }
    }
    impl Error {
        pub fn status(&self) -> (r: Option<StatusCode>) ensures r == self.status { self.status }
    }
    }
}
pub use reqwest::StatusCode;
/// src/errors.rs `impl From<reqwest::Error> for Error` (TRUSTED): always `Error::Server(text)`
impl From<reqwest::Error> for Error {
    #[verifier::external_body]
    fn from(e: reqwest::Error) -> (r: Error) { unimplemented!() }
}
pub uninterp spec fn reqwest_err_text(e: reqwest::Error) -> String;
impl vstd::std_specs::convert::FromSpecImpl<reqwest::Error> for Error {
    open spec fn obeys_from_spec() -> bool { true }
    open spec fn from_spec(e: reqwest::Error) -> Error { Error::Server(reqwest_err_text(e)) }
}
/// uuid::Uuid as the salt of a Cryptor: `impl AsRef<[u8]> for Uuid` yields its 16 bytes (TRUSTED)
impl AsRef<[u8]> for Uuid {
    #[verifier::external_body]
    fn as_ref(&self) -> (r: &[u8]) { unimplemented!() }
}
pub axiom fn axiom_uuid_as_ref_bytes(u: &Uuid)
    ensures as_ref_bytes::<Uuid>(u) == u.bytes();
/// rule R16 (`err.into()`): the same conversion
pub mod http {
    use vstd::prelude::*;
    verus! {
    #[verifier::external_body]
    pub fn client() -> (r: super::Result<super::reqwest::Client>) { unimplemented!() }
    }
}
/// rule R16 rewrites `E.into()` to `into_conv(E)`; here it only ever converts an error value, whose content no contract reads
#[verifier::external_body]
pub fn into_conv<T, U: From<T>>(x: T) -> (r: U) { x.into() }
