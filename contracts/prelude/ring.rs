// ================================================================================================
// A7 (TRUSTED): stand-ins for ring 0.17 (aead, pbkdf2, rand) and uuid::Uuid::as_bytes.
// The AEAD is idealised: open inverts seal for the same key, nonce and AAD, and whatever opens was sealed with them.
// ================================================================================================
impl Uuid {
    pub uninterp spec fn bytes(&self) -> Seq<u8>;
    #[verifier::external_body]
    pub fn as_bytes(&self) -> (r: &[u8; 16]) ensures r@ == self.bytes(), r@.len() == 16 { unimplemented!() }
}
pub mod ringspec {
    use vstd::prelude::*;
    /// ciphertext||tag as a function of (key, nonce, aad, plaintext)
    pub uninterp spec fn seal_spec(key: Seq<u8>, alg: int, nonce: Seq<u8>, aad: Seq<u8>, pt: Seq<u8>) -> Seq<u8>;
    pub uninterp spec fn open_spec(key: Seq<u8>, alg: int, nonce: Seq<u8>, aad: Seq<u8>, ct: Seq<u8>) -> Option<Seq<u8>>;
    /// PBKDF2 as a function of (PRF algorithm, iterations, salt, secret, output length)
    pub uninterp spec fn kdf_spec(alg: int, iterations: int, salt: Seq<u8>, secret: Seq<u8>, len: int) -> Seq<u8>;
    pub broadcast axiom fn axiom_aead_roundtrip(key: Seq<u8>, alg: int, nonce: Seq<u8>, aad: Seq<u8>, pt: Seq<u8>)
        ensures #[trigger] open_spec(key, alg, nonce, aad, seal_spec(key, alg, nonce, aad, pt)) == Some(pt);
    /// INT-CTXT, idealised: whatever opens was sealed with the same key, nonce and aad
    pub broadcast axiom fn axiom_aead_auth(key: Seq<u8>, alg: int, nonce: Seq<u8>, aad: Seq<u8>, ct: Seq<u8>)
        ensures #[trigger] open_spec(key, alg, nonce, aad, ct) matches Some(pt) ==> ct == seal_spec(key, alg, nonce, aad, pt);
    pub broadcast axiom fn axiom_kdf_len(alg: int, iterations: int, salt: Seq<u8>, secret: Seq<u8>, len: int)
        ensures len >= 0 ==> (#[trigger] kdf_spec(alg, iterations, salt, secret, len)).len() == len;
    /// a sealed message is 16 bytes (the tag) longer than the plaintext
    pub broadcast axiom fn axiom_seal_len(key: Seq<u8>, alg: int, nonce: Seq<u8>, aad: Seq<u8>, pt: Seq<u8>)
        ensures (#[trigger] seal_spec(key, alg, nonce, aad, pt)).len() == pt.len() + 16;
    /// these bytes were just drawn from the system random number generator
    pub uninterp spec fn rng_drawn(b: Seq<u8>) -> bool;
    pub open spec fn ALG_CHACHA20_POLY1305() -> int { 1 }
    pub open spec fn ALG_PBKDF2_HMAC_SHA256() -> int { 256 }
}
pub mod error {
    use vstd::prelude::*;
    verus! { #[derive(Debug)] pub struct Unspecified; }
}
pub mod aead {
    use vstd::prelude::*;
    use super::ringspec::*;
    use super::error::Unspecified;
    verus! {
    pub const NONCE_LEN: usize = 12;
    pub struct Algorithm { pub id: u8 }
    pub const CHACHA20_POLY1305: Algorithm = Algorithm { id: 1 };
    impl Algorithm {
        pub fn key_len(&self) -> (r: usize) ensures self.id == 1 ==> r == 32 { if self.id == 1 { 32 } else { 16 } }
    }
    pub struct UnboundKey { pub alg: Ghost<int>, pub bytes: Ghost<Seq<u8>> }
    impl UnboundKey {
        #[verifier::external_body]
        pub fn new(algorithm: &'static Algorithm, key_bytes: &Vec<u8>) -> (r: core::result::Result<UnboundKey, Unspecified>)
            ensures r matches Ok(k) ==> k.alg@ == algorithm.id as int && k.bytes@ == key_bytes@
        { unimplemented!() }
    }
    pub struct LessSafeKey { pub alg: Ghost<int>, pub bytes: Ghost<Seq<u8>> }
    pub struct Nonce { pub bytes: Ghost<Seq<u8>> }
    impl Nonce {
        #[verifier::external_body]
        pub fn assume_unique_for_key(value: [u8; NONCE_LEN]) -> (r: Nonce) ensures r.bytes@ == value@ { unimplemented!() }
    }
    pub struct Aad<A> { pub a: A }
    impl<A> Aad<A> {
        pub fn from(a: A) -> (r: Aad<A>) ensures r.a == a { Aad { a } }
    }
    pub struct Tag { pub bytes: Ghost<Seq<u8>> }
    impl Tag {
        #[verifier::external_body]
        pub fn as_ref(&self) -> (r: &[u8]) ensures r@ == self.bytes@ { unimplemented!() }
    }
    impl LessSafeKey {
        pub fn new(key: UnboundKey) -> (r: LessSafeKey) ensures r.alg@ == key.alg@ && r.bytes@ == key.bytes@ { LessSafeKey { alg: key.alg, bytes: key.bytes } }
        #[verifier::external_body]
        pub fn seal_in_place_separate_tag(&self, nonce: Nonce, aad: Aad<[u8; 17]>, in_out: &mut Vec<u8>) -> (r: core::result::Result<Tag, Unspecified>)
            ensures r matches Ok(tag) ==> final(in_out)@ + tag.bytes@ == seal_spec(self.bytes@, self.alg@, nonce.bytes@, aad.a@, old(in_out)@)
                    && final(in_out)@.len() == old(in_out)@.len(),
        { unimplemented!() }
        #[verifier::external_body]
        pub fn open_in_place<'a>(&self, nonce: Nonce, aad: Aad<[u8; 17]>, in_out: &'a mut [u8]) -> (r: core::result::Result<&'a mut [u8], Unspecified>)
            ensures match r {
                Ok(pt) => open_spec(self.bytes@, self.alg@, nonce.bytes@, aad.a@, old(in_out)@) == Some(pt@),
                Err(_) => open_spec(self.bytes@, self.alg@, nonce.bytes@, aad.a@, old(in_out)@) is None,
            }
        { unimplemented!() }
    }
    }
}
pub mod pbkdf2 {
    use vstd::prelude::*;
    use super::ringspec::*;
    verus! {
    pub struct Algorithm { pub id: u16 }
    pub const PBKDF2_HMAC_SHA256: Algorithm = Algorithm { id: 256 };
    #[verifier::external_body]
    pub fn derive(algorithm: Algorithm, iterations: std::num::NonZeroU32, salt: &[u8], secret: &[u8], out: &mut Vec<u8>)
        ensures final(out)@ == kdf_spec(algorithm.id as int, iterations@ as int, salt@, secret@, old(out)@.len() as int)
    { unimplemented!() }
    }
}
pub mod rand {
    use vstd::prelude::*;
    use super::error::Unspecified;
    verus! {
    pub struct SystemRandom { pub x: u8 }
    impl SystemRandom {
        pub fn new() -> SystemRandom { SystemRandom { x: 0 } }
        #[verifier::external_body]
        pub fn fill<const N: usize>(&self, dest: &mut [u8; N]) -> (r: core::result::Result<(), Unspecified>)
            ensures r is Ok ==> super::ringspec::rng_drawn(final(dest)@)
        { unimplemented!() }
    }
    }
}
