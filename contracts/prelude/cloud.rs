// ================================================================================================
// A11 (TRUSTED): the object-store `Service` as the CloudServer sees it (src/server/cloud/service.rs), sequentially:
// one client, no request of another client in between.  A failed request may or may not have been carried out.
// Object names: `v-PARENT-CHILD`, `s-VERSION`, `latest`, `salt` are modelled by injective uninterpreted functions
// (the real ones are format!/hex code outside the verifier's reach, hashed by //@watch).
// ================================================================================================
pub type Store = Map<Seq<char>, Seq<u8>>;
pub uninterp spec fn vname(p: Uuid, c: Uuid) -> Seq<char>;
pub uninterp spec fn sname(v: Uuid) -> Seq<char>;
/// `version_to_bytes`: the simple (hex, no hyphens) rendering as bytes; `try_parse_ascii` reads it back
pub uninterp spec fn vbytes(v: Uuid) -> Seq<u8>;
pub uninterp spec fn parse_vbytes(b: Seq<u8>) -> Option<Uuid>;
pub open spec fn latest_name() -> Seq<char> { "latest"@ }
pub axiom fn axiom_names(p: Uuid, c: Uuid, p2: Uuid, c2: Uuid)
    ensures
        vname(p, c) == vname(p2, c2) ==> p == p2 && c == c2,
        sname(p) == sname(p2) ==> p == p2,
        vname(p, c) != latest_name(), sname(p) != latest_name(), vname(p, c) != sname(p2),
        vname(p, c) != "salt"@, sname(p) != "salt"@,
        parse_vbytes(vbytes(p)) == Some(p);
/// the committed latest version: the parsed content of `latest`, if that object exists and is readable
pub open spec fn latest_of(s: Store) -> Option<Uuid> {
    if s.dom().contains(latest_name()) { parse_vbytes(s[latest_name()]) } else { None }
}
pub struct ObjectInfo { pub name: String, pub creation: u64 }
pub trait Service {
    spec fn objs(&self) -> Store;
    /// creation time of each object (seconds since the epoch) as `list` reports it
    spec fn ctimes(&self) -> Map<Seq<char>, u64>;
    fn put(&mut self, name: &str, value: &[u8]) -> (r: Result<()>)
        ensures r is Ok ==> final(self).objs() == old(self).objs().insert(name@, value@),
            r is Err ==> final(self).objs() == old(self).objs() || final(self).objs() == old(self).objs().insert(name@, value@);
    fn get(&mut self, name: &str) -> (r: Result<Option<Vec<u8>>>)
        ensures final(self).objs() == old(self).objs(),
            r matches Ok(Some(v)) ==> old(self).objs().dom().contains(name@) && v@ == old(self).objs()[name@],
            r matches Ok(None) ==> !old(self).objs().dom().contains(name@);
    /// "Enumerate objects with the given prefix": every object whose name starts with the prefix, once, with its creation time
    fn list(&mut self, prefix: &str) -> (r: ObjIter)
        ensures final(self).objs() == old(self).objs(),
            r.names().no_duplicates(), r.ctimes().len() == r.names().len(),
            forall|n: Seq<char>| #![trigger r.names().contains(n)] r.names().contains(n) <==> old(self).objs().dom().contains(n) && prefix@.is_prefix_of(n),
            forall|i: int| 0 <= i < r.names().len() ==> #[trigger] r.ctimes()[i] == old(self).ctimes()[r.names()[i]];
    fn del(&mut self, name: &str) -> (r: Result<()>)
        ensures r is Ok ==> final(self).objs() == old(self).objs().remove(name@),
            r is Err ==> final(self).objs() == old(self).objs() || final(self).objs() == old(self).objs().remove(name@);
    /// "Compare the existing object's value with `existing_value`, and replace with `new_value` only if the values match.
    /// Returns true if the object was updated"; `None` stands for "no such object"
    fn compare_and_swap(&mut self, name: &str, existing_value: Option<Vec<u8>>, new_value: Vec<u8>) -> (r: Result<bool>)
        ensures
            ({ let cur = if old(self).objs().dom().contains(name@) { Some(old(self).objs()[name@]) } else { None::<Seq<u8>> };
               let want = match existing_value { Some(v) => Some(v@), None => None::<Seq<u8>> };
               match r {
                   Ok(true) => cur == want && final(self).objs() == old(self).objs().insert(name@, new_value@),
                   Ok(false) => cur != want && final(self).objs() == old(self).objs(),
                   Err(_) => final(self).objs() == old(self).objs() || (cur == want && final(self).objs() == old(self).objs().insert(name@, new_value@)),
               } });
}
impl Uuid {
    /// uuid::Uuid::try_parse_ascii
    #[verifier::external_body]
    pub fn try_parse_ascii(b: &[u8]) -> (r: core::result::Result<Uuid, UuidAsciiError>)
        ensures match r { Ok(u) => parse_vbytes(b@) == Some(u), Err(_) => parse_vbytes(b@) is None }
    { unimplemented!() }
}
pub struct UuidAsciiError { pub e: u8 }
/// rule R16 rewrites `E.into()` to `into_conv(E)`; here: error texts, and `Unsealed -> Vec<u8>` (its payload, src/server/encryption.rs)
#[verifier::external_body]
pub fn into_conv<T, U: From<T>>(x: T) -> (r: U)
    ensures <U as vstd::std_specs::convert::FromSpec<T>>::obeys_from_spec() ==> r == <U as vstd::std_specs::convert::FromSpec<T>>::from_spec(x)
{ x.into() }
/// `Vec<u8>` as the salt of a Cryptor: `AsRef<[u8]>` yields its bytes (std)
pub axiom fn axiom_vec_as_ref_bytes(v: &Vec<u8>)
    ensures as_ref_bytes::<Vec<u8>>(v) == v@;

// ---- listing (src/server/cloud/iter.rs: a boxed async iterator; here: the names still to come, with their creation times) ----
#[verifier::external_body]
pub struct ObjIter { _p: u8 }
impl ObjIter {
    pub uninterp spec fn names(&self) -> Seq<Seq<char>>;
    pub uninterp spec fn ctimes(&self) -> Seq<u64>;
    /// AsyncObjectIterator::next: the next object, an error (after which the callers stop), or None at the end
    #[verifier::external_body]
    pub fn next(&mut self) -> (r: Option<Result<ObjectInfo>>)
        ensures final(self).ctimes().len() == final(self).names().len(),
            match r {
                None => old(self).names().len() == 0 && final(self).names() == old(self).names(),
                Some(Ok(info)) => old(self).names().len() > 0 && info.name@ == old(self).names()[0] && info.creation == old(self).ctimes()[0]
                    && final(self).names() == old(self).names().skip(1) && final(self).ctimes() == old(self).ctimes().skip(1),
                Some(Err(_)) => true,
            }
    { unimplemented!() }
}
/// the object names as the prefixes used for listing see them (the real names are built by format!, hashed by //@watch)
pub axiom fn axiom_name_prefixes(p: Uuid, c: Uuid)
    ensures "v-"@.is_prefix_of(vname(p, c)), "s-"@.is_prefix_of(sname(p)),
        !"v-"@.is_prefix_of(sname(p)), !"s-"@.is_prefix_of(vname(p, c)),
        !"v-"@.is_prefix_of(latest_name()), !"s-"@.is_prefix_of(latest_name()), !"v-"@.is_prefix_of("salt"@), !"s-"@.is_prefix_of("salt"@);
// ---- rule R34: `X.sort();` on a Vec -- a permutation in ascending order of `Ord`; for tuples the order is lexicographic, so the
// ---- first components ascend (TRUSTED: std's sort and the derived tuple order)
pub uninterp spec fn ord_le<T>(a: T, b: T) -> bool;
pub open spec fn sorted_by_first<A, B, C>(v: Seq<(A, B, C)>) -> bool { forall|i: int, j: int| 0 <= i <= j < v.len() ==> ord_le(#[trigger] v[i].0, #[trigger] v[j].0) }
#[verifier::external_body]
pub fn vec_sort<A, B, C>(v: &mut Vec<(A, B, C)>)
    ensures final(v)@.len() == old(v)@.len(), sorted_by_first(final(v)@),
        forall|x: (A, B, C)| #![trigger final(v)@.contains(x)] final(v)@.contains(x) <==> old(v)@.contains(x),
{ unimplemented!() }
/// rule R35: `v.binary_search_by_key(&k, |t| t.0)`: "if the value is found then Ok is returned, containing the index of the matching
/// element [any one of several]; if not found then Err"; meaningful only on a list sorted by that key (the precondition)
#[verifier::external_body]
pub fn bsearch_by_first<A, B, C>(v: &Vec<(A, B, C)>, k: &A) -> (r: core::result::Result<usize, usize>)
    requires sorted_by_first(v@),
    ensures match r { Ok(i) => i < v@.len() && v@[i as int].0 == *k && v@.contains(v@[i as int]), Err(_) => forall|x: (A, B, C)| #[trigger] v@.contains(x) ==> x.0 != *k }
{ unimplemented!() }
// ---- std::time: one reading of the clock as whole seconds since the epoch, or an error for a clock set before 1970 (TRUSTED) ----
pub uninterp spec fn clock_secs() -> u64;
pub uninterp spec fn clock_before_epoch() -> bool;
pub struct SystemTime { pub s: u64, pub before_epoch: bool }
pub struct EpochMark { pub e: u8 }
pub const UNIX_EPOCH: EpochMark = EpochMark { e: 0 };
pub struct StdDuration { pub secs: u64 }
pub struct SystemTimeError { pub e: u8 }
impl SystemTime {
    #[verifier::external_body]
    pub fn now() -> (r: SystemTime) ensures r.s == clock_secs(), r.before_epoch == clock_before_epoch() { unimplemented!() }
    pub fn duration_since(&self, _e: EpochMark) -> (r: core::result::Result<StdDuration, SystemTimeError>)
        ensures match r { Ok(d) => !self.before_epoch && d.secs == self.s, Err(_) => self.before_epoch }
    { if self.before_epoch { Err(SystemTimeError { e: 0 }) } else { Ok(StdDuration { secs: self.s }) } }
}
impl StdDuration { pub fn as_secs(&self) -> (r: u64) ensures r == self.secs { self.secs } }
pub assume_specification<T, E> [core::result::Result::<T, E>::unwrap_or] (r: core::result::Result<T, E>, d: T) -> (o: T)
    ensures o == (match r { Ok(v) => v, Err(_) => d });
/// rule R36: a HashSet consumed by a `for` loop: every element once, in an unspecified order (TRUSTED stand-in of HashSet::into_iter)
#[verifier::external_body]
pub fn hashset_into_vec(s: HashSet<Uuid>) -> (r: Vec<Uuid>)
    ensures r@.no_duplicates(), forall|x: Uuid| #![trigger r@.contains(x)] r@.contains(x) <==> s@.contains(x)
{ unimplemented!() }
/// a Vec of 40-byte elements never holds more than isize::MAX / 40 of them (std: allocations are at most isize::MAX bytes)
pub axiom fn axiom_version_list_len(v: &Vec<(Uuid, Uuid, u64)>)
    ensures v@.len() < usize::MAX;
// ---- rule R32i: `format!("v-{}-", id.as_simple())`: the literal, the Display text of the value, the literal (what format! means for this shape).
// ---- The simple (32 hex digits) text of a version id has a fixed width, so "v-" + text(p) + "-" is a prefix of v-P'-C exactly if P' == P (TRUSTED)
pub struct UuidSimple { pub u: Uuid }
impl Uuid {
    pub fn as_simple(&self) -> (r: UuidSimple) ensures r.u == *self { UuidSimple { u: *self } }
}
pub uninterp spec fn simple_text(u: Uuid) -> Seq<char>;
#[verifier::external_body]
pub fn fmt_infixed(pre: &str, x: &UuidSimple, suf: &str) -> (r: String)
    ensures r@ == pre@ + simple_text(x.u) + suf@
{ unimplemented!() }
pub axiom fn axiom_version_prefix(p: Uuid, p2: Uuid, c: Uuid)
    ensures ("v-"@ + simple_text(p) + "-"@).is_prefix_of(vname(p2, c)) <==> p == p2;
/// the bucket holds no foreign object whose name starts like a snapshot's: hypothesis of "no snapshot is reported only if there is none"
pub open spec fn own_s_names(s: Store) -> bool { forall|n: Seq<char>| #![trigger s.dom().contains(n)] s.dom().contains(n) && "s-"@.is_prefix_of(n) ==> exists|v: Uuid| n == #[trigger] sname(v) }
