// ================================================================================================
// A11 (TRUSTED): the object-store `Service` as the CloudServer sees it (src/server/cloud/service.rs), sequentially:
// one client, no request of another client in between.  A failed request may or may not have been carried out.
// Object names: `v-PARENT-CHILD`, `s-VERSION`, `latest`, `salt` are modelled by injective uninterpreted functions
// (the real ones are format!/hex code outside the verifier's reach, hashed by //@watch).
// ================================================================================================
pub type Store = Map<Seq<char>, Seq<u8>>;
pub uninterp spec fn vname(p: Uuid, c: Uuid) -> Seq<char>;
pub uninterp spec fn sname(v: Uuid) -> Seq<char>;
/// `version_to_bytes`: the simple (hex, no hyphens) rendering as bytes; `try_parse_ascii` reads it back
pub uninterp spec fn vbytes(v: Uuid) -> Seq<u8>;
pub uninterp spec fn parse_vbytes(b: Seq<u8>) -> Option<Uuid>;
pub open spec fn latest_name() -> Seq<char> { "latest"@ }
pub axiom fn axiom_names(p: Uuid, c: Uuid, p2: Uuid, c2: Uuid)
    ensures
        vname(p, c) == vname(p2, c2) ==> p == p2 && c == c2,
        sname(p) == sname(p2) ==> p == p2,
        vname(p, c) != latest_name(), sname(p) != latest_name(), vname(p, c) != sname(p2),
        vname(p, c) != "salt"@, sname(p) != "salt"@,
        parse_vbytes(vbytes(p)) == Some(p);
/// the committed latest version: the parsed content of `latest`, if that object exists and is readable
pub open spec fn latest_of(s: Store) -> Option<Uuid> {
    if s.dom().contains(latest_name()) { parse_vbytes(s[latest_name()]) } else { None }
}
pub struct ObjectInfo { pub name: String, pub creation: u64 }
pub trait Service {
    spec fn objs(&self) -> Store;
    fn put(&mut self, name: &str, value: &[u8]) -> (r: Result<()>)
        ensures r is Ok ==> final(self).objs() == old(self).objs().insert(name@, value@),
            r is Err ==> final(self).objs() == old(self).objs() || final(self).objs() == old(self).objs().insert(name@, value@);
    fn get(&mut self, name: &str) -> (r: Result<Option<Vec<u8>>>)
        ensures final(self).objs() == old(self).objs(),
            r matches Ok(Some(v)) ==> old(self).objs().dom().contains(name@) && v@ == old(self).objs()[name@],
            r matches Ok(None) ==> !old(self).objs().dom().contains(name@);
    fn del(&mut self, name: &str) -> (r: Result<()>)
        ensures r is Ok ==> final(self).objs() == old(self).objs().remove(name@),
            r is Err ==> final(self).objs() == old(self).objs() || final(self).objs() == old(self).objs().remove(name@);
    /// "Compare the existing object's value with `existing_value`, and replace with `new_value` only if the values match.
    /// Returns true if the object was updated"; `None` stands for "no such object"
    fn compare_and_swap(&mut self, name: &str, existing_value: Option<Vec<u8>>, new_value: Vec<u8>) -> (r: Result<bool>)
        ensures
            ({ let cur = if old(self).objs().dom().contains(name@) { Some(old(self).objs()[name@]) } else { None::<Seq<u8>> };
               let want = match existing_value { Some(v) => Some(v@), None => None::<Seq<u8>> };
               match r {
                   Ok(true) => cur == want && final(self).objs() == old(self).objs().insert(name@, new_value@),
                   Ok(false) => cur != want && final(self).objs() == old(self).objs(),
                   Err(_) => final(self).objs() == old(self).objs() || (cur == want && final(self).objs() == old(self).objs().insert(name@, new_value@)),
               } });
}
impl Uuid {
    /// uuid::Uuid::try_parse_ascii
    #[verifier::external_body]
    pub fn try_parse_ascii(b: &[u8]) -> (r: core::result::Result<Uuid, UuidAsciiError>)
        ensures match r { Ok(u) => parse_vbytes(b@) == Some(u), Err(_) => parse_vbytes(b@) is None }
    { unimplemented!() }
}
pub struct UuidAsciiError { pub e: u8 }
/// rule R16 rewrites `E.into()` to `into_conv(E)`; here: error texts, and `Unsealed -> Vec<u8>` (its payload, src/server/encryption.rs)
#[verifier::external_body]
pub fn into_conv<T, U: From<T>>(x: T) -> (r: U)
    ensures <U as vstd::std_specs::convert::FromSpec<T>>::obeys_from_spec() ==> r == <U as vstd::std_specs::convert::FromSpec<T>>::from_spec(x)
{ x.into() }
/// `Vec<u8>` as the salt of a Cryptor: `AsRef<[u8]>` yields its bytes (std)
pub axiom fn axiom_vec_as_ref_bytes(v: &Vec<u8>)
    ensures as_ref_bytes::<Vec<u8>>(v) == v@;
