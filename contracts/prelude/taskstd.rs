// ---- A4/A9 (TRUSTED): small std / chrono / strum stand-ins used by src/task ---------------------------------------
pub mod axs {
use vstd::prelude::*;
use vstd::std_specs::convert::IntoSpec;
use vstd::std_specs::cmp::PartialEqSpec;
/// `&str -> String` (`.into()`) keeps the characters
pub broadcast axiom fn axiom_str_into_string(s: &str)
    ensures (#[trigger] <&str as IntoSpec<String>>::into_spec(s))@ == s@;
pub broadcast axiom fn axiom_str_into_string_obeys()
    ensures #[trigger] <&str as IntoSpec<String>>::obeys_into_spec();
/// `String -> String` (`.into()`) is the identity
pub broadcast axiom fn axiom_string_into_string(s: String)
    ensures (#[trigger] <String as IntoSpec<String>>::into_spec(s)) == s;
pub broadcast axiom fn axiom_string_into_string_obeys()
    ensures #[trigger] <String as IntoSpec<String>>::obeys_into_spec();
/// `String::from(&str)` keeps the characters
pub broadcast axiom fn axiom_string_from_str(s: &str)
    ensures (#[trigger] <String as vstd::std_specs::convert::FromSpec<&str>>::from_spec(s))@ == s@;
pub broadcast axiom fn axiom_string_from_str_obeys()
    ensures #[trigger] <String as vstd::std_specs::convert::FromSpec<&str>>::obeys_from_spec();
/// `String == str` compares the characters
pub broadcast axiom fn axiom_string_str_eq(a: String, b: &str)
    ensures #[trigger] <String as PartialEqSpec<str>>::eq_spec(&a, b) == (a@ == b@);
pub broadcast axiom fn axiom_string_str_eq_obeys()
    ensures #[trigger] <String as PartialEqSpec<str>>::obeys_eq_spec();
}
pub assume_specification[ <String as core::convert::AsRef<str>>::as_ref ](s: &String) -> (r: &str)
    ensures r@ == s@;
impl<Tz> DateTime<Tz> {
    /// seconds since the epoch; the text it is rendered to is irrelevant to the properties (opaque)
    #[verifier::external_body]
    pub fn timestamp(&self) -> (r: i64) { unimplemented!() }
}
/// std::sync::Arc and the replica's dependency map: carried along, never inspected by the functions under contract
pub struct DependencyMap { pub x: u8 }
pub use std::sync::Arc;
