// ---- A4/A9 (TRUSTED): small std / chrono / strum stand-ins used by src/task ---------------------------------------
pub mod axs {
use vstd::prelude::*;
use vstd::std_specs::convert::IntoSpec;
use vstd::std_specs::cmp::PartialEqSpec;
/// `&str -> String` (`.into()`) keeps the characters
pub broadcast axiom fn axiom_str_into_string(s: &str)
    ensures (#[trigger] <&str as IntoSpec<String>>::into_spec(s))@ == s@;
pub broadcast axiom fn axiom_str_into_string_obeys()
    ensures #[trigger] <&str as IntoSpec<String>>::obeys_into_spec();
/// `String -> String` (`.into()`) is the identity
pub broadcast axiom fn axiom_string_into_string(s: String)
    ensures (#[trigger] <String as IntoSpec<String>>::into_spec(s)) == s;
pub broadcast axiom fn axiom_string_into_string_obeys()
    ensures #[trigger] <String as IntoSpec<String>>::obeys_into_spec();
/// `String::from(&str)` keeps the characters
pub broadcast axiom fn axiom_string_from_str(s: &str)
    ensures (#[trigger] <String as vstd::std_specs::convert::FromSpec<&str>>::from_spec(s))@ == s@;
pub broadcast axiom fn axiom_string_from_str_obeys()
    ensures #[trigger] <String as vstd::std_specs::convert::FromSpec<&str>>::obeys_from_spec();
/// `String == str` compares the characters
pub broadcast axiom fn axiom_string_str_eq(a: String, b: &str)
    ensures #[trigger] <String as PartialEqSpec<str>>::eq_spec(&a, b) == (a@ == b@);
pub broadcast axiom fn axiom_string_str_eq_obeys()
    ensures #[trigger] <String as PartialEqSpec<str>>::obeys_eq_spec();
}
pub assume_specification[ <String as core::convert::AsRef<str>>::as_ref ](s: &String) -> (r: &str)
    ensures r@ == s@;
impl<Tz> DateTime<Tz> {
    /// whole seconds since the epoch (rounded down)
    #[verifier::external_body]
    pub fn timestamp(&self) -> (r: i64)
        ensures r as int == self.t as int / 1_000_000_000
    { unimplemented!() }
}
/// std::sync::Arc
pub use std::sync::Arc;
/// `str::parse::<F>()` (TRUSTED: total -- it returns Err for anything it cannot read -- and a function of the characters)
#[verifier::external_type_specification]
#[verifier::external_body]
pub struct ExParseIntError(core::num::ParseIntError);
#[verifier::external_trait_specification]
pub trait ExFromStr: Sized {
    type ExternalTraitSpecificationFor: core::str::FromStr;
    type Err;
    fn from_str(s: &str) -> core::result::Result<Self, Self::Err>;
}
pub uninterp spec fn parse_spec<F>(s: Seq<char>) -> Option<F>;
pub assume_specification<F: core::str::FromStr>[ str::parse::<F> ](s: &str) -> (r: core::result::Result<F, <F as core::str::FromStr>::Err>)
    ensures match r { Ok(v) => parse_spec::<F>(s@) == Some(v), Err(_) => parse_spec::<F>(s@) is None };
/// `Option::is_some_and`, `Result::is_ok_and`: the closure is called on the contained value, if any
pub assume_specification<T, F: FnOnce(T) -> bool>[ Option::<T>::is_some_and ](o: Option<T>, f: F) -> (r: bool)
    requires o matches Some(x) ==> f.requires((x,)),
    ensures match o { Some(x) => f.ensures((x,), r), None => !r };
pub assume_specification<T, E, F: FnOnce(T) -> bool>[ core::result::Result::<T, E>::is_ok_and ](o: core::result::Result<T, E>, f: F) -> (r: bool)
    requires o matches Ok(x) ==> f.requires((x,)),
    ensures match o { Ok(x) => f.ensures((x,), r), Err(_) => !r };
// ---- chrono (TRUSTED stand-ins, A2): DateTime<Utc> is a count `t` of nanoseconds since the epoch ---------------------------------
pub struct Duration { pub secs: i64 }
impl Duration {
    /// chrono::TimeDelta::days: panics only when days * 86400 seconds overflow the representable range
    #[verifier::external_body]
    pub fn days(days: i64) -> (r: Duration)
        requires -100_000_000 <= days <= 100_000_000
        ensures r.secs == days * 86400
    { unimplemented!() }
}
pub const CHRONO_MIN_SECS: i64 = -8334601228800;
pub const CHRONO_MAX_SECS: i64 = 8210266876799;
impl<Tz> vstd::std_specs::ops::SubSpecImpl<Duration> for DateTime<Tz> {
    open spec fn obeys_sub_spec() -> bool { true }
    /// chrono panics ("`DateTime - TimeDelta` overflowed") outside its range
    open spec fn sub_req(self, d: Duration) -> bool { self.t - d.secs * 1_000_000_000 >= CHRONO_MIN_SECS * 1_000_000_000 && self.t - d.secs * 1_000_000_000 <= CHRONO_MAX_SECS * 1_000_000_000 }
    open spec fn sub_spec(self, d: Duration) -> DateTime<Tz> { DateTime { t: (self.t - d.secs * 1_000_000_000) as i128, tz: self.tz } }
}
impl<Tz> core::ops::Sub<Duration> for DateTime<Tz> {
    type Output = DateTime<Tz>;
    #[verifier::external_body]
    fn sub(self, d: Duration) -> (r: DateTime<Tz>) { unimplemented!() }
}
impl DateTime<Utc> {
    /// chrono::DateTime::from_timestamp: Some exactly for seconds within chrono's range (the bounds Kani checks on the real crate
    /// for src/task/time.rs), with the sub-second part as given
    #[verifier::external_body]
    pub fn from_timestamp(secs: i64, nsecs: u32) -> (r: Option<DateTime<Utc>>)
        ensures nsecs == 0 ==> ((r is Some) == (CHRONO_MIN_SECS <= secs <= CHRONO_MAX_SECS)) && (r matches Some(d) ==> d.t == secs * 1_000_000_000),
    { unimplemented!() }
}
/// `str::strip_prefix` with a string pattern
pub open spec fn strip_prefix_spec(k: Seq<char>, pre: Seq<char>) -> Option<Seq<char>> {
    if k.len() >= pre.len() && k.take(pre.len() as int) == pre { Some(k.skip(pre.len() as int)) } else { None }
}
/// `str::strip_prefix` (generic over the unstable Pattern trait); for a string pattern it is strip_prefix_spec
pub uninterp spec fn pat_strip<P>(s: Seq<char>, p: P) -> Option<Seq<char>>;
#[verifier::allow(undeclared_external_trait)]
pub assume_specification<'a, P: core::str::pattern::Pattern>[ str::strip_prefix::<P> ](s: &'a str, p: P) -> (r: Option<&'a str>)
    ensures match r { Some(t) => pat_strip::<P>(s@, p) == Some(t@), None => pat_strip::<P>(s@, p) is None };
pub axiom fn axiom_str_strip(s: Seq<char>, p: &str)
    ensures pat_strip::<&str>(s, p) == strip_prefix_spec(s, p@);
/// every key once, in unspecified order
pub open spec fn keys_listed(m: TaskMapS, r: Seq<&String>) -> bool {
    &&& forall|i: int| 0 <= i < r.len() ==> m.dom().contains((#[trigger] r[i])@)
    &&& forall|k: Seq<char>| m.dom().contains(k) ==> exists|i: int| 0 <= i < r.len() && (#[trigger] r[i])@ == k
}
impl TaskMap {
    /// `HashMap::keys()` consumed by a `for` loop
    #[verifier::external_body]
    pub fn keys(&self) -> (r: Vec<&String>) ensures keys_listed(self@, r@) { unimplemented!() }
}
// ---- Display texts used as property keys (rule R32: `format!("LIT{x}")` = the literal followed by the Display text of x) ----------
/// the text `Display` renders (TRUSTED per implementing type; the Display impls of Uuid/Tag/i64/String are not verified)
pub trait DisplayText { spec fn display_text(&self) -> Seq<char>; }
impl DisplayText for String { open spec fn display_text(&self) -> Seq<char> { self@ } }
impl DisplayText for str { open spec fn display_text(&self) -> Seq<char> { self@ } }
impl DisplayText for Uuid { open spec fn display_text(&self) -> Seq<char> { uuid_text(*self) } }
pub uninterp spec fn int_text(i: int) -> Seq<char>;
impl DisplayText for i64 { open spec fn display_text(&self) -> Seq<char> { int_text(*self as int) } }
impl<T: DisplayText + ?Sized> DisplayText for &T { open spec fn display_text(&self) -> Seq<char> { (**self).display_text() } }
#[verifier::external_body]
pub fn fmt_prefixed<T: DisplayText + ?Sized>(lit: &str, x: &T) -> (r: String)
    ensures r@ == lit@ + x.display_text()
{ unimplemented!() }
/// `str::starts_with` (generic over the unstable Pattern trait); for a string pattern it is "has this prefix"
pub uninterp spec fn pat_prefix<P>(s: Seq<char>, p: P) -> bool;
#[verifier::allow(undeclared_external_trait)]
pub assume_specification<'a, P: core::str::pattern::Pattern>[ str::starts_with::<P> ](s: &'a str, p: P) -> (r: bool)
    ensures r == pat_prefix::<P>(s@, p);
pub open spec fn has_prefix(k: Seq<char>, pre: Seq<char>) -> bool { k.len() >= pre.len() && k.take(pre.len() as int) == pre }
pub axiom fn axiom_str_pat(s: Seq<char>, p: &str)
    ensures pat_prefix::<&str>(s, p) == has_prefix(s, p@);
