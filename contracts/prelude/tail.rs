} // verus!
fn main() {}
