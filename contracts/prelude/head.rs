// ================================================================================================
// PRELUDE (assumptions A1-A4): stand-ins for dependency types.  Everything in here is TRUSTED, not proved.
// The mechanical scan (`vf scan`) lists each `external_body` / `assume_specification` / `axiom` by name.
// ================================================================================================
#![feature(allocator_api)]
#![feature(sized_hierarchy)]
#![feature(pattern)]
#![allow(unused_imports, unused_variables, dead_code, unused_mut, unused_assignments, non_snake_case, unused_parens, unreachable_code, unreachable_patterns)]
use vstd::prelude::*;
use vstd::std_specs::cmp::PartialEqSpec;
#[allow(unused_imports)]
use std::collections::{HashMap, HashSet};
#[allow(unused_imports)]
use std::collections::hash_map::Entry;
verus! {

pub mod ax {
use vstd::prelude::*;
use vstd::std_specs::cmp::PartialEqSpec;
// A3: String equality compares the character sequences; to_string/clone preserve them.
pub broadcast axiom fn axiom_string_eq_spec(a: String, b: String)
    ensures #[trigger] a.eq_spec(&b) == (a@ == b@);
pub broadcast axiom fn axiom_string_obeys_eq()
    ensures #[trigger] <String as PartialEqSpec>::obeys_eq_spec();
pub broadcast axiom fn axiom_string_to_string(s: &String, r: String)
    ensures #[trigger] vstd::string::to_string_from_display_ensures::<String>(s, r) ==> r@ == s@;
// a String is determined by its character sequence
pub broadcast axiom fn axiom_string_view_injective(a: String, b: String)
    ensures #[trigger] a@ == #[trigger] b@ ==> a == b;
// a string slice is determined by its character sequence (what a string-literal pattern compares)
pub broadcast axiom fn axiom_str_view_injective(a: &str, b: &str)
    ensures #[trigger] a@ == #[trigger] b@ ==> a == b;
}
// (each unit file has its one module-level `broadcast use`)

// ---- A1: uuid::Uuid -- an opaque Copy value with structural equality -----------------------------
#[derive(PartialEq, Eq, Clone, Copy, Debug, Hash)]
pub struct Uuid(pub u128);
impl vstd::std_specs::cmp::PartialEqSpecImpl for Uuid {
    open spec fn obeys_eq_spec() -> bool { true }
    open spec fn eq_spec(&self, other: &Self) -> bool { *self == *other }
}
impl Uuid {
    pub open spec fn nil_spec() -> Uuid { Uuid(0) }
    #[verifier::when_used_as_spec(nil_spec)]
    pub const fn nil() -> (r: Uuid) ensures r == Uuid::nil_spec() { Uuid(0) }
    #[verifier::external_body]
    pub fn new_v4() -> (r: Uuid) { unimplemented!() }
}

// ---- A2: chrono::DateTime<Utc> -- an opaque value with a strict total order ------------------------
#[derive(PartialEq, Eq, Clone, Copy, Debug)]
pub struct Utc;
#[derive(Eq, Clone, Copy, Debug)]
pub struct DateTime<Tz> { pub t: i128, pub tz: core::marker::PhantomData<Tz> }
impl<Tz> PartialEq for DateTime<Tz> {
    fn eq(&self, other: &Self) -> (r: bool) { self.t == other.t }
}
impl<Tz> vstd::std_specs::cmp::PartialEqSpecImpl for DateTime<Tz> {
    open spec fn obeys_eq_spec() -> bool { true }
    open spec fn eq_spec(&self, other: &Self) -> bool { self.t == other.t }
}
impl<Tz> PartialOrd for DateTime<Tz> {
    fn partial_cmp(&self, other: &Self) -> (r: Option<core::cmp::Ordering>) { self.t.partial_cmp(&other.t) }
}
impl<Tz> vstd::std_specs::cmp::PartialOrdSpecImpl for DateTime<Tz> {
    open spec fn obeys_partial_cmp_spec() -> bool { true }
    open spec fn partial_cmp_spec(&self, other: &Self) -> Option<core::cmp::Ordering> {
        if self.t < other.t { Some(core::cmp::Ordering::Less) }
        else if self.t == other.t { Some(core::cmp::Ordering::Equal) }
        else { Some(core::cmp::Ordering::Greater) }
    }
}
/// "now": the moment of the call, one value per verified function (an idealisation: no contract compares two readings of the
/// clock); the system clock is past 1970 and far inside chrono's range
pub uninterp spec fn the_clock() -> int;
impl Utc {
    #[verifier::external_body]
    pub fn now() -> (r: DateTime<Utc>)
        ensures r.t == the_clock(), 0 <= the_clock() < 8_000_000_000_000_000_000_000
    { unimplemented!() }
}

// ---- A3: TaskMap = HashMap<String, String> -- a finite map from strings to strings -----------------
pub type TaskMapS = Map<Seq<char>, Seq<char>>;
pub type State = Map<Uuid, TaskMapS>;

pub mod tmod {
use vstd::prelude::*;
pub type TaskMapS = Map<Seq<char>, Seq<char>>;
#[verifier::external_body]
pub struct TaskMap { inner: std::collections::HashMap<String, String> }

impl View for TaskMap {
    type V = TaskMapS;
    uninterp spec fn view(&self) -> TaskMapS;
}
// a TaskMap is determined by its contents
pub broadcast axiom fn axiom_taskmap_view_injective(a: TaskMap, b: TaskMap)
    ensures #[trigger] a@ == #[trigger] b@ ==> a == b;
}
pub use tmod::TaskMap;
impl TaskMap {
    #[verifier::external_body]
    pub fn new() -> (r: Self) ensures r@ == Map::<Seq<char>, Seq<char>>::empty() { unimplemented!() }
    #[verifier::external_body]
    pub fn insert(&mut self, k: String, v: String) -> (r: Option<String>)
        ensures final(self)@ == old(self)@.insert(k@, v@),
            match r { Some(o) => old(self)@.dom().contains(k@) && o@ == old(self)@[k@], None => !old(self)@.dom().contains(k@) },
    { unimplemented!() }
    #[verifier::external_body]
    pub fn remove(&mut self, k: &String) -> (r: Option<String>)
        ensures final(self)@ == old(self)@.remove(k@),
            match r { Some(o) => old(self)@.dom().contains(k@) && o@ == old(self)@[k@], None => !old(self)@.dom().contains(k@) },
    { unimplemented!() }
    #[verifier::external_body]
    pub fn get<Q: StrKey + ?Sized>(&self, k: &Q) -> (r: Option<&String>)
        ensures match r { Some(v) => self@.dom().contains(k.key_view()) && v@ == self@[k.key_view()], None => !self@.dom().contains(k.key_view()) }
    { unimplemented!() }
    #[verifier::external_body]
    pub fn is_empty(&self) -> (r: bool) ensures r == (self@.dom() =~= Set::<Seq<char>>::empty()) { unimplemented!() }
    #[verifier::external_body]
    pub fn len(&self) -> (r: usize) ensures r == self@.dom().len() { unimplemented!() }
    #[verifier::external_body]
    pub fn contains_key<Q: StrKey + ?Sized>(&self, k: &Q) -> (r: bool)
        ensures r == self@.dom().contains(k.key_view())
    { unimplemented!() }
}
/// HashMap<String, _> lookups accept `&String` and `&str` keys (Borrow<str>): both name the same character sequence
pub trait StrKey { spec fn key_view(&self) -> Seq<char>; }
impl StrKey for String { open spec fn key_view(&self) -> Seq<char> { self@ } }
impl StrKey for str { open spec fn key_view(&self) -> Seq<char> { self@ } }
impl Default for TaskMap {
    #[verifier::external_body]
    fn default() -> (r: Self) ensures r@ == Map::<Seq<char>, Seq<char>>::empty() { unimplemented!() }
}
impl Clone for TaskMap {
    #[verifier::external_body]
    fn clone(&self) -> (r: Self) ensures r@ == self@ { unimplemented!() }
}
impl Eq for TaskMap {}
impl PartialEq for TaskMap {
    #[verifier::external_body]
    fn eq(&self, other: &Self) -> (r: bool) ensures r == (self@ == other@) { unimplemented!() }
}
/// all pairs of a map, in unspecified order, each key once
pub open spec fn drained(old: TaskMapS, r: Seq<(String, String)>) -> bool {
    &&& forall|i: int| 0 <= i < r.len() ==> old.dom().contains((#[trigger] r[i]).0@) && old[r[i].0@] == r[i].1@
    &&& forall|k: Seq<char>| old.dom().contains(k) ==> exists|i: int| 0 <= i < r.len() && (#[trigger] r[i]).0@ == k
    &&& forall|i: int, j: int| 0 <= i < j < r.len() ==> (#[trigger] r[i]).0@ != (#[trigger] r[j]).0@
}
/// `TaskMap::drain()` (rule R5): all pairs, in unspecified order, each key once; the map is left empty.
#[verifier::external_body]
pub fn drain_map(m: &mut TaskMap) -> (r: Vec<(String, String)>)
    ensures final(m)@ == Map::<Seq<char>, Seq<char>>::empty(), drained(old(m)@, r@),
{ unimplemented!() }

// ---- A4: std helpers vstd lacks ----------------------------------------------------------------------
pub assume_specification<T: Clone>[ <[T]>::to_vec ](s: &[T]) -> (r: Vec<T>)
    ensures r@ == s@;
pub assume_specification<T, A: std::alloc::Allocator>[ <std::vec::Vec<T, A> as std::convert::AsRef<[T]>>::as_ref ](v: &std::vec::Vec<T, A>) -> (r: &[T])
    ensures r@ == v@;
pub assume_specification<T, A: std::alloc::Allocator>[ <std::vec::Vec<T, A> as std::convert::AsMut<[T]>>::as_mut ](v: &mut std::vec::Vec<T, A>) -> (r: &mut [T])
    ensures r@ == old(v)@, final(r)@ == final(v)@;
// the AsRef trait itself (generic callers).  TRUSTED: `as_ref` is a function of the value -- the bytes a value converts to
// are determined by the value (`as_ref_bytes`), so "same salt" means "same bytes"
pub mod axr {
use vstd::prelude::*;
pub uninterp spec fn as_ref_rel<S: core::marker::PointeeSized, T: core::marker::PointeeSized>(s: &S, r: &T) -> bool;
pub uninterp spec fn as_ref_bytes<S: core::marker::PointeeSized>(s: &S) -> Seq<u8>;
pub broadcast axiom fn axiom_as_ref_bytes<S: core::marker::PointeeSized>(s: &S, r: &[u8])
    ensures #[trigger] as_ref_rel::<S, [u8]>(s, r) ==> r@ == as_ref_bytes(s);
/// the same for `AsRef<str>`: the characters a value converts to are determined by the value; a string converts to itself
pub uninterp spec fn as_ref_chars<S: core::marker::PointeeSized>(s: &S) -> Seq<char>;
pub broadcast axiom fn axiom_as_ref_chars<S: core::marker::PointeeSized>(s: &S, r: &str)
    ensures #[trigger] as_ref_rel::<S, str>(s, r) ==> r@ == as_ref_chars(s);
pub broadcast axiom fn axiom_as_ref_chars_str(s: &&str)
    ensures #[trigger] as_ref_chars::<&str>(s) == (*s)@;
pub broadcast axiom fn axiom_as_ref_chars_string(s: &String)
    ensures #[trigger] as_ref_chars::<String>(s) == s@;
pub broadcast axiom fn axiom_as_ref_chars_string_ref(s: &&String)
    ensures #[trigger] as_ref_chars::<&String>(s) == (*s)@;
}
pub use axr::{as_ref_rel, as_ref_bytes, as_ref_chars};
#[verifier::external_trait_specification]
pub trait ExAsRef<T: core::marker::PointeeSized>: core::marker::PointeeSized {
    type ExternalTraitSpecificationFor: core::convert::AsRef<T> + core::marker::PointeeSized;
    fn as_ref(&self) -> (r: &T)
        ensures as_ref_rel(self, r);
}
pub assume_specification<T>[ std::option::Option::<std::option::Option<T>>::flatten ](o: Option<Option<T>>) -> (r: Option<T>)
    ensures r == (match o { Some(Some(x)) => Some(x), _ => None::<T> });
pub assume_specification<'a, T: Copy>[ std::option::Option::<&'a T>::copied ](o: Option<&'a T>) -> (r: Option<T>)
    ensures r == (match o { Some(x) => Some(*x), None => None::<T> });
/// `Vec::retain`: what remains was there before, in the same order (which elements stay is the closure's business and is not specified)
pub assume_specification<T, A: std::alloc::Allocator, F: FnMut(&T) -> bool>[ std::vec::Vec::<T, A>::retain ](v: &mut std::vec::Vec<T, A>, f: F)
    ensures final(v)@.len() <= old(v)@.len(),
        forall|i: int| 0 <= i < final(v)@.len() ==> old(v)@.contains(#[trigger] final(v)@[i]);
/// `Vec::dedup`: consecutive repeats are removed -- the same elements remain, no more of them than before, and no two neighbours
/// are equal (stated for element types whose `==` is structural equality)
pub assume_specification<T: PartialEq, A: std::alloc::Allocator>[ std::vec::Vec::<T, A>::dedup ](v: &mut std::vec::Vec<T, A>)
    ensures final(v)@.len() <= old(v)@.len(),
        forall|x: T| final(v)@.contains(x) <==> old(v)@.contains(x),
        forall|i: int| 0 <= i < final(v)@.len() - 1 ==> (#[trigger] final(v)@[i]) != final(v)@[i + 1];
pub assume_specification<T: Default>[ core::mem::take::<T> ](dest: &mut T) -> (r: T)
    ensures r == *old(dest), call_ensures(T::default, (), *final(dest));
pub assume_specification<T>[ <[T]>::reverse ](s: &mut [T])
    ensures final(s)@ == old(s)@.reverse();
pub assume_specification<'a, T: PartialEq<U>, U, A: std::alloc::Allocator>[ <&'a [T] as PartialEq<Vec<U, A>>>::eq ](a: &&'a [T], b: &Vec<U, A>) -> (r: bool)
    ensures <T as vstd::std_specs::cmp::PartialEqSpec<U>>::obeys_eq_spec() ==> r == (a@.len() == b@.len() && forall|i: int| 0 <= i < a@.len() ==> (#[trigger] a@[i]).eq_spec(&b@[i]));
/// rule R3: the text of a `format!` only ever flows into error payloads / log lines
#[verifier::external_body]
pub fn opaque_string() -> String { String::new() }

/// rule R20: `E.iter().enumerate().rev().find(|(_, x)| x.m()).map(|(i, _)| i)`: the index of the last element satisfying m (TRUSTED)
#[verifier::external_body]
pub fn rposition_by<T, F: Fn(&T) -> bool>(v: &Vec<T>, f: F) -> (r: Option<usize>)
    requires forall|x: &T| #[trigger] f.requires((x,)),
    ensures match r {
        Some(i) => i < v@.len() && f.ensures((&v@[i as int],), true) && forall|j: int| i < j < v@.len() ==> f.ensures((&#[trigger] v@[j],), false),
        None => forall|j: int| 0 <= j < v@.len() ==> f.ensures((&#[trigger] v@[j],), false),
    }
{ unimplemented!() }
/// rule R25: `v.extend(other)` with a Vec argument appends its elements in order
pub fn vec_extend<T>(v: &mut Vec<T>, other: Vec<T>)
    ensures final(v)@ == old(v)@ + other@
{
    let mut other = other;
    v.append(&mut other);
}
/// rule R5: `v.drain(..)` consumed by a `for` loop: yields the old contents and leaves `v` empty
#[verifier::external_body]
pub fn drain_all<T>(v: &mut Vec<T>) -> (r: Vec<T>)
    ensures r@ == old(v)@, final(v)@ == Seq::<T>::empty()
{ v.drain(..).collect() }

/// rule R5 with `drain=drain_hashmap`: `m.drain()` on a std HashMap consumed by a loop: every entry once, in unspecified order
pub open spec fn hash_drained<K, V>(old: Map<K, V>, r: Seq<(K, V)>) -> bool {
    &&& forall|i: int| 0 <= i < r.len() ==> old.dom().contains((#[trigger] r[i]).0) && old[r[i].0] == r[i].1
    &&& forall|k: K| old.dom().contains(k) ==> exists|i: int| 0 <= i < r.len() && (#[trigger] r[i]).0 == k
    &&& forall|i: int, j: int| 0 <= i < j < r.len() ==> #[trigger] keys_differ(r, i, j)
}
/// (a named atom, so that the pairwise clause is instantiated only where a proof asks for it)
pub open spec fn keys_differ<K, V>(r: Seq<(K, V)>, i: int, j: int) -> bool { r[i].0 != r[j].0 }
#[verifier::external_body]
pub fn drain_hashmap<K, V>(m: &mut std::collections::HashMap<K, V>) -> (r: Vec<(K, V)>)
    ensures hash_drained(old(m)@, r@), final(m)@ == Map::<K, V>::empty()
{ m.drain().collect() }

pub mod anyhow {
    #[allow(unused_imports)]
    use vstd::prelude::*;
    verus! {
    #[verifier::external_body]
    pub struct Error { e: () }
    }
}
/// rule R21: `.map_err(|e| anyhow::anyhow!(..))` only decorates the error value
#[verifier::external_body]
pub fn opaque_anyhow<E>(e: E) -> anyhow::Error { unimplemented!() }
/// rule R3b: `anyhow::anyhow!(..)`: an error value whose text is irrelevant
#[verifier::external_body]
pub fn opaque_anyhow_val() -> anyhow::Error { unimplemented!() }
