// ---- A1 (TRUSTED): uuid::Uuid as text -- rendering and parsing are uninterpreted functions of the value / the characters ----
pub uninterp spec fn uuid_text(u: Uuid) -> Seq<char>;
pub uninterp spec fn uuid_parse(s: Seq<char>) -> Option<Uuid>;
pub struct UuidParseError { pub e: u8 }
impl Uuid {
    /// hyphenated lower-case rendering (Display)
    #[verifier::external_body]
    pub fn to_string(&self) -> (r: String) ensures r@ == uuid_text(*self) { unimplemented!() }
    #[verifier::external_body]
    pub fn parse_str(s: &str) -> (r: core::result::Result<Uuid, UuidParseError>)
        ensures match r { Ok(u) => uuid_parse(s@) == Some(u), Err(_) => uuid_parse(s@) is None }
    { unimplemented!() }
}
