//@props C07
pub proof fn lemma_delete_prefix(s: State, uuid: Uuid, pairs: Seq<(String, String)>, k: int, ops: Seq<SyncOp>)
    requires !s.dom().contains(uuid), 0 <= k <= pairs.len(), delete_shape(uuid, pairs, k, ops)
    ensures valid_seq(s, ops), apply_seq(s, ops) =~~= s.insert(uuid, pairs_map(pairs, k))
    decreases k
{
    if k == 0 {
        assert(ops.drop_last() =~= Seq::<SyncOp>::empty());
        assert(apply_seq(s, ops.drop_last()) == s);
        assert(ops.last() == ops[0]);
        assert(apply_seq(s, ops) == apply(s, ops[0]));
        assert(valid_seq(s, ops.drop_last()));
    } else {
        let prev = ops.drop_last();
        assert(delete_shape(uuid, pairs, k - 1, prev)) by {
            assert(prev[0] == ops[0]);
            assert forall|j: int| 0 <= j < k - 1 implies is_restore(#[trigger] prev[1 + j], uuid, pairs[j].0@, pairs[j].1@) by { assert(prev[1 + j] == ops[1 + j]); }
        }
        lemma_delete_prefix(s, uuid, pairs, k - 1, prev);
        let last = ops.last();
        assert(last == ops[1 + (k - 1)]);
        assert(is_restore(last, uuid, pairs[k - 1].0@, pairs[k - 1].1@));
        let mid = apply_seq(s, prev);
        assert(mid.dom().contains(uuid));
        assert(apply_seq(s, ops) == apply(mid, last));
        assert(valid(mid, last));
    }
}
pub proof fn lemma_pairs_map_all(old: TaskMapS, pairs: Seq<(String, String)>, k: int)
    requires drained(old, pairs), 0 <= k <= pairs.len()
    ensures
        forall|key: Seq<char>| #![trigger pairs_map(pairs, k).dom().contains(key)] pairs_map(pairs, k).dom().contains(key) <==> (exists|i: int| 0 <= i < k && (#[trigger] pairs[i]).0@ == key),
        forall|i: int| 0 <= i < k ==> pairs_map(pairs, k)[(#[trigger] pairs[i]).0@] == pairs[i].1@,
    decreases k
{
    if k > 0 {
        lemma_pairs_map_all(old, pairs, k - 1);
        let m = pairs_map(pairs, k);
        assert forall|key: Seq<char>| #![trigger m.dom().contains(key)] m.dom().contains(key) <==> (exists|i: int| 0 <= i < k && (#[trigger] pairs[i]).0@ == key) by {
            if m.dom().contains(key) {
                if key == pairs[k - 1].0@ { assert(pairs[k - 1].0@ == key); }
                else { assert(pairs_map(pairs, k - 1).dom().contains(key)); let i = choose|i: int| 0 <= i < k - 1 && (#[trigger] pairs[i]).0@ == key; assert(pairs[i].0@ == key); }
            }
            if exists|i: int| 0 <= i < k && (#[trigger] pairs[i]).0@ == key {
                let i = choose|i: int| 0 <= i < k && (#[trigger] pairs[i]).0@ == key;
                if i < k - 1 { assert(pairs_map(pairs, k - 1).dom().contains(key)); }
            }
        }
        assert forall|i: int| 0 <= i < k implies m[(#[trigger] pairs[i]).0@] == pairs[i].1@ by {
            if i < k - 1 { assert(pairs[i].0@ != pairs[k - 1].0@); }
        }
    }
}
/// C07: whatever has the documented shape undoes the operation exactly, in every state in which it was accurate
pub proof fn lemma_rev_shape_undoes(op: Operation, r: Seq<SyncOp>)
    requires rev_shape(op, r)
    ensures undoes(op, r)
{
    assert forall|s: State| #![trigger accurate(s, op)] accurate(s, op) implies
        valid_seq(apply_l(s, op), r) && apply_seq(apply_l(s, op), r) =~~= s by {
        let s1 = apply_l(s, op);
        match op {
            Operation::Create { uuid } => {
                assert(r.drop_last() =~= Seq::<SyncOp>::empty());
                assert(apply_seq(s1, r.drop_last()) == s1);
                assert(valid_seq(s1, r.drop_last()));
                assert(r.last() == r[0]);
                assert(apply_seq(s1, r) == apply(s1, r[0]));
            }
            Operation::Delete { uuid, old_task } => {
                let old = old_task@;
                let pairs = choose|pairs: Seq<(String, String)>| drained(old, pairs) && #[trigger] delete_shape(uuid, pairs, pairs.len() as int, r);
                lemma_delete_prefix(s1, uuid, pairs, pairs.len() as int, r);
                lemma_pairs_map_all(old, pairs, pairs.len() as int);
                let m = pairs_map(pairs, pairs.len() as int);
                assert(m =~= old) by {
                    assert forall|key: Seq<char>| m.dom().contains(key) <==> old.dom().contains(key) by {
                        if m.dom().contains(key) { let i = choose|i: int| 0 <= i < pairs.len() && (#[trigger] pairs[i]).0@ == key; assert(old.dom().contains(pairs[i].0@)); }
                        if old.dom().contains(key) { let i = choose|i: int| 0 <= i < pairs.len() && (#[trigger] pairs[i]).0@ == key; assert(pairs[i].0@ == key); }
                    }
                    assert forall|key: Seq<char>| m.dom().contains(key) implies m[key] == old[key] by {
                        let i = choose|i: int| 0 <= i < pairs.len() && (#[trigger] pairs[i]).0@ == key;
                        assert(m[pairs[i].0@] == pairs[i].1@);
                    }
                }
                assert(s1.insert(uuid, m) =~~= s);
            }
            Operation::Update { uuid, property, old_value, value, timestamp } => {
                assert(r.drop_last() =~= Seq::<SyncOp>::empty());
                assert(apply_seq(s1, r.drop_last()) == s1);
                assert(valid_seq(s1, r.drop_last()));
                assert(r.last() == r[0]);
                assert(apply_seq(s1, r) == apply(s1, r[0]));
                assert(s1.dom().contains(uuid));
                assert(apply(s1, r[0])[uuid] =~= s[uuid]);
            }
            Operation::UndoPoint => {}
        }
    }
}
pub proof fn lemma_l_take_succ(s: State, ops: Seq<Operation>, i: int)
    requires 0 <= i < ops.len()
    ensures apply_l_seq(s, ops.take(i + 1)) == apply_l(apply_l_seq(s, ops.take(i)), ops[i]),
            accurate_seq(s, ops.take(i + 1)) == (accurate_seq(s, ops.take(i)) && accurate(apply_l_seq(s, ops.take(i)), ops[i])),
{
    assert(ops.take(i + 1).drop_last() =~= ops.take(i));
}
pub proof fn lemma_accurate_take(s: State, ops: Seq<Operation>, i: int)
    requires 0 <= i <= ops.len(), accurate_seq(s, ops)
    ensures accurate_seq(s, ops.take(i))
    decreases ops.len() - i
{
    if i == ops.len() { assert(ops.take(i) =~= ops); }
    else { lemma_accurate_take(s, ops, i + 1); lemma_l_take_succ(s, ops, i); }
}
