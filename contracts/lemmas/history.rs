// ================================================================================================
// History-level lemmas, stated over the CONTRACTS of sync / commit (the replica invariant `ri`), never over bodies.
// A history is any interleaving of: a replica commits valid operations (lemma_commit_preserves_ri), another replica's
// version is accepted (lemma_ri_monotone), a replica syncs (contract of `sync`: ri is re-established with nothing
// pending).  By induction over the history every replica satisfies `ri` at all times; the lemmas below turn that
// into the statements of C01 / C02 / C04 / C12 / C20.
// ================================================================================================
//@props C01 C02
/// C01: a replica that has synchronized with nothing left to send and is at the head of the chain holds exactly
/// the replay of the server's versions
pub proof fn lemma_converged_is_replay(c: Chain, p: int, base: Uuid, tasks: State)
    requires chain_wf(c), ri(c, p, base, tasks, Seq::<SyncOp>::empty()), base == id_at(c, c.len() as int),
    ensures tasks == replay(c, c.len() as int),
{
    lemma_id_at_unique(c, p, c.len() as int);
}
/// C01: any two such replicas hold exactly the same tasks with the same properties
pub proof fn lemma_replicas_converge(c: Chain, p1: int, p2: int, base1: Uuid, base2: Uuid, t1: State, t2: State)
    requires chain_wf(c),
        ri(c, p1, base1, t1, Seq::<SyncOp>::empty()), ri(c, p2, base2, t2, Seq::<SyncOp>::empty()),
        base1 == id_at(c, c.len() as int), base2 == id_at(c, c.len() as int),
    ensures t1 == t2,
{
    lemma_converged_is_replay(c, p1, base1, t1);
    lemma_converged_is_replay(c, p2, base2, t2);
}
//@props C01 C05
/// a local commit of an operation that is valid when made preserves the replica invariant
pub proof fn lemma_commit_preserves_ri(c: Chain, p: int, base: Uuid, tasks: State, local: Seq<SyncOp>, o: SyncOp)
    requires ri(c, p, base, tasks, local), valid(tasks, o),
    ensures ri(c, p, base, apply(tasks, o), local.push(o)),
{
    lemma_apply_seq_push(replay(c, p), local, o);
}
//@props C04
/// C04: while a sync is interrupted (transaction dropped) the stored replica is unchanged, and whatever the server
/// accepted meanwhile -- including this replica's own version whose reply was lost -- only extends the chain;
/// the replica invariant still holds, so the next sync starts from its precondition
pub proof fn lemma_interrupted_sync_keeps_ri(c_before: Chain, c_after: Chain, p: int, base: Uuid, tasks: State, local: Seq<SyncOp>)
    requires prefix(c_before, c_after), ri(c_before, p, base, tasks, local),
    ensures ri(c_after, p, base, tasks, local),
{
    lemma_ri_monotone(c_before, c_after, p, base, tasks, local);
}
//@props C12
/// C12: a replica that starts from a snapshot of version k and then holds the replica invariant is indistinguishable
/// from one that replayed the whole chain: at the head both hold replay(c, len)
pub proof fn lemma_snapshot_start_equals_full_replay(c: Chain, k: int, p: int, base: Uuid, tasks_from_snapshot: State)
    requires chain_wf(c), 0 < k <= c.len(),
        // after applying the snapshot: tasks = replay(c, k), base = id_at(c, k): ri holds at k with nothing pending
        ri(c, k, id_at(c, k), replay(c, k), Seq::<SyncOp>::empty()),
        // after syncing from there
        ri(c, p, base, tasks_from_snapshot, Seq::<SyncOp>::empty()), base == id_at(c, c.len() as int),
    ensures tasks_from_snapshot == replay(c, c.len() as int),
{
    lemma_converged_is_replay(c, p, base, tasks_from_snapshot);
}
//@props C20 C03
/// C20/C03: once a task has been deleted it does not come back unless a later Create does it: valid operations
/// without a Create of u never make u exist
pub open spec fn no_create_of(ops: Seq<SyncOp>, u: Uuid) -> bool {
    forall|i: int| 0 <= i < ops.len() ==> !(#[trigger] ops[i] matches SyncOp::Create { uuid } && uuid == u)
}
pub proof fn lemma_deleted_stays_deleted(s: State, ops: Seq<SyncOp>, u: Uuid)
    requires !s.dom().contains(u), no_create_of(ops, u),
    ensures !apply_seq(s, ops).dom().contains(u),
    decreases ops.len(),
{
    if ops.len() > 0 {
        assert(no_create_of(ops.drop_last(), u)) by {
            assert forall|i: int| 0 <= i < ops.drop_last().len() implies !(#[trigger] ops.drop_last()[i] matches SyncOp::Create { uuid } && uuid == u) by {
                assert(ops.drop_last()[i] == ops[i]);
            }
        }
        lemma_deleted_stays_deleted(s, ops.drop_last(), u);
        let last = ops.last();
        assert(last == ops[ops.len() - 1]);
    }
}
/// a Delete that is valid where it is applied removes the task, whatever updates preceded it
pub proof fn lemma_delete_removes(s: State, u: Uuid)
    ensures !apply(s, SyncOp::Delete { uuid: u }).dom().contains(u)
{
}
