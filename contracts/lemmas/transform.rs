// ================================================================================================
// Lemmas over the *contract* of `transform` (the relation transform_ok), never over its body.
// ================================================================================================
//@props C01 C02 C03 C04
/// OT property TP1 + validity preservation, for every state in which both operations are valid
pub proof fn lemma_ok_tp1(s: State, o1: SyncOp, o2: SyncOp, r: (Option<SyncOp>, Option<SyncOp>))
    requires transform_ok(o1, o2, r),
    ensures tp1(s, o1, o2, r),
{
    if valid(s, o1) && valid(s, o2) {
        assert(apply_opt(apply(s, o1), r.1) =~~= apply_opt(apply(s, o2), r.0));
    }
}
//@props C04
/// identical operations cancel: a replica that gets its own version back neither re-applies nor re-sends it
pub proof fn lemma_ok_self_cancel(o: SyncOp, r: (Option<SyncOp>, Option<SyncOp>))
    requires transform_ok(o, o, r)
    ensures r == (None::<SyncOp>, None::<SyncOp>)
{
}
//@props C03
/// which change wins does not depend on who syncs first (non-tied pairs; ties: decision X1)
pub proof fn lemma_ok_order_independent(s: State, a: SyncOp, b: SyncOp, r1: (Option<SyncOp>, Option<SyncOp>), r2: (Option<SyncOp>, Option<SyncOp>))
    requires valid(s, a), valid(s, b), transform_ok(a, b, r1), transform_ok(b, a, r2), !tie(a, b),
    ensures
        // A first: chain = [a, b'] ; B first: chain = [b, a'']
        apply_opt(apply(s, a), r1.1) =~~= apply_opt(apply(s, b), r2.1)
{
}
/// in a tie everybody still agrees: the diamond closes (lemma_ok_tp1) and exactly one of the two survives
pub proof fn lemma_ok_tie_one_survives(a: SyncOp, b: SyncOp, r: (Option<SyncOp>, Option<SyncOp>))
    requires transform_ok(a, b, r), tie(a, b),
    ensures (r.0 is Some) != (r.1 is Some)
{
}
//@props C03 C20
/// a concurrent deletion wins over an update of the task, whoever syncs first
pub proof fn lemma_ok_delete_wins(s: State, up: SyncOp, del: SyncOp, r1: (Option<SyncOp>, Option<SyncOp>), r2: (Option<SyncOp>, Option<SyncOp>))
    requires up is Update, del is Delete, uuid_of(up) == uuid_of(del), s.dom().contains(uuid_of(up)),
        transform_ok(up, del, r1), transform_ok(del, up, r2),
    ensures
        !apply_opt(apply(s, up), r1.1).dom().contains(uuid_of(up)),
        !apply_opt(apply(s, del), r1.0).dom().contains(uuid_of(up)),
        !apply_opt(apply(s, del), r2.1).dom().contains(uuid_of(up)),
        !apply_opt(apply(s, up), r2.0).dom().contains(uuid_of(up)),
        // the update is never re-sent
        r1.0 is None, r2.1 is None,
{
}
//@props C03
/// the later timestamp wins for one property, whoever syncs first
pub proof fn lemma_ok_later_timestamp_wins(s: State, a: SyncOp, b: SyncOp, r1: (Option<SyncOp>, Option<SyncOp>), r2: (Option<SyncOp>, Option<SyncOp>))
    requires valid(s, a), same_prop_update(a, b), transform_ok(a, b, r1), transform_ok(b, a, r2),
        a matches SyncOp::Update { timestamp: ta, value: va, .. } && b matches SyncOp::Update { timestamp: tb, value: vb, .. } && ta.t < tb.t,
    ensures
        apply_opt(apply(s, a), r1.1) =~~= apply(s, b),
        apply_opt(apply(s, b), r2.1) =~~= apply(s, b),
{
}
/// concurrent changes to different properties / different tasks are all kept
pub proof fn lemma_ok_disjoint_kept(a: SyncOp, b: SyncOp, r: (Option<SyncOp>, Option<SyncOp>))
    requires transform_ok(a, b, r),
        uuid_of(a) != uuid_of(b) || (a is Update && b is Update && !same_prop_update(a, b)),
    ensures r == (Some(a), Some(b))
{
}
/// concurrent creations of the same task: the task exists on both sides, nothing is re-applied
pub proof fn lemma_ok_concurrent_creates(s: State, a: SyncOp, b: SyncOp, r: (Option<SyncOp>, Option<SyncOp>))
    requires a is Create, b is Create, uuid_of(a) == uuid_of(b), transform_ok(a, b, r), valid(s, a),
    ensures r == (None::<SyncOp>, None::<SyncOp>), apply(s, a).dom().contains(uuid_of(a)), apply(s, a) == apply(s, b)
{
}
//@props C14
/// C14: a SyncOp carries nothing beyond the documented fields -- two operations with the same wire view are equal
pub proof fn lemma_wire_injective(a: SyncOp, b: SyncOp)
    requires wire(a) == wire(b)
    ensures a == b
{
    broadcast use ax::axiom_string_view_injective;
    match (a, b) {
        (SyncOp::Update { value: v1, .. }, SyncOp::Update { value: v2, .. }) => {
            assert(opt_view(v1) == opt_view(v2));
            match (v1, v2) { (Some(x), Some(y)) => { assert(x@ == y@); }, _ => {} }
        },
        _ => {}
    }
}
/// C14: undo points never leave the replica; every other operation is sent with exactly its documented fields
pub proof fn lemma_from_op_drops_only_undo_points(op: Operation, r: Option<SyncOp>)
    requires from_op_post(op, r)
    ensures (r is None) == (op is UndoPoint)
{
}
