// ================================================================================================
// VOCABULARY for TaskDb::commit_operations (C05, C15)
// ================================================================================================
//@props C05 C15
/// u is the task of one of the first n operations, and the caller's predicate flags that operation
pub open spec fn uuid_among<F: Fn(&Operation) -> bool>(f: F, ops: Seq<Operation>, n: int, u: Uuid) -> bool {
    exists|i: int| 0 <= i < n && op_uuid(#[trigger] ops[i]) == Some(u) && f.ensures((&ops[i],), true)
}
pub open spec fn no_dups(s: Seq<Uuid>) -> bool { forall|i: int, j: int| 0 <= i < j < s.len() ==> s[i] != s[j] }
pub open spec fn wrap_some(s: Seq<Uuid>) -> Seq<Option<Uuid>> { s.map_values(|u: Uuid| Some(u)) }
/// what TaskDb::commit_operations hands to `commit` (C05, C15), relative to the transaction's initial view s0
pub open spec fn commit_ops_final<F: Fn(&Operation) -> bool>(f: F, s0: TxnView, ops: Seq<Operation>, s: TxnView, added: Seq<Uuid>) -> bool {
    // C05: tasks as if the operations were applied one at a time; operations recorded in order after the existing ones
    &&& s.tasks =~~= apply_l_seq(s0.tasks, ops)
    &&& s.unsynced == s0.unsynced + ops
    &&& s.synced == s0.synced && s.base == s0.base
    // C15: existing working-set numbers are untouched, newcomers are appended at the end, each once
    &&& s.ws == s0.ws + wrap_some(added)
    &&& no_dups(added)
    &&& forall|i: int| 0 <= i < added.len() ==> !somes(s0.ws).contains(#[trigger] added[i])
    // nothing else enters the working set: every newcomer is the task of an operation the caller flags
    &&& forall|i: int| 0 <= i < added.len() ==> uuid_among(f, ops, ops.len() as int, #[trigger] added[i])
    // every operation the caller flags puts its task into the working set
    &&& forall|i: int| #![trigger ops[i]] 0 <= i < ops.len() && op_uuid(ops[i]) is Some && f.ensures((&ops[i],), true)
            ==> somes(s.ws).contains(op_uuid(ops[i])->Some_0)
}
