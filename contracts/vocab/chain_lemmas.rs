// ---------- lemmas about sequences of operations and chains ----------
//@props C01 C02 C04 C12
pub proof fn lemma_apply_seq_push(s: State, ops: Seq<SyncOp>, o: SyncOp)
    ensures apply_seq(s, ops.push(o)) == apply(apply_seq(s, ops), o),
            valid_seq(s, ops.push(o)) == (valid_seq(s, ops) && valid(apply_seq(s, ops), o)),
{
    assert(ops.push(o).drop_last() =~= ops);
}
pub proof fn lemma_take_succ(s: State, ops: Seq<SyncOp>, i: int)
    requires 0 <= i < ops.len()
    ensures apply_seq(s, ops.take(i + 1)) == apply(apply_seq(s, ops.take(i)), ops[i]),
            valid_seq(s, ops.take(i + 1)) == (valid_seq(s, ops.take(i)) && valid(apply_seq(s, ops.take(i)), ops[i])),
{
    assert(ops.take(i + 1).drop_last() =~= ops.take(i));
}
pub proof fn lemma_valid_take(s: State, ops: Seq<SyncOp>, i: int)
    requires 0 <= i <= ops.len(), valid_seq(s, ops)
    ensures valid_seq(s, ops.take(i))
    decreases ops.len() - i
{
    if i == ops.len() { assert(ops.take(i) =~= ops); }
    else { lemma_valid_take(s, ops, i + 1); lemma_take_succ(s, ops, i); }
}
pub proof fn lemma_apply_seq_concat(s: State, a: Seq<SyncOp>, b: Seq<SyncOp>)
    ensures apply_seq(s, a + b) == apply_seq(apply_seq(s, a), b),
            valid_seq(s, a + b) == (valid_seq(s, a) && valid_seq(apply_seq(s, a), b)),
    decreases b.len()
{
    if b.len() == 0 { assert(a + b =~= a); }
    else {
        lemma_apply_seq_concat(s, a, b.drop_last());
        assert((a + b).drop_last() =~= a + b.drop_last());
        assert((a + b).last() == b.last());
    }
}
pub proof fn lemma_valid_take_skip(s: State, ops: Seq<SyncOp>, n: int)
    requires 0 <= n <= ops.len()
    ensures
        valid_seq(s, ops) == (valid_seq(s, ops.take(n)) && valid_seq(apply_seq(s, ops.take(n)), ops.skip(n))),
        apply_seq(s, ops) == apply_seq(apply_seq(s, ops.take(n)), ops.skip(n)),
{
    assert(ops =~= ops.take(n) + ops.skip(n));
    lemma_apply_seq_concat(s, ops.take(n), ops.skip(n));
}
pub proof fn lemma_replay_prefix(a: Chain, b: Chain, k: int)
    requires prefix(a, b), 0 <= k <= a.len()
    ensures replay(a, k) == replay(b, k), id_at(a, k) == id_at(b, k)
    decreases k
{
    if k > 0 {
        lemma_replay_prefix(a, b, k - 1);
        assert(a[k - 1] == b[k - 1]);
    }
}
pub proof fn lemma_prefix_trans(a: Chain, b: Chain, c: Chain)
    requires prefix(a, b), prefix(b, c)
    ensures prefix(a, c)
{
    assert forall|i: int| 0 <= i < a.len() implies #[trigger] a[i] == c[i] by { assert(a[i] == b[i]); assert(b[i] == c[i]); }
}
/// version ids name positions uniquely
pub proof fn lemma_id_at_unique(c: Chain, i: int, j: int)
    requires chain_wf(c), 0 <= i <= c.len(), 0 <= j <= c.len(), id_at(c, i) == id_at(c, j)
    ensures i == j
{
    if i != j {
        if i == 0 { assert(c[j - 1].id != Uuid::nil_spec()); }
        else if j == 0 { assert(c[i - 1].id != Uuid::nil_spec()); }
        else if i < j { assert(c[i - 1].id != c[j - 1].id); }
        else { assert(c[j - 1].id != c[i - 1].id); }
    }
}
/// the replica invariant is monotone in the chain: other replicas' versions never break it (C04)
pub proof fn lemma_ri_monotone(a: Chain, b: Chain, p: int, base: Uuid, tasks: State, local: Seq<SyncOp>)
    requires prefix(a, b), ri(a, p, base, tasks, local)
    ensures ri(b, p, base, tasks, local)
{
    lemma_replay_prefix(a, b, p);
}
pub proof fn lemma_to_sync_push(ops: Seq<Operation>, op: Operation)
    ensures to_sync(ops.push(op)) == (match to_sync1(op) { Some(s) => to_sync(ops).push(s), None => to_sync(ops) })
{
    assert(ops.push(op).drop_last() =~= ops);
}
