// ================================================================================================
// VOCABULARY (DESIGN.md section 3): the documented operation model (docs/src/sync-model.md, storage.md),
// written from the documentation, not from the code.  Requires the types SyncOp and Operation.
// ================================================================================================
pub open spec fn opt_view(v: Option<String>) -> Option<Seq<char>> { match v { Some(s) => Some(s@), None => None } }

/// docs/storage.md: Create is invalid on an existing task, Delete/Update on a missing one
pub open spec fn valid(s: State, op: SyncOp) -> bool {
    match op {
        SyncOp::Create { uuid, .. } => !s.dom().contains(uuid),
        SyncOp::Delete { uuid, .. } => s.dom().contains(uuid),
        SyncOp::Update { uuid, .. } => s.dom().contains(uuid),
    }
}
/// docs/sync-model.md: the effect of one operation; operations that do not apply change nothing
pub open spec fn apply(s: State, op: SyncOp) -> State {
    match op {
        SyncOp::Create { uuid, .. } => if s.dom().contains(uuid) { s } else { s.insert(uuid, Map::empty()) },
        SyncOp::Delete { uuid, .. } => s.remove(uuid),
        SyncOp::Update { uuid, property, value, .. } =>
            if s.dom().contains(uuid) {
                match value {
                    Some(v) => s.insert(uuid, s[uuid].insert(property@, v@)),
                    None => s.insert(uuid, s[uuid].remove(property@)),
                }
            } else { s },
    }
}
pub open spec fn apply_opt(s: State, op: Option<SyncOp>) -> State {
    match op { Some(o) => apply(s, o), None => s }
}
pub open spec fn valid_opt(s: State, op: Option<SyncOp>) -> bool {
    match op { Some(o) => valid(s, o), None => true }
}
pub open spec fn apply_seq(s: State, ops: Seq<SyncOp>) -> State
    decreases ops.len()
{
    if ops.len() == 0 { s } else { apply(apply_seq(s, ops.drop_last()), ops.last()) }
}
pub open spec fn valid_seq(s: State, ops: Seq<SyncOp>) -> bool
    decreases ops.len()
{
    if ops.len() == 0 { true } else { valid_seq(s, ops.drop_last()) && valid(apply_seq(s, ops.drop_last()), ops.last()) }
}

pub open spec fn uuid_of(o: SyncOp) -> Uuid {
    match o { SyncOp::Create { uuid, .. } => uuid, SyncOp::Delete { uuid, .. } => uuid, SyncOp::Update { uuid, .. } => uuid }
}
pub open spec fn same_prop_update(o1: SyncOp, o2: SyncOp) -> bool {
    match (o1, o2) {
        (SyncOp::Update { uuid: u1, property: p1, .. }, SyncOp::Update { uuid: u2, property: p2, .. }) => u1 == u2 && p1@ == p2@,
        _ => false,
    }
}
/// a tie: concurrent updates of one property with different values and equal timestamps (decision X1)
pub open spec fn tie(o1: SyncOp, o2: SyncOp) -> bool {
    match (o1, o2) {
        (SyncOp::Update { uuid: u1, property: p1, value: v1, timestamp: t1 },
         SyncOp::Update { uuid: u2, property: p2, value: v2, timestamp: t2 }) =>
            u1 == u2 && p1@ == p2@ && opt_view(v1) != opt_view(v2) && t1.t == t2.t,
        _ => false,
    }
}

/// C03: the documented conflict rules as a relation between (o1, o2) and the result r = (o1', o2').
/// Written from the property statement and docs/src/sync-model.md; ties are left free (X1).
pub open spec fn transform_ok(o1: SyncOp, o2: SyncOp, r: (Option<SyncOp>, Option<SyncOp>)) -> bool {
    // never invents an operation
    &&& (r.0 is None || r.0 == Some(o1)) && (r.1 is None || r.1 == Some(o2))
    // different tasks, or updates of different properties of one task: both kept
    &&& uuid_of(o1) != uuid_of(o2) ==> r == (Some(o1), Some(o2))
    &&& (o1 is Update && o2 is Update && uuid_of(o1) == uuid_of(o2) && !same_prop_update(o1, o2)) ==> r == (Some(o1), Some(o2))
    // same property of the same task
    &&& same_prop_update(o1, o2) ==> (match (o1, o2) {
            (SyncOp::Update { value: v1, timestamp: t1, .. }, SyncOp::Update { value: v2, timestamp: t2, .. }) =>
                if opt_view(v1) == opt_view(v2) { r == (None::<SyncOp>, None::<SyncOp>) }
                else if t1.t < t2.t { r == (None::<SyncOp>, Some(o2)) }
                else if t1.t > t2.t { r == (Some(o1), None::<SyncOp>) }
                else { r == (Some(o1), None::<SyncOp>) || r == (None::<SyncOp>, Some(o2)) },   // tie: exactly one survives
            _ => true })
    // update vs delete of one task: only the delete survives
    &&& (o1 is Update && o2 is Delete && uuid_of(o1) == uuid_of(o2)) ==> r == (None::<SyncOp>, Some(o2))
    &&& (o1 is Delete && o2 is Update && uuid_of(o1) == uuid_of(o2)) ==> r == (Some(o1), None::<SyncOp>)
    // concurrent creates / deletes of one task: nothing more to do
    &&& (o1 is Create && o2 is Create && uuid_of(o1) == uuid_of(o2)) ==> r == (None::<SyncOp>, None::<SyncOp>)
    &&& (o1 is Delete && o2 is Delete && uuid_of(o1) == uuid_of(o2)) ==> r == (None::<SyncOp>, None::<SyncOp>)
}

/// the OT diamond for one pair, in one state
pub open spec fn tp1(s: State, o1: SyncOp, o2: SyncOp, r: (Option<SyncOp>, Option<SyncOp>)) -> bool {
    (valid(s, o1) && valid(s, o2)) ==> (
        apply_opt(apply(s, o1), r.1) == apply_opt(apply(s, o2), r.0)
        && valid_opt(apply(s, o1), r.1)
        && valid_opt(apply(s, o2), r.0))
}
