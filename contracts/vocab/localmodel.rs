// ================================================================================================
// VOCABULARY: the documented local operation model (docs/src/storage.md, Operation docs):
// operations that do not apply change nothing; UndoPoint changes nothing.
// ================================================================================================
pub open spec fn apply_l(s: State, op: Operation) -> State {
    match op {
        Operation::Create { uuid, .. } => if s.dom().contains(uuid) { s } else { s.insert(uuid, Map::empty()) },
        Operation::Delete { uuid, .. } => s.remove(uuid),
        Operation::Update { uuid, property, value, .. } =>
            if s.dom().contains(uuid) {
                match value {
                    Some(v) => s.insert(uuid, s[uuid].insert(property@, v@)),
                    None => s.insert(uuid, s[uuid].remove(property@)),
                }
            } else { s },
        Operation::UndoPoint => s,
    }
}
pub open spec fn apply_l_seq(s: State, ops: Seq<Operation>) -> State
    decreases ops.len()
{
    if ops.len() == 0 { s } else { apply_l(apply_l_seq(s, ops.drop_last()), ops.last()) }
}
/// the local semantics agrees with the synchronized one on the operation's SyncOp image
pub proof fn lemma_apply_l_is_apply_of_to_sync1(s: State, op: Operation)
    ensures apply_l(s, op) == (match to_sync1(op) { Some(so) => apply(s, so), None => s })
{
}
