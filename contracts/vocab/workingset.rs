// ================================================================================================
// VOCABULARY and lemmas for the working set (C15)
// ================================================================================================
//@props C15
pub type Ws = Seq<Option<Uuid>>;

pub open spec fn ws_wf2(ws: Ws) -> bool {
    ws.len() >= 1 && ws[0] is None
    && forall|i: int, j: int| 0 <= i < j < ws.len() && ws[i] is Some ==> ws[i] != ws[j]
}
pub open spec fn ws_has(ws: Ws, u: Uuid) -> bool { exists|i: int| 0 <= i < ws.len() && #[trigger] ws[i] == Some(u) }

/// the closure is a function of the task's content
pub open spec fn pure_pred<F: Fn(&TaskMap) -> bool>(f: F) -> bool {
    &&& forall|t: &TaskMap| #[trigger] f.requires((t,))
    &&& forall|t1: &TaskMap, t2: &TaskMap, r1: bool, r2: bool| t1@ == t2@ && #[trigger] f.ensures((t1,), r1) && #[trigger] f.ensures((t2,), r2) ==> r1 == r2
}
pub open spec fn sat<F: Fn(&TaskMap) -> bool>(f: F, tm: TaskMapS) -> bool {
    exists|t: &TaskMap| t@ == tm && #[trigger] f.ensures((t,), true)
}
/// u should be in the working set
pub open spec fn want<F: Fn(&TaskMap) -> bool>(f: F, t: State, u: Uuid) -> bool {
    t.dom().contains(u) && sat(f, t[u])
}


/// the stored working set after write-back
pub open spec fn final_ws(n: Ws, old_len: int) -> Ws {
    if n.len() <= old_len { ws_trim(n) } else { ws_trim(n.take(old_len)) + n.skip(old_len) }
}

pub open spec fn kept_upto<F: Fn(&TaskMap) -> bool>(f: F, w: Ws, t: State, k: int, u: Uuid) -> bool {
    exists|i: int| 1 <= i <= k && #[trigger] w[i] == Some(u) && want(f, t, u)
}
pub open spec fn added_upto<F: Fn(&TaskMap) -> bool>(f: F, sq: Seq<(Uuid, TaskMap)>, nw1: Ws, t: State, k: int, u: Uuid) -> bool {
    exists|j: int| 0 <= j < k && #[trigger] sq[j].0 == u && !ws_has(nw1, u) && want(f, t, u)
}
pub open spec fn seq_upto(sq: Seq<(Uuid, TaskMap)>, k: int, u: Uuid) -> bool { exists|i: int| 0 <= i < k && #[trigger] sq[i].0 == u }
pub open spec fn in_seq(sq: Seq<(Uuid, TaskMap)>, u: Uuid) -> bool { exists|i: int| 0 <= i < sq.len() && #[trigger] sq[i].0 == u }
pub open spec fn pair_at(w: Ws, i: int, j: int, xa: Option<Uuid>, xb: Option<Uuid>) -> bool {
    1 <= i < j < w.len() && w[i] == xa && w[j] == xb
}
/// entries of x taken from the old set w at positions <= k, in the old relative order
#[verifier::opaque]
pub open spec fn pairs_upto(w: Ws, x: Ws, k: int) -> bool {
    forall|a: int, b: int| #![trigger x[a], x[b]] 0 <= a < b < x.len() && x[a] is Some && x[b] is Some
        ==> exists|i: int, j: int| j <= k && #[trigger] pair_at(w, i, j, x[a], x[b])
}
/// C15: tasks that stay keep their relative order, and nothing new is placed before a task that stays
#[verifier::opaque]
pub open spec fn order_ok(w: Ws, x: Ws) -> bool {
    forall|a: int, b: int| #![trigger x[a], x[b]] 0 <= a < b < x.len() && x[a] is Some && x[b] is Some && ws_has(w, x[b]->Some_0)
        ==> exists|i: int, j: int| #[trigger] pair_at(w, i, j, x[a], x[b])
}
/// what phases 1 and 2 must have computed
#[verifier::opaque]
pub open spec fn phase12_post<F: Fn(&TaskMap) -> bool>(f: F, renumber: bool, w: Ws, t: State, n: Ws) -> bool {
    &&& n.len() >= 1 && n[0] is None
    &&& forall|i: int, j: int| 0 <= i < j < n.len() && n[i] is Some ==> n[i] != n[j]
    &&& forall|u: Uuid| ws_has(n, u) <==> want(f, t, u)
    &&& !renumber ==> n.len() >= w.len() && (forall|i: int| 1 <= i < w.len() ==>
            #[trigger] n[i] == (if w[i] is Some && want(f, t, w[i]->Some_0) { w[i] } else { None::<Uuid> }))
            && (forall|i: int| w.len() <= i < n.len() ==> (#[trigger] n[i]) is Some)
    &&& renumber ==> forall|i: int| 1 <= i < n.len() ==> (#[trigger] n[i]) is Some
    &&& order_ok(w, n)
}


/// C15: what a successful rebuild guarantees about the stored working set
pub open spec fn rebuild_post<F: Fn(&TaskMap) -> bool>(f: F, renumber: bool, w: Ws, t: State, w2: Ws) -> bool {
    &&& ws_wf2(w2)
    // exactly the wanted tasks
    &&& forall|u: Uuid| ws_has(w2, u) <==> want(f, t, u)
    // without renumbering, survivors keep their number
    &&& !renumber ==> forall|i: int| 0 <= i < w.len() && w[i] is Some && want(f, t, w[i]->Some_0)
            ==> i < w2.len() && w2[i] == #[trigger] w[i]
    // with renumbering there are no gaps
    &&& renumber ==> forall|i: int| 1 <= i < w2.len() ==> (#[trigger] w2[i]) is Some
    // tasks that stay keep their relative order; newcomers come after every task that stays
    &&& order_ok(w, w2)
}
/// what rebuild stores has no trailing blanks (newcomers beyond the old length are all Some)
pub proof fn lemma_final_ws_trimmed(n: Ws, l: int)
    requires n.len() >= 1, l >= 1, forall|j: int| l <= j < n.len() ==> (#[trigger] n[j]) is Some
    ensures ws_trim(final_ws(n, l)) == final_ws(n, l)
{
    if n.len() <= l { lemma_trim_idem(n); } else {
        let a = ws_trim(n.take(l)); let b = n.skip(l);
        lemma_trim_prefix(n.take(l));
        assert(b.len() >= 1 && b.last() == n[n.len() - 1]);
        assert((a + b).last() == b.last());
    }
}
/// storage contents (before trimming) while the "shrink" loop runs: new_ws, then blanks up to i, then old tail
pub open spec fn less_state(n: Ws, w: Ws, i: int) -> Ws {
    Seq::new(w.len(), |j: int| if j < n.len() { n[j] } else if j < i { None } else { w[j] })
}
/// the stored working set keeps the order established by the scan (split from lemma_final_ws_props to keep each query small)
pub proof fn lemma_final_ws_order<F: Fn(&TaskMap) -> bool>(f: F, renumber: bool, w: Ws, t: State, n: Ws)
    requires phase12_post(f, renumber, w, t, n), ws_wf2(w),
    ensures order_ok(w, final_ws(n, w.len() as int))
{
    reveal(phase12_post);
    reveal(order_ok);
    let l = w.len() as int;
    let w2 = final_ws(n, l);
    if n.len() <= l {
        lemma_trim_prefix(n);
        assert(order_ok(w, w2)) by {
            assert forall|a: int, b: int| #![trigger w2[a], w2[b]] 0 <= a < b < w2.len() && w2[a] is Some && w2[b] is Some && ws_has(w, w2[b]->Some_0)
                implies exists|i: int, j: int| #[trigger] pair_at(w, i, j, w2[a], w2[b]) by {
                assert(w2[a] == n[a] && w2[b] == n[b]);
                let (i, j) = choose|i: int, j: int| #[trigger] pair_at(w, i, j, n[a], n[b]);
                assert(pair_at(w, i, j, w2[a], w2[b]));
            }
        }
    } else {
        let a = ws_trim(n.take(l));
        let b = n.skip(l);
        lemma_trim_prefix(n.take(l));
        assert(w2 == a + b);
        assert forall|j: int| 0 <= j < w2.len() implies #[trigger] w2[j] == n[if j < a.len() { j } else { l + (j - a.len()) }] by {
            if j < a.len() { assert(a[j] == n.take(l)[j]); } else { assert(w2[j] == b[j - a.len()]); }
        }
        assert(order_ok(w, w2)) by {
            assert forall|a: int, b: int| #![trigger w2[a], w2[b]] 0 <= a < b < w2.len() && w2[a] is Some && w2[b] is Some && ws_has(w, w2[b]->Some_0)
                implies exists|i: int, j: int| #[trigger] pair_at(w, i, j, w2[a], w2[b]) by {
                let al = a_len(n, l);
                let an = if a < al { a } else { l + (a - al) };
                let bn = if b < al { b } else { l + (b - al) };
                assert(w2[a] == n[an] && w2[b] == n[bn]);
                assert(0 <= an < bn < n.len());
                let (i, j) = choose|i: int, j: int| #[trigger] pair_at(w, i, j, n[an], n[bn]);
                assert(pair_at(w, i, j, w2[a], w2[b]));
            }
        }
    }
}
pub open spec fn a_len(n: Ws, l: int) -> int { ws_trim(n.take(l)).len() as int }
pub proof fn lemma_final_ws_props<F: Fn(&TaskMap) -> bool>(f: F, renumber: bool, w: Ws, t: State, n: Ws)
    requires phase12_post(f, renumber, w, t, n), ws_wf2(w),
    ensures rebuild_post(f, renumber, w, t, final_ws(n, w.len() as int))
{
    reveal(phase12_post);
    let l = w.len() as int;
    let w2 = final_ws(n, l);
    if n.len() <= l {
        lemma_trim_prefix(n);
        assert forall|u: Uuid| ws_has(w2, u) <==> ws_has(n, u) by {
            if ws_has(w2, u) { let j = choose|j: int| 0 <= j < w2.len() && w2[j] == Some(u); assert(n[j] == Some(u)); }
            if ws_has(n, u) { let j = choose|j: int| 0 <= j < n.len() && n[j] == Some(u); assert(j < w2.len()); assert(w2[j] == Some(u)); }
        }
        assert forall|i: int, j: int| 0 <= i < j < w2.len() && w2[i] is Some implies w2[i] != w2[j] by {
            assert(w2[i] == n[i] && w2[j] == n[j]);
        }
        if !renumber {
            assert forall|i: int| 0 <= i < w.len() && w[i] is Some && want(f, t, w[i]->Some_0)
                implies i < w2.len() && w2[i] == #[trigger] w[i] by {
                assert(i >= 1);
                assert(n[i] == w[i]);
            }
        } else {
            if n.len() > 1 { assert(n[n.len() - 1] is Some); }
            lemma_trim_fixed(n);
        }
    } else {
        let a = ws_trim(n.take(l));
        let b = n.skip(l);
        lemma_trim_prefix(n.take(l));
        assert(w2 == a + b);
        assert forall|k: int| 0 <= k < b.len() implies (#[trigger] b[k]) is Some by { assert(b[k] == n[l + k]); }
        // index map from w2 into n
        assert forall|j: int| 0 <= j < w2.len() implies #[trigger] w2[j] == n[if j < a.len() { j } else { l + (j - a.len()) }] by {
            if j < a.len() { assert(a[j] == n.take(l)[j]); } else { assert(w2[j] == b[j - a.len()]); }
        }
        assert forall|u: Uuid| ws_has(w2, u) <==> ws_has(n, u) by {
            if ws_has(w2, u) {
                let j = choose|j: int| 0 <= j < w2.len() && w2[j] == Some(u);
                let jn = if j < a.len() { j } else { l + (j - a.len()) };
                assert(n[jn] == Some(u));
            }
            if ws_has(n, u) {
                let j = choose|j: int| 0 <= j < n.len() && n[j] == Some(u);
                if j < l { assert(n.take(l)[j] == Some(u)); assert(j < a.len()); assert(w2[j] == Some(u)); }
                else { assert(w2[a.len() + (j - l)] == b[j - l]); assert(b[j - l] == n[j]); }
            }
        }
        assert forall|i: int, j: int| 0 <= i < j < w2.len() && w2[i] is Some implies w2[i] != w2[j] by {
            let i_n = if i < a.len() { i } else { l + (i - a.len()) };
            let j_n = if j < a.len() { j } else { l + (j - a.len()) };
            assert(w2[i] == n[i_n] && w2[j] == n[j_n]);
            assert(i_n < j_n);
        }
        assert(w2[0] == n[0]);
        if !renumber {
            assert forall|i: int| 0 <= i < w.len() && w[i] is Some && want(f, t, w[i]->Some_0)
                implies i < w2.len() && w2[i] == #[trigger] w[i] by {
                assert(i >= 1);
                assert(n[i] == w[i]);
                assert(n.take(l)[i] == n[i]);
                assert(i < a.len());
            }
        } else {
            if l > 1 { assert(n.take(l)[l - 1] == n[l - 1]); assert(n.take(l).last() is Some); }
            lemma_trim_fixed(n.take(l));
            assert(w2 =~= n);
        }
    }
    lemma_final_ws_order(f, renumber, w, t, n);
    assert(ws_wf2(w2));
    assert forall|u: Uuid| ws_has(w2, u) <==> want(f, t, u) by {
        assert(ws_has(w2, u) <==> ws_has(n, u));
    }
    assert(!renumber ==> forall|i: int| 0 <= i < w.len() && w[i] is Some && want(f, t, w[i]->Some_0) ==> i < w2.len() && w2[i] == #[trigger] w[i]);
    assert(renumber ==> forall|i: int| 1 <= i < w2.len() ==> (#[trigger] w2[i]) is Some);
}
