// ---- C14: the documented wire format (docs/src/sync-protocol.md): exactly these fields -----------------
pub enum WireOp {
    Create { uuid: Uuid },
    Delete { uuid: Uuid },
    Update { uuid: Uuid, property: Seq<char>, value: Option<Seq<char>>, timestamp: DateTime<Utc> },
}
/// the view of the *real* SyncOp as a documented wire operation; patterns use `..` so that a field added to the
/// type does not break this function but the injectivity lemma below
pub open spec fn wire(op: SyncOp) -> WireOp {
    match op {
        SyncOp::Create { uuid, .. } => WireOp::Create { uuid },
        SyncOp::Delete { uuid, .. } => WireOp::Delete { uuid },
        SyncOp::Update { uuid, property, value, timestamp, .. } => WireOp::Update { uuid, property: property@, value: opt_view(value), timestamp },
    }
}
pub open spec fn from_op_post(op: Operation, r: Option<SyncOp>) -> bool {
    match op {
        Operation::Create { uuid, .. } => r matches Some(s) && wire(s) == WireOp::Create { uuid },
        Operation::Delete { uuid, .. } => r matches Some(s) && wire(s) == WireOp::Delete { uuid },
        Operation::Update { uuid, property, value, timestamp, .. } =>
            r matches Some(s) && wire(s) == WireOp::Update { uuid, property: property@, value: opt_view(value), timestamp },
        Operation::UndoPoint => r is None,
    }
}
pub open spec fn into_op_post(s: SyncOp, r: Operation) -> bool {
    match s {
        SyncOp::Create { uuid, .. } => r matches Operation::Create { uuid: u2, .. } && u2 == uuid,
        SyncOp::Delete { uuid, .. } => r matches Operation::Delete { uuid: u2, old_task, .. } && u2 == uuid && old_task@ == Map::<Seq<char>, Seq<char>>::empty(),
        SyncOp::Update { uuid, property, value, timestamp, .. } =>
            r matches Operation::Update { uuid: u2, property: p2, value: v2, timestamp: t2, old_value, .. }
                && u2 == uuid && p2@ == property@ && opt_view(v2) == opt_view(value) && t2 == timestamp && old_value is None,
    }
}
