// ================================================================================================
// VOCABULARY for the Replica-level wrappers (src/replica.rs): the storage's committed content across transactions
// A9 (TRUSTED, stated once here): a Storage holds one committed content `view()`; `txn()` opens a transaction on it and the only way
// it changes is a transaction's `commit`.  A TaskDb method that opens one transaction and runs a verified function in it therefore
// changes `view()` exactly as that function changes `stored()`  (regions/taskdb_glue.rs transposes the verified contracts).
// ================================================================================================
//@props C15
/// "pending or recurring": the statuses that belong in the working set (docs/src/tasks.md, Replica::rebuild_working_set)
pub open spec fn is_pr_name(v: Seq<char>) -> bool { v == "pending"@ || v == "recurring"@ }
pub open spec fn is_pr_task(tm: TaskMapS) -> bool { tm.dom().contains("status"@) && is_pr_name(tm["status"@]) }
pub open spec fn is_pr_val(v: Option<String>) -> bool { v matches Some(s) && is_pr_name(s@) }
/// "Add tasks to the working set when the status property is updated from anything other than pending or recurring to one of those
/// two statuses" (Replica::commit_operations)
pub open spec fn becomes_pending(op: Operation) -> bool {
    op matches Operation::Update { property, old_value, value, .. } && property@ == "status"@ && !is_pr_val(old_value) && is_pr_val(value)
}
pub open spec fn bp_pred() -> spec_fn(Operation) -> bool { |o: Operation| becomes_pending(o) }
pub open spec fn pr_pred() -> spec_fn(TaskMapS) -> bool { |tm: TaskMapS| is_pr_task(tm) }
/// the exec predicate answers what the spec predicate says
#[verifier::opaque]
pub open spec fn decides_task<F: Fn(&TaskMap) -> bool>(f: F, p: spec_fn(TaskMapS) -> bool) -> bool {
    forall|t: &TaskMap, r: bool| #[trigger] f.ensures((t,), r) ==> r == p(t@)
}
#[verifier::opaque]
pub open spec fn decides_op<F: Fn(&Operation) -> bool>(f: F, p: spec_fn(Operation) -> bool) -> bool {
    forall|o: &Operation, r: bool| #[trigger] f.ensures((o,), r) ==> r == p(*o)
}
pub open spec fn want_p(p: spec_fn(TaskMapS) -> bool, t: State, u: Uuid) -> bool { t.dom().contains(u) && p(t[u]) }
/// rebuild_post (vocab/workingset.rs) with the caller's predicate given as a spec function
pub open spec fn rebuild_post_p(p: spec_fn(TaskMapS) -> bool, renumber: bool, w: Ws, t: State, w2: Ws) -> bool {
    &&& ws_wf2(w2) && ws_trim(w2) == w2
    &&& forall|u: Uuid| ws_has(w2, u) <==> want_p(p, t, u)
    &&& !renumber ==> forall|i: int| 0 <= i < w.len() && w[i] is Some && want_p(p, t, w[i]->Some_0) ==> i < w2.len() && w2[i] == #[trigger] w[i]
    &&& renumber ==> forall|i: int| 1 <= i < w2.len() ==> (#[trigger] w2[i]) is Some
    &&& order_ok(w, w2)
}
/// commit_ops_final (vocab/taskdbmodel.rs) with the caller's predicate given as a spec function
pub open spec fn flagged_among(p: spec_fn(Operation) -> bool, ops: Seq<Operation>, u: Uuid) -> bool {
    exists|i: int| 0 <= i < ops.len() && op_uuid(#[trigger] ops[i]) == Some(u) && p(ops[i])
}
pub open spec fn commit_final_p(p: spec_fn(Operation) -> bool, s0: TxnView, ops: Seq<Operation>, s: TxnView, added: Seq<Uuid>) -> bool {
    &&& s.tasks =~~= apply_l_seq(s0.tasks, ops)
    &&& s.unsynced == s0.unsynced + ops
    &&& s.synced == s0.synced && s.base == s0.base
    &&& s.ws == s0.ws + wrap_some(added)
    &&& no_dups(added)
    &&& forall|i: int| 0 <= i < added.len() ==> !somes(s0.ws).contains(#[trigger] added[i])
    &&& forall|i: int| 0 <= i < added.len() ==> flagged_among(p, ops, #[trigger] added[i])
    &&& forall|i: int| #![trigger ops[i]] 0 <= i < ops.len() && op_uuid(ops[i]) is Some && p(ops[i]) ==> somes(s.ws).contains(op_uuid(ops[i])->Some_0)
}
/// committing an empty batch leaves the stored content as it was
pub proof fn lemma_commit_final_empty(p: spec_fn(Operation) -> bool, s0: TxnView, ops: Seq<Operation>, s1: TxnView)
    requires exists|added: Seq<Uuid>| #[trigger] commit_final_p(p, s0, ops, s1, added)
    ensures ops.len() == 0 ==> s1 == s0
{
    if ops.len() > 0 { return; }
    let added = choose|added: Seq<Uuid>| #[trigger] commit_final_p(p, s0, ops, s1, added);
    if added.len() > 0 { assert(flagged_among(p, ops, added[0])); }
    assert(wrap_some(added) =~= Seq::<Option<Uuid>>::empty());
    assert(s0.ws + wrap_some(added) =~= s0.ws);
    assert(s0.unsynced + ops =~= s0.unsynced);
    assert(s1.tasks == s0.tasks);
}
/// the stored working set is in the shape every writer leaves it in: index 0 blank, no task twice, no trailing blanks
pub open spec fn ws_ok(v: TxnView) -> bool { ws_wf2(v.ws) && ws_trim(v.ws) == v.ws }
// ---- expiration (C20) ------------------------------------------------------------------------------------------------------
/// "Tasks are eligible for expiration when they have status Deleted and have not been modified for 180 days": `cut` is the
/// nanosecond count of now - 180 days; a `modified` value that is missing, not an integer, or outside the calendar range keeps the task
#[verifier::opaque]
pub open spec fn expired(tm: TaskMapS, cut: int) -> bool {
    &&& tm.dom().contains("status"@) && tm["status"@] == "deleted"@
    &&& tm.dom().contains("modified"@)
    &&& parse_spec::<i64>(tm["modified"@]) matches Some(secs) && CHRONO_MIN_SECS <= secs <= CHRONO_MAX_SECS && secs * 1_000_000_000 < cut
}
pub open spec fn expiry_cut() -> int { the_clock() - 180 * 86400 * 1_000_000_000 }
/// a Delete of a stored, expired task that carries the task's whole content
pub open spec fn sel_delete(op: Operation, tasks: State, cut: int) -> bool {
    op matches Operation::Delete { uuid, old_task } && tasks.dom().contains(uuid) && old_task@ == tasks[uuid] && expired(tasks[uuid], cut)
}
/// the purge: one Delete (carrying the whole old task) per expired task, nothing else
pub open spec fn expire_sel(tasks: State, cut: int, ops: Seq<Operation>) -> bool {
    &&& forall|k: int| 0 <= k < ops.len() ==> sel_delete(#[trigger] ops[k], tasks, cut)
    &&& forall|u: Uuid| tasks.dom().contains(u) && expired(tasks[u], cut) ==> exists|k: int| 0 <= k < ops.len() && op_uuid(#[trigger] ops[k]) == Some(u)
    &&& forall|k1: int, k2: int| 0 <= k1 < k2 < ops.len() ==> #[trigger] ops_differ(ops, k1, k2)
}
/// Replica::all_task_data: one TaskData per stored task, holding its uuid and content
pub open spec fn all_data(m: Map<Uuid, TaskData>, tasks: State) -> bool {
    m.dom() =~= tasks.dom() && forall|u: Uuid| m.dom().contains(u) ==> (#[trigger] m[u]).uuid == u && m[u].taskmap@ == tasks[u]
}
pub open spec fn data_has(m: Map<Uuid, TaskData>, u: Uuid) -> bool { m.dom().contains(u) }
pub open spec fn data_upto(m: Map<Uuid, TaskData>, lst: Seq<(Uuid, TaskMap)>, n: int, tasks: State) -> bool {
    &&& forall|u: Uuid| m.dom().contains(u) <==> exists|j: int| 0 <= j < n && #[trigger] lst[j].0 == u
    &&& forall|u: Uuid| m.dom().contains(u) ==> (#[trigger] m[u]).uuid == u && m[u].taskmap@ == tasks[u]
}
/// what `drain_hashmap(&mut all_task_data()?)` yields: every stored task once, as (uuid, TaskData holding uuid and content)
pub open spec fn drained_data(d: Seq<(Uuid, TaskData)>, tasks: State) -> bool {
    &&& forall|j: int| 0 <= j < d.len() ==> tasks.dom().contains((#[trigger] d[j]).0) && d[j].1.uuid == d[j].0 && d[j].1.taskmap@ == tasks[d[j].0]
    &&& forall|u: Uuid| tasks.dom().contains(u) ==> exists|j: int| 0 <= j < d.len() && (#[trigger] d[j]).0 == u
    &&& forall|i: int, j: int| 0 <= i < j < d.len() ==> #[trigger] keys_differ(d, i, j)
}
pub open spec fn ops_differ(ops: Seq<Operation>, k1: int, k2: int) -> bool { op_uuid(ops[k1]) != op_uuid(ops[k2]) }
/// loop invariant of expire_tasks after n entries: one accurate Delete per expired entry so far, nothing else
pub open spec fn eu_sound(tasks: State, cut: int, ops: Seq<Operation>) -> bool {
    forall|k: int| 0 <= k < ops.len() ==> sel_delete(#[trigger] ops[k], tasks, cut)
}
pub open spec fn eu_from(d: Seq<(Uuid, TaskData)>, n: int, ops: Seq<Operation>) -> bool {
    forall|k: int| 0 <= k < ops.len() ==> exists|j: int| 0 <= j < n && op_uuid(#[trigger] ops[k]) == Some(d[j].0)
}
pub open spec fn eu_complete(d: Seq<(Uuid, TaskData)>, n: int, tasks: State, cut: int, ops: Seq<Operation>) -> bool {
    forall|j: int| 0 <= j < n && expired(tasks[(#[trigger] d[j]).0], cut) ==> exists|k: int| 0 <= k < ops.len() && op_uuid(#[trigger] ops[k]) == Some(d[j].0)
}
pub open spec fn eu_distinct(ops: Seq<Operation>) -> bool {
    forall|k1: int, k2: int| 0 <= k1 < k2 < ops.len() ==> #[trigger] ops_differ(ops, k1, k2)
}
pub open spec fn expire_upto(d: Seq<(Uuid, TaskData)>, n: int, tasks: State, cut: int, ops: Seq<Operation>) -> bool {
    0 <= n <= d.len() && eu_sound(tasks, cut, ops) && eu_from(d, n, ops) && eu_complete(d, n, tasks, cut, ops) && eu_distinct(ops)
}
pub proof fn lemma_expire_skip(d: Seq<(Uuid, TaskData)>, k: int, tasks: State, cut: int, ops: Seq<Operation>)
    requires drained_data(d, tasks), expire_upto(d, k, tasks, cut, ops), 0 <= k < d.len(), !expired(tasks[d[k].0], cut)
    ensures expire_upto(d, k + 1, tasks, cut, ops)
{
    assert(eu_from(d, k + 1, ops)) by {
        assert forall|q: int| 0 <= q < ops.len() implies exists|j: int| 0 <= j < k + 1 && op_uuid(#[trigger] ops[q]) == Some(d[j].0) by {
            let j = choose|j: int| 0 <= j < k && op_uuid(ops[q]) == Some(d[j].0);
        }
    }
}
proof fn lemma_es_sound(tasks: State, cut: int, ops: Seq<Operation>, op: Operation)
    requires eu_sound(tasks, cut, ops), sel_delete(op, tasks, cut)
    ensures eu_sound(tasks, cut, ops.push(op))
{
    let o2 = ops.push(op);
    assert forall|q: int| 0 <= q < o2.len() implies sel_delete(#[trigger] o2[q], tasks, cut) by { if q < ops.len() { assert(o2[q] == ops[q]); } }
}
proof fn lemma_es_from(d: Seq<(Uuid, TaskData)>, k: int, ops: Seq<Operation>, op: Operation)
    requires eu_from(d, k, ops), 0 <= k < d.len(), op_uuid(op) == Some(d[k].0)
    ensures eu_from(d, k + 1, ops.push(op))
{
    let o2 = ops.push(op);
    assert forall|q: int| 0 <= q < o2.len() implies exists|j: int| 0 <= j < k + 1 && op_uuid(#[trigger] o2[q]) == Some(d[j].0) by {
        if q < ops.len() { assert(o2[q] == ops[q]); let j = choose|j: int| 0 <= j < k && op_uuid(ops[q]) == Some(d[j].0); } else { assert(op_uuid(o2[q]) == Some(d[k].0)); }
    }
}
proof fn lemma_es_complete(d: Seq<(Uuid, TaskData)>, k: int, tasks: State, cut: int, ops: Seq<Operation>, op: Operation)
    requires eu_complete(d, k, tasks, cut, ops), 0 <= k < d.len(), op_uuid(op) == Some(d[k].0)
    ensures eu_complete(d, k + 1, tasks, cut, ops.push(op))
{
    let o2 = ops.push(op);
    assert forall|j: int| 0 <= j < k + 1 && expired(tasks[(#[trigger] d[j]).0], cut) implies exists|q: int| 0 <= q < o2.len() && op_uuid(#[trigger] o2[q]) == Some(d[j].0) by {
        if j < k { let q = choose|q: int| 0 <= q < ops.len() && op_uuid(#[trigger] ops[q]) == Some(d[j].0); assert(o2[q] == ops[q]); }
        else { assert(op_uuid(o2[ops.len() as int]) == Some(d[k].0)); }
    }
}
proof fn lemma_es_distinct(d: Seq<(Uuid, TaskData)>, k: int, tasks: State, ops: Seq<Operation>, op: Operation)
    requires drained_data(d, tasks), eu_from(d, k, ops), eu_distinct(ops), 0 <= k < d.len(), op_uuid(op) == Some(d[k].0)
    ensures eu_distinct(ops.push(op))
{
    let o2 = ops.push(op);
    assert forall|k1: int, k2: int| 0 <= k1 < k2 < o2.len() implies #[trigger] ops_differ(o2, k1, k2) by {
        assert(o2[k1] == ops[k1]);
        if k2 < ops.len() { assert(o2[k2] == ops[k2]); assert(ops_differ(ops, k1, k2)); } else {
            let j = choose|j: int| 0 <= j < k && op_uuid(ops[k1]) == Some(d[j].0);
            assert(keys_differ(d, j, k));
        }
    }
}
pub proof fn lemma_expire_step(d: Seq<(Uuid, TaskData)>, k: int, tasks: State, cut: int, ops: Seq<Operation>, op: Operation)
    requires drained_data(d, tasks), expire_upto(d, k, tasks, cut, ops), 0 <= k < d.len(), expired(tasks[d[k].0], cut),
        op matches Operation::Delete { uuid, old_task } && uuid == d[k].0 && old_task@ == tasks[d[k].0],
    ensures expire_upto(d, k + 1, tasks, cut, ops.push(op))
{
    assert(sel_delete(op, tasks, cut));
    assert(op_uuid(op) == Some(d[k].0));
    lemma_es_sound(tasks, cut, ops, op);
    lemma_es_from(d, k, ops, op);
    lemma_es_complete(d, k, tasks, cut, ops, op);
    lemma_es_distinct(d, k, tasks, ops, op);
}
pub proof fn lemma_expire_done(d: Seq<(Uuid, TaskData)>, tasks: State, cut: int, ops: Seq<Operation>)
    requires drained_data(d, tasks), expire_upto(d, d.len() as int, tasks, cut, ops)
    ensures expire_sel(tasks, cut, ops)
{
    assert forall|u: Uuid| tasks.dom().contains(u) && expired(tasks[u], cut) implies exists|k: int| 0 <= k < ops.len() && op_uuid(#[trigger] ops[k]) == Some(u) by {
        let j = choose|j: int| 0 <= j < d.len() && (#[trigger] d[j]).0 == u;
        assert(expired(tasks[d[j].0], cut));
    }
}
// ---- the dependency map (C19) ------------------------------------------------------------------------------------------------
/// the task a `dep_<uuid>` key names (docs/src/tasks.md); other keys, and keys whose tail is not a uuid, name none
pub open spec fn dep_target(k: Seq<char>) -> Option<Uuid> { match strip_prefix_spec(k, "dep_"@) { Some(t) => uuid_parse(t), None => None } }
pub open spec fn pending_task(tasks: State, d: Uuid) -> bool { tasks.dom().contains(d) && tasks[d].dom().contains("status"@) && tasks[d]["status"@] == "pending"@ }
/// e = (u, d) is an edge because u is listed in the working set at number i, exists, has the key k naming d, and d is a pending task
pub open spec fn dep_edge_at(ws: Seq<Option<Uuid>>, tasks: State, i: int, k: Seq<char>, e: (Uuid, Uuid)) -> bool {
    1 <= i < ws.len() && ws[i] == Some(e.0) && tasks.dom().contains(e.0) && tasks[e.0].dom().contains(k) && dep_target(k) == Some(e.1) && pending_task(tasks, e.1)
}
/// "the dependency map reflects exactly the stored statuses and dependency keys" of the tasks in the working set
pub open spec fn dep_edge(ws: Seq<Option<Uuid>>, tasks: State, e: (Uuid, Uuid)) -> bool { exists|i: int, k: Seq<char>| #[trigger] dep_edge_at(ws, tasks, i, k, e) }
pub open spec fn dm_sound(ws: Seq<Option<Uuid>>, tasks: State, edges: Seq<(Uuid, Uuid)>) -> bool {
    forall|n: int| 0 <= n < edges.len() ==> dep_edge(ws, tasks, #[trigger] edges[n])
}
/// every edge arising at a working-set number below i (and, at number i, from one of the first j keys) is in the map
pub open spec fn dm_complete(ws: Seq<Option<Uuid>>, tasks: State, edges: Seq<(Uuid, Uuid)>, i: int, keys: Seq<&String>, j: int) -> bool {
    &&& forall|i2: int, k: Seq<char>, e: (Uuid, Uuid)| i2 < i && #[trigger] dep_edge_at(ws, tasks, i2, k, e) ==> edges.contains(e)
    &&& forall|j2: int, e: (Uuid, Uuid)| 0 <= j2 < j && #[trigger] dep_edge_at(ws, tasks, i, keys[j2]@, e) ==> edges.contains(e)
}
pub open spec fn cache_ok(tasks: State, cache: Map<Uuid, bool>) -> bool {
    forall|d: Uuid| cache.dom().contains(d) ==> (#[trigger] cache[d]) == pending_task(tasks, d)
}
pub open spec fn no_keys() -> Seq<&'static String> { Seq::<&'static String>::empty() }
pub proof fn lemma_dm_add(ws: Seq<Option<Uuid>>, tasks: State, edges: Seq<(Uuid, Uuid)>, i: int, keys: Seq<&String>, j: int, e: (Uuid, Uuid))
    requires dm_sound(ws, tasks, edges), dm_complete(ws, tasks, edges, i, keys, j), 0 <= j < keys.len(), dep_edge_at(ws, tasks, i, keys[j]@, e),
    ensures dm_sound(ws, tasks, edges.push(e)), dm_complete(ws, tasks, edges.push(e), i, keys, j + 1),
{
    let e2 = edges.push(e);
    assert forall|n: int| 0 <= n < e2.len() implies dep_edge(ws, tasks, #[trigger] e2[n]) by { if n < edges.len() { assert(e2[n] == edges[n]); } }
    assert forall|i2: int, k: Seq<char>, x: (Uuid, Uuid)| i2 < i && #[trigger] dep_edge_at(ws, tasks, i2, k, x) implies e2.contains(x) by {
        let n = choose|n: int| 0 <= n < edges.len() && edges[n] == x; assert(e2[n] == x);
    }
    assert forall|j2: int, x: (Uuid, Uuid)| 0 <= j2 < j + 1 && #[trigger] dep_edge_at(ws, tasks, i, keys[j2]@, x) implies e2.contains(x) by {
        if j2 < j { let n = choose|n: int| 0 <= n < edges.len() && edges[n] == x; assert(e2[n] == x); }
        else { assert(x == e); assert(e2[edges.len() as int] == e); }
    }
}
pub proof fn lemma_dm_skip(ws: Seq<Option<Uuid>>, tasks: State, edges: Seq<(Uuid, Uuid)>, i: int, keys: Seq<&String>, j: int)
    requires dm_complete(ws, tasks, edges, i, keys, j), 0 <= j < keys.len(),
        dep_target(keys[j]@) is None || !pending_task(tasks, dep_target(keys[j]@)->Some_0),
    ensures dm_complete(ws, tasks, edges, i, keys, j + 1),
{
}
pub proof fn lemma_dm_next(ws: Seq<Option<Uuid>>, tasks: State, edges: Seq<(Uuid, Uuid)>, i: int, keys: Seq<&String>)
    requires dm_complete(ws, tasks, edges, i, keys, keys.len() as int), 1 <= i < ws.len(), ws[i] is Some, tasks.dom().contains(ws[i]->Some_0),
        keys_listed(tasks[ws[i]->Some_0], keys),
    ensures dm_complete(ws, tasks, edges, i + 1, no_keys(), 0),
{
    assert forall|i2: int, k: Seq<char>, x: (Uuid, Uuid)| i2 < i + 1 && #[trigger] dep_edge_at(ws, tasks, i2, k, x) implies edges.contains(x) by {
        if i2 == i {
            let j2 = choose|j2: int| 0 <= j2 < keys.len() && (#[trigger] keys[j2])@ == k;
            assert(dep_edge_at(ws, tasks, i, keys[j2]@, x));
        }
    }
}
pub proof fn lemma_dm_none(ws: Seq<Option<Uuid>>, tasks: State, edges: Seq<(Uuid, Uuid)>, i: int)
    requires dm_complete(ws, tasks, edges, i, no_keys(), 0),
        !(1 <= i < ws.len()) || ws[i] is None || !tasks.dom().contains(ws[i]->Some_0),
    ensures dm_complete(ws, tasks, edges, i + 1, no_keys(), 0),
{
}
pub proof fn lemma_dm_done(ws: Seq<Option<Uuid>>, tasks: State, edges: Seq<(Uuid, Uuid)>, n: int)
    requires dm_complete(ws, tasks, edges, n, no_keys(), 0), n >= ws.len(),
    ensures forall|i: int, k: Seq<char>, e: (Uuid, Uuid)| #[trigger] dep_edge_at(ws, tasks, i, k, e) ==> edges.contains(e),
{
}
