// ================================================================================================
// VOCABULARY for the Replica-level wrappers (src/replica.rs): the storage's committed content across transactions
// A9 (TRUSTED, stated once here): a Storage holds one committed content `view()`; `txn()` opens a transaction on it and the only way
// it changes is a transaction's `commit`.  A TaskDb method that opens one transaction and runs a verified function in it therefore
// changes `view()` exactly as that function changes `stored()`  (regions/taskdb_glue.rs transposes the verified contracts).
// ================================================================================================
//@props C15
/// "pending or recurring": the statuses that belong in the working set (docs/src/tasks.md, Replica::rebuild_working_set)
pub open spec fn is_pr_name(v: Seq<char>) -> bool { v == "pending"@ || v == "recurring"@ }
pub open spec fn is_pr_task(tm: TaskMapS) -> bool { tm.dom().contains("status"@) && is_pr_name(tm["status"@]) }
pub open spec fn is_pr_val(v: Option<String>) -> bool { v matches Some(s) && is_pr_name(s@) }
/// "Add tasks to the working set when the status property is updated from anything other than pending or recurring to one of those
/// two statuses" (Replica::commit_operations)
pub open spec fn becomes_pending(op: Operation) -> bool {
    op matches Operation::Update { property, old_value, value, .. } && property@ == "status"@ && !is_pr_val(old_value) && is_pr_val(value)
}
pub open spec fn bp_pred() -> spec_fn(Operation) -> bool { |o: Operation| becomes_pending(o) }
pub open spec fn pr_pred() -> spec_fn(TaskMapS) -> bool { |tm: TaskMapS| is_pr_task(tm) }
/// the exec predicate answers what the spec predicate says
#[verifier::opaque]
pub open spec fn decides_task<F: Fn(&TaskMap) -> bool>(f: F, p: spec_fn(TaskMapS) -> bool) -> bool {
    forall|t: &TaskMap, r: bool| #[trigger] f.ensures((t,), r) ==> r == p(t@)
}
#[verifier::opaque]
pub open spec fn decides_op<F: Fn(&Operation) -> bool>(f: F, p: spec_fn(Operation) -> bool) -> bool {
    forall|o: &Operation, r: bool| #[trigger] f.ensures((o,), r) ==> r == p(*o)
}
pub open spec fn want_p(p: spec_fn(TaskMapS) -> bool, t: State, u: Uuid) -> bool { t.dom().contains(u) && p(t[u]) }
/// rebuild_post (vocab/workingset.rs) with the caller's predicate given as a spec function
pub open spec fn rebuild_post_p(p: spec_fn(TaskMapS) -> bool, renumber: bool, w: Ws, t: State, w2: Ws) -> bool {
    &&& ws_wf2(w2) && ws_trim(w2) == w2
    &&& forall|u: Uuid| ws_has(w2, u) <==> want_p(p, t, u)
    &&& !renumber ==> forall|i: int| 0 <= i < w.len() && w[i] is Some && want_p(p, t, w[i]->Some_0) ==> i < w2.len() && w2[i] == #[trigger] w[i]
    &&& renumber ==> forall|i: int| 1 <= i < w2.len() ==> (#[trigger] w2[i]) is Some
    &&& order_ok(w, w2)
}
/// commit_ops_final (vocab/taskdbmodel.rs) with the caller's predicate given as a spec function
pub open spec fn flagged_among(p: spec_fn(Operation) -> bool, ops: Seq<Operation>, u: Uuid) -> bool {
    exists|i: int| 0 <= i < ops.len() && op_uuid(#[trigger] ops[i]) == Some(u) && p(ops[i])
}
pub open spec fn commit_final_p(p: spec_fn(Operation) -> bool, s0: TxnView, ops: Seq<Operation>, s: TxnView, added: Seq<Uuid>) -> bool {
    &&& s.tasks =~~= apply_l_seq(s0.tasks, ops)
    &&& s.unsynced == s0.unsynced + ops
    &&& s.synced == s0.synced && s.base == s0.base
    &&& s.ws == s0.ws + wrap_some(added)
    &&& no_dups(added)
    &&& forall|i: int| 0 <= i < added.len() ==> !somes(s0.ws).contains(#[trigger] added[i])
    &&& forall|i: int| 0 <= i < added.len() ==> flagged_among(p, ops, #[trigger] added[i])
    &&& forall|i: int| #![trigger ops[i]] 0 <= i < ops.len() && op_uuid(ops[i]) is Some && p(ops[i]) ==> somes(s.ws).contains(op_uuid(ops[i])->Some_0)
}
/// committing an empty batch leaves the stored content as it was
pub proof fn lemma_commit_final_empty(p: spec_fn(Operation) -> bool, s0: TxnView, ops: Seq<Operation>, s1: TxnView)
    requires exists|added: Seq<Uuid>| #[trigger] commit_final_p(p, s0, ops, s1, added)
    ensures ops.len() == 0 ==> s1 == s0
{
    if ops.len() > 0 { return; }
    let added = choose|added: Seq<Uuid>| #[trigger] commit_final_p(p, s0, ops, s1, added);
    if added.len() > 0 { assert(flagged_among(p, ops, added[0])); }
    assert(wrap_some(added) =~= Seq::<Option<Uuid>>::empty());
    assert(s0.ws + wrap_some(added) =~= s0.ws);
    assert(s0.unsynced + ops =~= s0.unsynced);
    assert(s1.tasks == s0.tasks);
}
/// the stored working set is in the shape every writer leaves it in: index 0 blank, no task twice, no trailing blanks
pub open spec fn ws_ok(v: TxnView) -> bool { ws_wf2(v.ws) && ws_trim(v.ws) == v.ws }
