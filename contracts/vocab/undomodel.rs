// ================================================================================================
// VOCABULARY for C07: an operation is *accurate* in a state when it is valid there and its recorded old value /
// old task is what the state held (this is what the task mutators record, C19).
// ================================================================================================
pub open spec fn mget(m: TaskMapS, k: Seq<char>) -> Option<Seq<char>> { if m.dom().contains(k) { Some(m[k]) } else { None } }
pub open spec fn accurate(s: State, op: Operation) -> bool {
    match op {
        Operation::Create { uuid, .. } => !s.dom().contains(uuid),
        Operation::Delete { uuid, old_task, .. } => s.dom().contains(uuid) && s[uuid] == old_task@,
        Operation::Update { uuid, property, old_value, .. } => s.dom().contains(uuid) && opt_view(old_value) == mget(s[uuid], property@),
        Operation::UndoPoint => true,
    }
}
pub open spec fn accurate_seq(s: State, ops: Seq<Operation>) -> bool decreases ops.len() {
    if ops.len() == 0 { true } else { accurate_seq(s, ops.drop_last()) && accurate(apply_l_seq(s, ops.drop_last()), ops.last()) }
}
/// C07 kernel: the SyncOps `r` undo `op`: from every state in which op is accurate, applying op and then r is the identity
pub open spec fn undoes(op: Operation, r: Seq<SyncOp>) -> bool {
    forall|s: State| #![trigger accurate(s, op)] accurate(s, op) ==>
        valid_seq(apply_l(s, op), r) && apply_seq(apply_l(s, op), r) =~~= s
}
/// map built from the first k drained pairs
pub open spec fn pairs_map(r: Seq<(String, String)>, k: int) -> TaskMapS decreases k {
    if k <= 0 { Map::empty() } else { pairs_map(r, k - 1).insert(r[k - 1].0@, r[k - 1].1@) }
}
pub open spec fn is_restore(o: SyncOp, uuid: Uuid, p: Seq<char>, v: Seq<char>) -> bool {
    match o { SyncOp::Update { uuid: u, property, value, .. } => u == uuid && property@ == p && opt_view(value) == Some(v), _ => false }
}
pub open spec fn delete_shape(uuid: Uuid, pairs: Seq<(String, String)>, k: int, ops: Seq<SyncOp>) -> bool {
    &&& ops.len() == 1 + k
    &&& ops[0] == SyncOp::Create { uuid }
    &&& forall|j: int| 0 <= j < k ==> is_restore(#[trigger] ops[1 + j], uuid, pairs[j].0@, pairs[j].1@)
}
pub open spec fn rev_delete_ok(uuid: Uuid, old: TaskMapS, ops: Seq<SyncOp>) -> bool {
    exists|pairs: Seq<(String, String)>| drained(old, pairs) && #[trigger] delete_shape(uuid, pairs, pairs.len() as int, ops)
}
/// what reverse_ops must return, case by case (Operation docs: "On undo, ...")
pub open spec fn rev_shape(op: Operation, r: Seq<SyncOp>) -> bool {
    match op {
        Operation::Create { uuid, .. } => r.len() == 1 && r[0] == (SyncOp::Delete { uuid }),
        Operation::Delete { uuid, old_task, .. } => rev_delete_ok(uuid, old_task@, r),
        Operation::Update { uuid, property, old_value, .. } => r.len() == 1 && (match r[0] {
            SyncOp::Update { uuid: u, property: p, value, .. } => u == uuid && p@ == property@ && opt_view(value) == opt_view(old_value),
            _ => false }),
        Operation::UndoPoint => r.len() == 0,
    }
}
/// undo_ops is a non-empty suffix of the unsynchronized operations
pub open spec fn tail_match(unsynced: Seq<Operation>, undo: Seq<Operation>) -> bool {
    undo.len() > 0 && undo.len() <= unsynced.len() && unsynced.skip(unsynced.len() - undo.len()) =~= undo
}
/// the operations from the last undo point on (all of them when there is none)
pub open spec fn undo_span(u: Seq<Operation>, r: Seq<Operation>) -> bool {
    exists|k: int| 0 <= k <= u.len() && r =~= u.skip(k)
        && (forall|j: int| k < j < u.len() ==> !(#[trigger] u[j] is UndoPoint))
        && (k > 0 || u.len() == 0 || u[0] is UndoPoint || forall|j: int| 0 <= j < u.len() ==> !(#[trigger] u[j] is UndoPoint))
        && (k > 0 ==> u[k] is UndoPoint)
}
