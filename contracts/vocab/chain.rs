// ================================================================================================
// VOCABULARY: the server's version chain and the replica invariant (docs/src/sync-model.md, sync-protocol.md)
// ================================================================================================
pub struct VersionRec { pub id: Uuid, pub parent: Uuid, pub ops: Seq<SyncOp> }
pub type Chain = Seq<VersionRec>;

/// the state after the first k versions, replayed from the empty task set
pub open spec fn replay(c: Chain, k: int) -> State
    decreases k
{
    if k <= 0 { Map::empty() } else { apply_seq(replay(c, k - 1), c[k - 1].ops) }
}
/// the version id naming the state after k versions (nil before the first)
pub open spec fn id_at(c: Chain, k: int) -> Uuid { if k <= 0 { Uuid::nil_spec() } else { c[k - 1].id } }

/// a well-formed chain: parent links consecutive from nil, ids distinct and non-nil, every version's
/// operations valid in the state they apply to
pub open spec fn chain_wf(c: Chain) -> bool {
    &&& forall|k: int| 0 <= k < c.len() ==> #[trigger] c[k].parent == id_at(c, k)
    &&& forall|k: int| 0 <= k < c.len() ==> (#[trigger] c[k].id) != Uuid::nil_spec()
    &&& forall|i: int, j: int| 0 <= i < j < c.len() ==> (#[trigger] c[i].id) != (#[trigger] c[j].id)
    &&& forall|k: int| 0 <= k < c.len() ==> valid_seq(replay(c, k), #[trigger] c[k].ops)
}
/// the chain only ever grows (rely condition on the other replicas)
pub open spec fn prefix(a: Chain, b: Chain) -> bool {
    a.len() <= b.len() && forall|i: int| #![trigger a[i]] 0 <= i < a.len() ==> a[i] == b[i]
}
pub open spec fn no_child_within(c: Chain, m: int, parent: Uuid) -> bool {
    forall|k: int| 0 <= k < m ==> #[trigger] id_at(c, k) != parent
}
pub open spec fn head_is(c: Chain, m: int, h: Uuid) -> bool { 0 < m <= c.len() && id_at(c, m) == h }
pub open spec fn version_at(c: Chain, k: int, parent: Uuid, id: Uuid, ops: Seq<SyncOp>) -> bool {
    0 <= k < c.len() && id_at(c, k) == parent && c[k].id == id && c[k].ops == ops
}

/// Replica invariant w.r.t. chain c at position p (docs/src/sync-model.md "Replica Invariant"):
/// base version names position p, and the tasks are the replay up to p with the pending operations applied
pub open spec fn ri(c: Chain, p: int, base: Uuid, tasks: State, local: Seq<SyncOp>) -> bool {
    0 <= p <= c.len() && base == id_at(c, p)
    && valid_seq(replay(c, p), local) && apply_seq(replay(c, p), local) == tasks
}

/// the hypothesis of the rebase theorem: b is a base state from which both the local operations and the
/// incoming version are valid, and the replica's tasks are b + local ops
pub open spec fn rebase_pre(b: State, tasks: State, local: Seq<SyncOp>, server: Seq<SyncOp>) -> bool {
    valid_seq(b, local) && apply_seq(b, local) == tasks && valid_seq(b, server)
}

// ---- the local view: Operation (with undo information) -> SyncOp ------------------------------------
pub open spec fn to_sync1(op: Operation) -> Option<SyncOp> {
    match op {
        Operation::Create { uuid, .. } => Some(SyncOp::Create { uuid }),
        Operation::Delete { uuid, .. } => Some(SyncOp::Delete { uuid }),
        Operation::Update { uuid, property, value, timestamp, .. } => Some(SyncOp::Update { uuid, property, value, timestamp }),
        Operation::UndoPoint => None,
    }
}
/// the unsynchronized operations as they will be sent: undo points dropped, order kept
pub open spec fn to_sync(ops: Seq<Operation>) -> Seq<SyncOp>
    decreases ops.len()
{
    if ops.len() == 0 { Seq::empty() } else {
        match to_sync1(ops.last()) {
            Some(s) => to_sync(ops.drop_last()).push(s),
            None => to_sync(ops.drop_last()),
        }
    }
}

// ---- A6: the wire encodings (serde_json, flate2) are inverse pairs ----------------------------------------
pub mod enc {
use vstd::prelude::*;
use super::{SyncOp, State};
/// the operations a history segment decodes to
pub uninterp spec fn decode(seg: Seq<u8>) -> Seq<SyncOp>;
/// whether a byte string is a history segment in the documented format
pub uninterp spec fn decodable(seg: Seq<u8>) -> bool;
/// the task set a snapshot decodes to
pub uninterp spec fn snap_decode(b: Seq<u8>) -> State;
pub uninterp spec fn snap_decodable(b: Seq<u8>) -> bool;
}
pub use enc::{decode, decodable, snap_decode, snap_decodable};
