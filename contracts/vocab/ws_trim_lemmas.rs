//@props C15 C16
// ---------- trim lemmas ----------
pub proof fn lemma_trim_prefix(x: Seq<Option<Uuid>>)
    requires x.len() >= 1
    ensures
        1 <= ws_trim(x).len() <= x.len(),
        forall|j: int| 0 <= j < ws_trim(x).len() ==> #[trigger] ws_trim(x)[j] == x[j],
        forall|j: int| ws_trim(x).len() <= j < x.len() ==> (#[trigger] x[j]) is None,
        ws_trim(x).len() > 1 ==> ws_trim(x).last() is Some,
    decreases x.len()
{
    if x.len() > 1 && x.last() is None {
        lemma_trim_prefix(x.drop_last());
        assert forall|j: int| ws_trim(x).len() <= j < x.len() implies (#[trigger] x[j]) is None by {
            if j < x.len() - 1 { assert(x.drop_last()[j] == x[j]); }
        }
        assert forall|j: int| 0 <= j < ws_trim(x).len() implies #[trigger] ws_trim(x)[j] == x[j] by {
            assert(x.drop_last()[j] == x[j]);
        }
    }
}
pub proof fn lemma_trim_fixed(x: Seq<Option<Uuid>>)
    requires x.len() >= 1, x.len() == 1 || x.last() is Some
    ensures ws_trim(x) == x
{
}
/// Two sequences that agree up to trailing Nones have the same trim.
pub proof fn lemma_trim_eq(x: Seq<Option<Uuid>>, y: Seq<Option<Uuid>>)
    requires x.len() >= 1, y.len() >= x.len(),
        forall|j: int| 0 <= j < x.len() ==> #[trigger] y[j] == x[j],
        forall|j: int| x.len() <= j < y.len() ==> (#[trigger] y[j]) is None,
    ensures ws_trim(y) == ws_trim(x)
    decreases y.len()
{
    if y.len() > x.len() {
        assert(y.last() is None);
        lemma_trim_eq(x, y.drop_last());
    } else {
        assert(y =~= x);
    }
}
pub proof fn lemma_trim_update(x: Seq<Option<Uuid>>, i: int, v: Option<Uuid>)
    requires x.len() >= 1, 0 <= i < ws_trim(x).len()
    ensures ws_trim(ws_trim(x).update(i, v)) == ws_trim(x.update(i, v))
{
    lemma_trim_prefix(x);
    let a = ws_trim(x).update(i, v);
    let b = x.update(i, v);
    lemma_trim_eq(a, b);
}
pub proof fn lemma_trim_idem(x: Seq<Option<Uuid>>)
    requires x.len() >= 1
    ensures ws_trim(ws_trim(x)) == ws_trim(x)
{
    lemma_trim_prefix(x);
    lemma_trim_fixed(ws_trim(x));
}
