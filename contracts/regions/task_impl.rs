// ================================================================================================
// src/task/task.rs, src/task/status.rs : the core Task mutators   (C19)
// ================================================================================================
//@props C19

pub open spec fn upd_map(m: TaskMapS, p: Seq<char>, v: Option<Seq<char>>) -> TaskMapS { match v { Some(x) => m.insert(p, x), None => m.remove(p) } }
/// C19: `newops` are Updates of this task, each recording the value the property really had at that point, and applied one by
/// one to the map m0 they give the map m1 (so committing them turns a stored copy of m0 into m1)
pub open spec fn run_ok(uuid: Uuid, m0: TaskMapS, newops: Seq<Operation>, m1: TaskMapS) -> bool
    decreases newops.len()
{
    if newops.len() == 0 { m1 == m0 } else {
        match newops[0] {
            Operation::Update { uuid: u, property, old_value, value, .. } =>
                u == uuid && opt_view(old_value) == mget(m0, property@)
                && run_ok(uuid, upd_map(m0, property@, opt_view(value)), newops.skip(1), m1),
            _ => false,
        }
    }
}
pub open spec fn sets_prop(op: Operation, p: Seq<char>) -> bool { op matches Operation::Update { property, .. } && property@ == p }
pub proof fn lemma_run_one(uuid: Uuid, m0: TaskMapS, op: Operation, p: Seq<char>, value: Option<Seq<char>>)
    requires is_update_of(op, uuid, m0, p, value)
    ensures run_ok(uuid, m0, seq![op], upd_map(m0, p, value))
{
    assert(seq![op].skip(1) =~= Seq::<Operation>::empty());
    assert(run_ok(uuid, upd_map(m0, p, value), Seq::<Operation>::empty(), upd_map(m0, p, value)));
}
pub proof fn lemma_run_concat(uuid: Uuid, m0: TaskMapS, a: Seq<Operation>, m1: TaskMapS, b: Seq<Operation>, m2: TaskMapS)
    requires run_ok(uuid, m0, a, m1), run_ok(uuid, m1, b, m2)
    ensures run_ok(uuid, m0, a + b, m2)
    decreases a.len()
{
    if a.len() == 0 { assert(a + b =~= b); }
    else {
        match a[0] {
            Operation::Update { uuid: u, property, old_value, value, .. } => {
                lemma_run_concat(uuid, upd_map(m0, property@, opt_view(value)), a.skip(1), m1, b, m2);
                assert((a + b).skip(1) =~= a.skip(1) + b);
                assert((a + b)[0] == a[0]);
            },
            _ => {}
        }
    }
}
/// C19 (and the precondition of C07): committing operations recorded this way leaves the stored task identical to the object the
/// caller holds, and every recorded Update is accurate
pub proof fn lemma_run_ok_agrees(s: State, uuid: Uuid, m0: TaskMapS, newops: Seq<Operation>, m1: TaskMapS)
    requires s.dom().contains(uuid), s[uuid] == m0, run_ok(uuid, m0, newops, m1)
    ensures accurate_seq(s, newops), apply_l_seq(s, newops).dom().contains(uuid), apply_l_seq(s, newops)[uuid] == m1
    decreases newops.len()
{
    if newops.len() > 0 {
        match newops[0] {
            Operation::Update { uuid: u, property, old_value, value, timestamp } => {
                let s1 = apply_l(s, newops[0]);
                assert(s1[uuid] =~= upd_map(m0, property@, opt_view(value)));
                lemma_run_ok_agrees(s1, uuid, upd_map(m0, property@, opt_view(value)), newops.skip(1), m1);
                lemma_l_seq_cons(s, newops);
            },
            _ => {}
        }
    }
}
pub proof fn lemma_l_seq_cons(s: State, ops: Seq<Operation>)
    requires ops.len() > 0
    ensures apply_l_seq(s, ops) == apply_l_seq(apply_l(s, ops[0]), ops.skip(1)),
        accurate_seq(s, ops) == (accurate(s, ops[0]) && accurate_seq(apply_l(s, ops[0]), ops.skip(1))),
    decreases ops.len()
{
    let s1 = apply_l(s, ops[0]);
    if ops.len() == 1 {
        assert(ops.drop_last() =~= Seq::<Operation>::empty());
        assert(ops.skip(1) =~= Seq::<Operation>::empty());
        assert(ops.last() == ops[0]);
        assert(apply_l_seq(s, ops.drop_last()) == s);
        assert(apply_l_seq(s1, ops.skip(1)) == s1);
        assert(accurate_seq(s, ops.drop_last()));
        assert(accurate_seq(s1, ops.skip(1)));
    } else {
        let dl = ops.drop_last();
        lemma_l_seq_cons(s, dl);
        assert(dl.skip(1) =~= ops.skip(1).drop_last());
        assert(dl[0] == ops[0]);
        assert(ops.skip(1).last() == ops.last());
        assert(apply_l_seq(s, ops) == apply_l(apply_l_seq(s, dl), ops.last()));
        assert(apply_l_seq(s1, ops.skip(1)) == apply_l(apply_l_seq(s1, ops.skip(1).drop_last()), ops.skip(1).last()));
        assert(accurate_seq(s, ops) == (accurate_seq(s, dl) && accurate(apply_l_seq(s, dl), ops.last())));
        assert(accurate_seq(s1, ops.skip(1)) == (accurate_seq(s1, ops.skip(1).drop_last()) && accurate(apply_l_seq(s1, ops.skip(1).drop_last()), ops.skip(1).last())));
    }
}
//@extract src/task/time.rs :: type Timestamp
pub type Timestamp = DateTime<Utc>;
//@end

impl TaskData {
//@extract src/task/data.rs :: impl TaskData :: fn has | R15
    pub fn has<P1: AsRef<str>>(&self, property: P1) -> (r: bool)
        ensures r == self.taskmap@.dom().contains(as_ref_chars(&property)),
{
        self.taskmap.contains_key(property.as_ref())
    }
//@end
}

//@extract src/task/task.rs :: enum Prop
pub enum Prop {
    Description,
    Due,
    Modified,
    Start,
    Status,
    Priority,
    Wait,
    End,
    Entry,
}
//@end

/// strum's `AsRefStr` with `serialize_all = "kebab-case"` (TRUSTED): the documented key names of the task model
pub open spec fn prop_name(p: Prop) -> Seq<char> {
    match p {
        Prop::Description => "description"@, Prop::Due => "due"@, Prop::Modified => "modified"@, Prop::Start => "start"@,
        Prop::Status => "status"@, Prop::Priority => "priority"@, Prop::Wait => "wait"@, Prop::End => "end"@, Prop::Entry => "entry"@,
    }
}
impl Prop {
    #[verifier::external_body]
    pub fn as_ref(&self) -> (r: &'static str) ensures r@ == prop_name(*self) { unimplemented!() }
}

//@extract src/task/task.rs :: struct Task
pub struct Task {
    pub data: TaskData,
    pub depmap: Arc<DependencyMap>,
    pub updated_modified: bool,
}
//@end

impl Task {

//@extract src/task/task.rs :: impl Task :: fn new
    pub fn new(data: TaskData, depmap: Arc<DependencyMap>) -> (r: Task)
        ensures r.data == data, !r.updated_modified,
{
        Task {
            data,
            depmap,
            updated_modified: false,
        }
    }
//@end

//@extract src/task/task.rs :: impl Task :: fn get_uuid
    pub fn get_uuid(&self) -> (r: Uuid)
        ensures r == self.data.uuid,
{
        self.data.get_uuid()
    }
//@end

//@extract src/task/task.rs :: impl Task :: fn is_active
    pub fn is_active(&self) -> (r: bool)
        ensures r == self.data.taskmap@.dom().contains("start"@),
{
        self.data.has(Prop::Start.as_ref())
    }
//@end

//@extract src/task/task.rs :: impl Task :: fn set_status | R23 R24
    pub fn set_status(&mut self, status: Status, ops: &mut Operations) -> (r: Result<()>)
        ensures
            r is Ok, final(self).data.uuid == old(self).data.uuid,
            final(ops)@.len() >= old(ops)@.len(), final(ops)@.take(old(ops)@.len() as int) == old(ops)@,
            //@ob C19 Task-mutators.record-accurate-updates-of-this-task-that-reproduce-the-object
            run_ok(old(self).data.uuid, old(self).data.taskmap@, final(ops)@.skip(old(ops)@.len() as int), final(self).data.taskmap@),
            //@ob C19 set_status.status-is-recorded-under-its-documented-name
            final(self).data.taskmap@.dom().contains("status"@) && final(self).data.taskmap@["status"@] == status_name(status),
            //@ob C19 set_status.completing-or-deleting-sets-an-end-time-and-re-opening-clears-it
            (status is Completed || status is Deleted) ==> final(self).data.taskmap@.dom().contains("end"@),
            (status is Pending || status is Recurring) ==> !final(self).data.taskmap@.dom().contains("end"@),
            status is Unknown ==> mget(final(self).data.taskmap@, "end"@) == mget(old(self).data.taskmap@, "end"@),
            // an end time that is already present is kept when completing/deleting
            ((status is Completed || status is Deleted) && old(self).data.taskmap@.dom().contains("end"@)) ==> final(self).data.taskmap@["end"@] == old(self).data.taskmap@["end"@],
{
        let ghost ops0 = ops@;
        let ghost m0 = self.data.taskmap@;
        let ghost uuid = self.data.uuid;
        match status {
            Status::Pending
                if self.data.has(Prop::End.as_ref()) => {
                    self.set_timestamp(Prop::End.as_ref(), None, ops)?;
                }
            Status::Recurring
                if self.data.has(Prop::End.as_ref()) => {
                    self.set_timestamp(Prop::End.as_ref(), None, ops)?;
                }
            Status::Completed
                if !self.data.has(Prop::End.as_ref()) => {
                    self.set_timestamp(Prop::End.as_ref(), Some(Utc::now()), ops)?;
                }
            Status::Deleted
                if !self.data.has(Prop::End.as_ref()) => {
                    self.set_timestamp(Prop::End.as_ref(), Some(Utc::now()), ops)?;
                }
            _ => {}
        }
        let ghost ops1 = ops@;
        let ghost m1 = self.data.taskmap@;
        proof {
            assert(ops1.take(ops0.len() as int) =~= ops0);
            if ops1.len() == ops0.len() { assert(ops1 =~= ops0); assert(ops1.skip(ops0.len() as int) =~= Seq::<Operation>::empty()); }
            assert(run_ok(uuid, m0, ops1.skip(ops0.len() as int), m1));
            reveal_strlit("end"); reveal_strlit("status"); reveal_strlit("modified");
            assert("end"@ != "status"@ && "end"@ != "modified"@ && "status"@ != "modified"@) by { assert("end"@.len() == 3 && "status"@.len() == 6 && "modified"@.len() == 8); }
        }
        let r_tail = self.set_value(
            Prop::Status.as_ref(),
            Some(String::from(status.to_taskmap())),
            ops,
        );
        proof {
            let ops2 = ops@;
            let m2 = self.data.taskmap@;
            assert(ops2.skip(ops0.len() as int) =~= ops1.skip(ops0.len() as int) + ops2.skip(ops1.len() as int));
            lemma_run_concat(uuid, m0, ops1.skip(ops0.len() as int), m1, ops2.skip(ops1.len() as int), m2);
            assert(ops2.take(ops0.len() as int) =~= ops2.take(ops1.len() as int).take(ops0.len() as int));
        }
        r_tail
    }
//@end

//@extract src/task/task.rs :: impl Task :: fn set_description
    pub fn set_description(&mut self, description: String, ops: &mut Operations) -> (r: Result<()>)
        ensures
            r is Ok, final(self).data.uuid == old(self).data.uuid,
            final(ops)@.len() >= old(ops)@.len(), final(ops)@.take(old(ops)@.len() as int) == old(ops)@,
            //@ob C19 Task-mutators.record-accurate-updates-of-this-task-that-reproduce-the-object
            run_ok(old(self).data.uuid, old(self).data.taskmap@, final(ops)@.skip(old(ops)@.len() as int), final(self).data.taskmap@),
            final(self).data.taskmap@.dom().contains("description"@) && final(self).data.taskmap@["description"@] == description@,
{
        self.set_value(Prop::Description.as_ref(), Some(description), ops)
    }
//@end

//@extract src/task/task.rs :: impl Task :: fn set_priority
    pub fn set_priority(&mut self, priority: String, ops: &mut Operations) -> (r: Result<()>)
        ensures
            r is Ok, final(self).data.uuid == old(self).data.uuid,
            final(ops)@.len() >= old(ops)@.len(), final(ops)@.take(old(ops)@.len() as int) == old(ops)@,
            //@ob C19 Task-mutators.record-accurate-updates-of-this-task-that-reproduce-the-object
            run_ok(old(self).data.uuid, old(self).data.taskmap@, final(ops)@.skip(old(ops)@.len() as int), final(self).data.taskmap@),
            final(self).data.taskmap@.dom().contains("priority"@) && final(self).data.taskmap@["priority"@] == priority@,
{
        self.set_value(Prop::Priority.as_ref(), Some(priority), ops)
    }
//@end

//@extract src/task/task.rs :: impl Task :: fn set_entry
    pub fn set_entry(&mut self, entry: Option<Timestamp>, ops: &mut Operations) -> (r: Result<()>)
        ensures
            r is Ok, final(self).data.uuid == old(self).data.uuid,
            final(ops)@.len() >= old(ops)@.len(), final(ops)@.take(old(ops)@.len() as int) == old(ops)@,
            //@ob C19 Task-mutators.record-accurate-updates-of-this-task-that-reproduce-the-object
            run_ok(old(self).data.uuid, old(self).data.taskmap@, final(ops)@.skip(old(ops)@.len() as int), final(self).data.taskmap@),
            final(self).updated_modified,
            final(self).data.taskmap@.dom().contains("entry"@) == (entry is Some),
            forall|q: Seq<char>| q != "entry"@ && q != "modified"@ ==> mget(final(self).data.taskmap@, q) == mget(old(self).data.taskmap@, q),
{
        self.set_timestamp(Prop::Entry.as_ref(), entry, ops)
    }
//@end

//@extract src/task/task.rs :: impl Task :: fn set_wait
    pub fn set_wait(&mut self, wait: Option<Timestamp>, ops: &mut Operations) -> (r: Result<()>)
        ensures
            r is Ok, final(self).data.uuid == old(self).data.uuid,
            final(ops)@.len() >= old(ops)@.len(), final(ops)@.take(old(ops)@.len() as int) == old(ops)@,
            //@ob C19 Task-mutators.record-accurate-updates-of-this-task-that-reproduce-the-object
            run_ok(old(self).data.uuid, old(self).data.taskmap@, final(ops)@.skip(old(ops)@.len() as int), final(self).data.taskmap@),
            final(self).updated_modified,
            final(self).data.taskmap@.dom().contains("wait"@) == (wait is Some),
            forall|q: Seq<char>| q != "wait"@ && q != "modified"@ ==> mget(final(self).data.taskmap@, q) == mget(old(self).data.taskmap@, q),
{
        self.set_timestamp(Prop::Wait.as_ref(), wait, ops)
    }
//@end

//@extract src/task/task.rs :: impl Task :: fn set_modified
    pub fn set_modified(&mut self, modified: Timestamp, ops: &mut Operations) -> (r: Result<()>)
        ensures
            r is Ok, final(self).data.uuid == old(self).data.uuid,
            final(ops)@.len() >= old(ops)@.len(), final(ops)@.take(old(ops)@.len() as int) == old(ops)@,
            //@ob C19 Task-mutators.record-accurate-updates-of-this-task-that-reproduce-the-object
            run_ok(old(self).data.uuid, old(self).data.taskmap@, final(ops)@.skip(old(ops)@.len() as int), final(self).data.taskmap@),
            //@ob C19 set_modified.setting-the-modification-time-explicitly-records-exactly-one-update
            final(ops)@.len() == old(ops)@.len() + 1, final(self).updated_modified,
            final(self).data.taskmap@.dom().contains("modified"@),
{
        self.set_timestamp(Prop::Modified.as_ref(), Some(modified), ops)
    }
//@end

//@extract src/task/task.rs :: impl Task :: fn set_value
    pub fn set_value<S: Into<String>>(
        &mut self,
        property: S,
        value: Option<String>,
        ops: &mut Operations,
    ) -> (r: Result<()>)
        requires S::obeys_into_spec(),
        ensures
            r is Ok, final(self).data.uuid == old(self).data.uuid,
            final(ops)@.len() >= old(ops)@.len(), final(ops)@.take(old(ops)@.len() as int) == old(ops)@,
            //@ob C19 Task-mutators.record-accurate-updates-of-this-task-that-reproduce-the-object
            run_ok(old(self).data.uuid, old(self).data.taskmap@, final(ops)@.skip(old(ops)@.len() as int), final(self).data.taskmap@),
            final(self).updated_modified,
            ({ let p = property.into_spec()@; let n0 = old(ops)@.len() as int; let touch = p != "modified"@ && !old(self).updated_modified;
               //@ob C19 set_value.modification-time-refreshed-once-per-editing-session-and-never-when-set-explicitly
               &&& final(ops)@.len() == n0 + (if touch { 2int } else { 1int })
               &&& touch ==> sets_prop(final(ops)@[n0], "modified"@) && (final(ops)@[n0] matches Operation::Update { value, .. } && value is Some)
               //@ob C19 set_value.the-last-operation-sets-the-requested-property-to-the-requested-value
               &&& sets_prop(final(ops)@.last(), p) && (final(ops)@.last() matches Operation::Update { value: v, .. } && opt_view(v) == opt_view(value))
               &&& final(self).data.taskmap@.dom().contains(p) == (value is Some)
               &&& value matches Some(x) ==> final(self).data.taskmap@[p] == x@
               &&& forall|q: Seq<char>| q != p && q != "modified"@ ==> mget(final(self).data.taskmap@, q) == mget(old(self).data.taskmap@, q) }),
{
        let ghost ops0 = ops@;
        let ghost m0 = self.data.taskmap@;
        let ghost uuid = self.data.uuid;
        let ghost pv = property.into_spec()@;
        let ghost vv = opt_view(value);
        let property = property.into();
        if &property != "modified" && !self.updated_modified {
            let now = opaque_string();
            self.data.update(Prop::Modified.as_ref(), Some(now), ops);
            self.updated_modified = true;
        }
        let ghost ops1 = ops@;
        let ghost m1 = self.data.taskmap@;
        proof {
            if ops1.len() > ops0.len() {
                lemma_run_one(uuid, m0, ops1.last(), "modified"@, mget(m1, "modified"@));
                assert(ops1.skip(ops0.len() as int) =~= seq![ops1.last()]);
                assert(m1 =~= upd_map(m0, "modified"@, mget(m1, "modified"@)));
            } else {
                assert(ops1.skip(ops0.len() as int) =~= Seq::<Operation>::empty());
            }
            assert(run_ok(uuid, m0, ops1.skip(ops0.len() as int), m1));
        }
        self.updated_modified = true;
        if let Some(ref v) = value {
        } else {
        }
        self.data.update(property, value, ops);
        proof {
            let ops2 = ops@;
            let m2 = self.data.taskmap@;
            lemma_run_one(uuid, m1, ops2.last(), pv, vv);
            assert(m2 =~= upd_map(m1, pv, vv));
            assert(ops2.skip(ops0.len() as int) =~= ops1.skip(ops0.len() as int) + seq![ops2.last()]);
            lemma_run_concat(uuid, m0, ops1.skip(ops0.len() as int), m1, seq![ops2.last()], m2);
            assert(ops2.take(ops0.len() as int) =~= ops1.take(ops0.len() as int));
        }
        Ok(())
    }
//@end

//@extract src/task/task.rs :: impl Task :: fn start
    pub fn start(&mut self, ops: &mut Operations) -> (r: Result<()>)
        ensures
            r is Ok, final(self).data.uuid == old(self).data.uuid,
            final(ops)@.len() >= old(ops)@.len(), final(ops)@.take(old(ops)@.len() as int) == old(ops)@,
            //@ob C19 Task-mutators.record-accurate-updates-of-this-task-that-reproduce-the-object
            run_ok(old(self).data.uuid, old(self).data.taskmap@, final(ops)@.skip(old(ops)@.len() as int), final(self).data.taskmap@),
            //@ob C19 start.sets-start-unless-already-active
            final(self).data.taskmap@.dom().contains("start"@),
            old(self).data.taskmap@.dom().contains("start"@) ==> final(ops)@ == old(ops)@ && final(self).data.taskmap@ == old(self).data.taskmap@,
{
        if self.is_active() {
            proof { assert(ops@.skip(ops@.len() as int) =~= Seq::<Operation>::empty()); assert(ops@.take(ops@.len() as int) =~= ops@); }
            return Ok(());
        }
        self.set_timestamp(Prop::Start.as_ref(), Some(Utc::now()), ops)
    }
//@end

//@extract src/task/task.rs :: impl Task :: fn stop
    pub fn stop(&mut self, ops: &mut Operations) -> (r: Result<()>)
        ensures
            r is Ok, final(self).data.uuid == old(self).data.uuid,
            final(ops)@.len() >= old(ops)@.len(), final(ops)@.take(old(ops)@.len() as int) == old(ops)@,
            //@ob C19 Task-mutators.record-accurate-updates-of-this-task-that-reproduce-the-object
            run_ok(old(self).data.uuid, old(self).data.taskmap@, final(ops)@.skip(old(ops)@.len() as int), final(self).data.taskmap@),
            //@ob C19 stop.removes-start
            !final(self).data.taskmap@.dom().contains("start"@),
{
        self.set_timestamp(Prop::Start.as_ref(), None, ops)
    }
//@end

//@extract src/task/task.rs :: impl Task :: fn done
    pub fn done(&mut self, ops: &mut Operations) -> (r: Result<()>)
        ensures
            r is Ok, final(self).data.uuid == old(self).data.uuid,
            final(ops)@.len() >= old(ops)@.len(), final(ops)@.take(old(ops)@.len() as int) == old(ops)@,
            //@ob C19 Task-mutators.record-accurate-updates-of-this-task-that-reproduce-the-object
            run_ok(old(self).data.uuid, old(self).data.taskmap@, final(ops)@.skip(old(ops)@.len() as int), final(self).data.taskmap@),
            //@ob C19 done.marks-the-task-completed-with-an-end-time
            final(self).data.taskmap@.dom().contains("status"@) && final(self).data.taskmap@["status"@] == "completed"@,
            final(self).data.taskmap@.dom().contains("end"@),
{
        self.set_status(Status::Completed, ops)
    }
//@end

//@extract src/task/task.rs :: impl Task :: fn set_timestamp
    pub fn set_timestamp(
        &mut self,
        property: &str,
        value: Option<Timestamp>,
        ops: &mut Operations,
    ) -> (r: Result<()>)
        ensures
            r is Ok, final(self).data.uuid == old(self).data.uuid,
            final(ops)@.len() >= old(ops)@.len(), final(ops)@.take(old(ops)@.len() as int) == old(ops)@,
            //@ob C19 Task-mutators.record-accurate-updates-of-this-task-that-reproduce-the-object
            run_ok(old(self).data.uuid, old(self).data.taskmap@, final(ops)@.skip(old(ops)@.len() as int), final(self).data.taskmap@),
            final(self).updated_modified,
            //@ob C19 set_timestamp.sets-or-removes-exactly-that-property
            final(self).data.taskmap@.dom().contains(property@) == (value is Some),
            final(ops)@.len() == old(ops)@.len() + (if property@ != "modified"@ && !old(self).updated_modified { 2int } else { 1int }),
            forall|q: Seq<char>| q != property@ && q != "modified"@ ==> mget(final(self).data.taskmap@, q) == mget(old(self).data.taskmap@, q),
{
        self.set_value(property, value.map(|v| v.timestamp().to_string()), ops)
    }
//@end

}

// ---- read accessors (C18): no panic whatever the stored strings are ------------------------------------------------
//@props C18
/// the timestamp kernel of src/task/time.rs.  Its contracts are PROVED by Kani on the unmodified file for every i64
/// (kani harnesses utc_timestamp_opt_never_panics, utc_timestamp_total_on_chrono_range); here they are the callers' view.
pub mod time_kernel {
    use vstd::prelude::*;
    use super::*;
    verus! {
    /// total: never panics
    #[verifier::external_body]
    pub fn utc_timestamp_opt(secs: i64) -> (r: Option<Timestamp>) { unimplemented!() }
    /// panics (unreachable!) outside chrono's range: a caller must establish the range
    #[verifier::external_body]
    pub fn utc_timestamp(secs: i64) -> (r: Timestamp)
        requires -8334601228800 <= secs <= 8210266876799
    { unimplemented!() }
    }
}
pub use time_kernel::{utc_timestamp_opt, utc_timestamp};
impl Task {
//@extract src/task/task.rs :: impl Task :: fn get_timestamp
    pub fn get_timestamp(&self, property: &str) -> (r: Option<Timestamp>)
{
        if let Some(ts) = self.data.get(property) {
            if let Ok(ts) = ts.parse() {
                return utc_timestamp_opt(ts);
            }
        }
        None
    }
//@end
//@extract src/task/task.rs :: impl Task :: fn get_entry
    pub fn get_entry(&self) -> (r: Option<Timestamp>)
{
        self.get_timestamp(Prop::Entry.as_ref())
    }
//@end
//@extract src/task/task.rs :: impl Task :: fn get_wait
    pub fn get_wait(&self) -> (r: Option<Timestamp>)
{
        self.get_timestamp(Prop::Wait.as_ref())
    }
//@end
//@extract src/task/task.rs :: impl Task :: fn is_waiting
    pub fn is_waiting(&self) -> (r: bool)
{
        if let Some(ts) = self.get_wait() {
            return ts > Utc::now();
        }
        false
    }
//@end
//@extract src/task/task.rs :: impl Task :: fn get_modified
    pub fn get_modified(&self) -> (r: Option<Timestamp>)
{
        self.get_timestamp(Prop::Modified.as_ref())
    }
//@end
//@extract src/task/task.rs :: impl Task :: fn get_due
    pub fn get_due(&self) -> (r: Option<Timestamp>)
{
        self.get_timestamp(Prop::Due.as_ref())
    }
//@end
}
