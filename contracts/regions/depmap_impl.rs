// ================================================================================================
// src/depmap.rs : the dependency map   (C19, C18)
// ================================================================================================
//@props C19
//@extract src/depmap.rs :: struct DependencyMap
pub struct DependencyMap {
    pub edges: Vec<(Uuid, Uuid)>,
}
//@end
impl DependencyMap {
//@extract src/depmap.rs :: impl DependencyMap :: fn new
    pub fn new() -> (r: Self)
        ensures r.edges@ == Seq::<(Uuid, Uuid)>::empty(),
{
        Self { edges: Vec::new() }
    }
//@end
//@extract src/depmap.rs :: impl DependencyMap :: fn add_dependency
    pub fn add_dependency(&mut self, a: Uuid, b: Uuid)
        ensures final(self).edges@ == old(self).edges@.push((a, b)),
{
        self.edges.push((a, b));
    }
//@end
}
