pub mod apply { pub use super::apply_op; }
//@extract src/taskdb/apply.rs :: fn apply_op
pub fn apply_op(txn: &mut dyn StorageTxn, op: &SyncOp) -> (r: Result<()>)
{
    match op {
        SyncOp::Create { uuid } => {
            if !txn.create_task(*uuid)? {
                return Err(Error::Database(opaque_string()));
            }
        }
        SyncOp::Delete { ref uuid } => {
            if !txn.delete_task(*uuid)? {
                return Err(Error::Database(opaque_string()));
            }
        }
        SyncOp::Update {
            ref uuid,
            ref property,
            ref value,
            timestamp: _,
        } => {
            if let Some(mut task) = txn.get_task(*uuid)? {
                match value {
                    Some(ref val) => task.insert(property.to_string(), val.clone()),
                    None => task.remove(property),
                };
                txn.set_task(*uuid, task)?;
            } else {
                return Err(Error::Database(opaque_string()));
            }
        }
    }
    Ok(())
}
//@end
//@extract src/taskdb/sync.rs :: struct Version
pub struct Version {
    pub operations: Vec<SyncOp>,
}
//@end
//@extract src/taskdb/sync.rs :: fn apply_version
fn apply_version(
    txn: &mut dyn StorageTxn,
    local_ops: &mut Vec<SyncOp>,
    transformed_server_ops: &mut Vec<SyncOp>,
    mut version: Version,
) -> (r: Result<()>)
{
    for server_op in it_server_op: drain_all(&mut version.operations)
    {
        let mut new_local_ops = Vec::with_capacity(local_ops.len());
        let mut svr_op = Some(server_op);
        for local_op in it_local_op: drain_all(local_ops)
        {
            if let Some(o) = svr_op {
                let (new_server_op, new_local_op) = SyncOp::transform(o, local_op.clone());
                svr_op = new_server_op;
                if let Some(o) = new_local_op {
                    new_local_ops.push(o);
                }
            } else {
                new_local_ops.push(local_op);
            }
        }
        if let Some(o) = svr_op {
            if let Err(e) = apply::apply_op(txn, &o) {
            }
            transformed_server_ops.push(o);
        }
        *local_ops = new_local_ops;
    }
    Ok(())
}
//@end
// partial correctness: termination of the retry loop under endless contention is a liveness property (not claimed)
#[verifier::exec_allows_no_decreases_clause]
//@extract src/taskdb/sync.rs :: fn sync
pub fn sync(
    server: &mut Box<dyn Server>,
    txn: &mut dyn StorageTxn,
    avoid_snapshots: bool,
) -> (r: Result<()>)
{
    if txn.is_empty()? {
        if let Some((version, snap)) = server.get_snapshot()? {
            snapshot::apply_snapshot(txn, version, snap.as_ref())?;
        }
    }
    let mut transformed_server_ops = Vec::new();
    let mut base_version_id = txn.base_version()?;
    let mut local_ops = Vec::new();
    for op in it_op: txn.unsynced_operations()?
    {
        if let Some(sync_op) = SyncOp::from_op(op) {
            local_ops.push(sync_op);
        }
    }
    let mut requested_parent_version_id = None;
    loop
    {
        loop
        {
            if let GetVersionResult::Version {
                version_id,
                history_segment,
                ..
            } = server.get_child_version(base_version_id)?
            {
                let version_str = str::from_utf8(&history_segment).unwrap();
                let version: Version = serde_json::from_str(version_str).unwrap();
                apply_version(txn, &mut local_ops, &mut transformed_server_ops, version)?;
                txn.set_base_version(version_id)?;
                base_version_id = version_id;
            } else {
                break;
            }
        }
        if local_ops.is_empty() {
            break;
        }
        let mut batch_len = 0;
        let mut batch_size = 0;
        while batch_len < local_ops.len()
        {
            batch_size += serde_json::to_string(&local_ops[batch_len]).unwrap().len();
            if batch_len > 0 && batch_size > 1000000 {
                break;
            }
            batch_len += 1;
        }
        let new_version = Version {
            operations: local_ops[..batch_len].to_vec(),
        };
        let history_segment = serde_json::to_string(&new_version).unwrap().into();
        let (res, snapshot_urgency) = server.add_version(base_version_id, history_segment)?;
        match res {
            AddVersionResult::Ok(new_version_id) => {
                txn.set_base_version(new_version_id)?;
                base_version_id = new_version_id;
                local_ops = local_ops.split_off(batch_len);
                let base_urgency = if avoid_snapshots {
                    SnapshotUrgency::High
                } else {
                    SnapshotUrgency::Low
                };
                if local_ops.is_empty() && snapshot_urgency >= base_urgency {
                    let snapshot = snapshot::make_snapshot(txn)?;
                    server.add_snapshot(new_version_id, snapshot)?;
                }
            }
            AddVersionResult::ExpectedParentVersion(parent_version_id) => {
                if let Some(requested) = requested_parent_version_id {
                    if parent_version_id == requested {
                        return Err(Error::OutOfSync);
                    }
                }
                requested_parent_version_id = Some(parent_version_id);
            }
        }
    }
    for op in it_op2: transformed_server_ops
    {
        txn.add_operation(op.into_op())?;
    }
    txn.sync_complete()?;
    txn.commit()?;
    Ok(())
}
//@end
