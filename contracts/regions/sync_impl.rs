// ================================================================================================
// src/taskdb/sync.rs (Version, apply_version, sync)
// ================================================================================================
//@extract src/taskdb/sync.rs :: struct Version
pub struct Version {
    pub operations: Vec<SyncOp>,
}
//@end
//@props C01 C02 C03 C04 C20
//@extract src/taskdb/sync.rs :: fn apply_version
fn apply_version(
    txn: &mut dyn StorageTxn,
    local_ops: &mut Vec<SyncOp>,
    transformed_server_ops: &mut Vec<SyncOp>,
    mut version: Version,
) -> (r: Result<()>)
    requires old(txn).inv(),
    ensures final(txn).inv(), final(txn).stored() == old(txn).stored(),
        // only the task set changes
        final(txn).st() == (TxnView { tasks: final(txn).st().tasks, ..old(txn).st() }),
        //@ob C01 C02 C03 C04 C20 apply_version.rebase-theorem: for every base state from which both the local operations and the incoming version are valid, the new local operations are valid on top of the incoming version and reproduce the replica's new task set
        r is Ok ==> forall|b: State| rebase_pre(b, old(txn).st().tasks, old(local_ops)@, version.operations@) ==> {
            let b2 = apply_seq(b, version.operations@);
            valid_seq(b2, final(local_ops)@) && apply_seq(b2, final(local_ops)@) == final(txn).st().tasks
        },
        //@ob C04 apply_version.own-version-received-back: operations identical to the local ones cancel completely -- nothing is applied twice, nothing is left to re-send
        r is Ok && old(local_ops)@ == version.operations@ ==> final(local_ops)@.len() == 0 && final(txn).st().tasks == old(txn).st().tasks,
        //@ob C04 C02 apply_version.only-storage-errors
        r matches Err(e) ==> storage_err(e),
{
    let ghost s0 = txn.st();
    let ghost tasks0 = txn.st().tasks;
    let ghost l0 = local_ops@;
    let ghost v = version.operations@;
    for server_op in it_server_op: drain_all(&mut version.operations)
        invariant
            it_server_op.seq() == v,
            txn.inv(), txn.stored() == old(txn).stored(), s0 == old(txn).st(), tasks0 == s0.tasks,
            txn.st() == (TxnView { tasks: txn.st().tasks, ..s0 }),
            forall|b: State| rebase_pre(b, tasks0, l0, v) ==> {
                let bk = apply_seq(b, v.take(it_server_op.index() as int));
                valid_seq(bk, local_ops@) && apply_seq(bk, local_ops@) == txn.st().tasks
            },
            l0 == v ==> local_ops@ == v.skip(it_server_op.index() as int) && txn.st().tasks == tasks0,
    {
        let ghost k = it_server_op.index() as int;
        let ghost lk = local_ops@;
        let ghost tk = txn.st().tasks;
        let ghost s = server_op;
        let mut new_local_ops = Vec::with_capacity(local_ops.len());
        let mut svr_op = Some(server_op);
        proof {
            assert(lk.take(0) =~= Seq::<SyncOp>::empty());
            assert forall|b: State| rebase_pre(b, tasks0, l0, v) implies valid(apply_seq(b, v.take(k)), s) by {
                lemma_take_succ(b, v, k);
                lemma_valid_take(b, v, k + 1);
            }
        }
        for local_op in it_local_op: drain_all(local_ops)
            invariant
                it_local_op.seq() == lk,
                txn.inv(), txn.stored() == old(txn).stored(),
                txn.st() == (TxnView { tasks: txn.st().tasks, ..s0 }),
                txn.st().tasks == tk,
                0 <= k < v.len(), s == v[k],
                forall|b: State| rebase_pre(b, tasks0, l0, v) ==> {
                    let bk = apply_seq(b, v.take(k));
                    valid_seq(bk, lk) && apply_seq(bk, lk) == tk
                },
                forall|b: State| rebase_pre(b, tasks0, l0, v) ==> {
                    let bk = apply_seq(b, v.take(k));
                    let bi = apply_seq(bk, lk.take(it_local_op.index() as int));
                    valid_opt(bi, svr_op)
                    && valid_seq(apply(bk, s), new_local_ops@)
                    && apply_seq(apply(bk, s), new_local_ops@) == apply_opt(bi, svr_op)
                },
                l0 == v ==> lk == v.skip(k) && (it_local_op.index() == 0 ==> svr_op == Some(s) && new_local_ops@.len() == 0)
                    && (it_local_op.index() >= 1 ==> svr_op is None && new_local_ops@ == lk.subrange(1, it_local_op.index() as int)),
        {
            let ghost i = it_local_op.index() as int;
            let ghost svr0 = svr_op;
            let ghost nl0 = new_local_ops@;
            if let Some(o) = svr_op {
                let (new_server_op, new_local_op) = SyncOp::transform(o, local_op.clone());
                svr_op = new_server_op;
                if let Some(o) = new_local_op {
                    new_local_ops.push(o);
                }
                proof {
                    if l0 == v {
                        // the first local operation IS the incoming one: identical operations cancel
                        assert(i == 0 && local_op == lk[0] && lk[0] == v[k] && o == s);
                        lemma_ok_self_cancel(s, (new_server_op, new_local_op));
                        assert(lk.subrange(1, 1) =~= Seq::<SyncOp>::empty());
                    }
                }
                proof {
                    assert forall|b: State| rebase_pre(b, tasks0, l0, v) implies ({
                        let bk = apply_seq(b, v.take(k));
                        let bi = apply_seq(bk, lk.take(i + 1));
                        valid_opt(bi, svr_op)
                        && valid_seq(apply(bk, s), new_local_ops@)
                        && apply_seq(apply(bk, s), new_local_ops@) == apply_opt(bi, svr_op)
                    }) by {
                        let bk = apply_seq(b, v.take(k));
                        let bi = apply_seq(bk, lk.take(i));
                        lemma_take_succ(bk, lk, i);
                        lemma_valid_take(bk, lk, i + 1);
                        lemma_ok_tp1(bi, o, local_op, (new_server_op, new_local_op));
                        if let Some(o2) = new_local_op {
                            lemma_apply_seq_push(apply(bk, s), nl0, o2);
                        }
                    }
                }
            } else {
                new_local_ops.push(local_op);
                proof { if l0 == v { assert(lk.subrange(1, i + 1) =~= lk.subrange(1, i).push(lk[i])); } }
                proof {
                    assert forall|b: State| rebase_pre(b, tasks0, l0, v) implies ({
                        let bk = apply_seq(b, v.take(k));
                        let bi = apply_seq(bk, lk.take(i + 1));
                        valid_opt(bi, svr_op)
                        && valid_seq(apply(bk, s), new_local_ops@)
                        && apply_seq(apply(bk, s), new_local_ops@) == apply_opt(bi, svr_op)
                    }) by {
                        let bk = apply_seq(b, v.take(k));
                        lemma_take_succ(bk, lk, i);
                        lemma_valid_take(bk, lk, i + 1);
                        lemma_apply_seq_push(apply(bk, s), nl0, local_op);
                    }
                }
            }
        }
        proof {
            assert(lk.take(lk.len() as int) =~= lk);
        }
        if let Some(o) = svr_op {
            if !apply::try_apply_op(txn, &o)? {
            }
            transformed_server_ops.push(o);
        }
        *local_ops = new_local_ops;
        proof { if l0 == v { assert(lk.subrange(1, lk.len() as int) =~= v.skip(k + 1)); } }
        proof {
            assert forall|b: State| rebase_pre(b, tasks0, l0, v) implies ({
                let bk = apply_seq(b, v.take(k + 1));
                valid_seq(bk, local_ops@) && apply_seq(bk, local_ops@) == txn.st().tasks
            }) by {
                lemma_take_succ(b, v, k);
                lemma_valid_take(b, v, k + 1);
            }
        }
    }
    proof { assert(v.take(v.len() as int) =~= v); assert(v.skip(v.len() as int) =~= Seq::<SyncOp>::empty()); }
    Ok(())
}
//@end
//@props C01 C02
/// from_op's contract (stated through the wire view) determines its result
pub proof fn lemma_from_op_is_to_sync1(op: Operation, r: Option<SyncOp>)
    requires from_op_post(op, r)
    ensures r == to_sync1(op)
{
    match to_sync1(op) {
        Some(s) => { lemma_wire_injective(r->Some_0, s); },
        None => {},
    }
}
/// what the loop invariant of `sync` says about the server's last objection: it named a position that the replica has since passed
pub open spec fn bytes_of(v: Vec<u8>) -> Seq<u8> { v@ }
pub open spec fn req_ok(c: Chain, req: Option<Uuid>, req_pos: int) -> bool {
    req matches Some(h) ==> 0 < req_pos <= c.len() && id_at(c, req_pos) == h
}
// partial correctness: termination of the retry loop under endless contention is a liveness property (not claimed)
#[verifier::exec_allows_no_decreases_clause]
//@extract src/taskdb/sync.rs :: fn sync | R16
pub fn sync(
    server: &mut Box<dyn Server>,
    txn: &mut dyn StorageTxn,
    avoid_snapshots: bool,
) -> (r: Result<()>)
    requires
        old(txn).inv(), chain_wf(old(server).chain()),
        // the replica invariant (docs/src/sync-model.md) holds for the stored replica w.r.t. the server's chain
        exists|p: int| #[trigger] ri(old(server).chain(), p, old(txn).st().base, old(txn).st().tasks, to_sync(old(txn).st().unsynced)),
    ensures
        final(txn).inv(), chain_wf(final(server).chain()), prefix(old(server).chain(), final(server).chain()),
        //@ob C01 C02 C03 C20 sync.on-success-the-replica-is-exactly-a-version-of-the-chain-with-nothing-pending-and-committed
        r is Ok ==> final(txn).stored() == final(txn).st() && final(txn).st().unsynced.len() == 0
            && exists|p: int| #[trigger] ri(final(server).chain(), p, final(txn).st().base, final(txn).st().tasks, Seq::<SyncOp>::empty()),
        //@ob C04 sync.any-failure-leaves-the-stored-replica-untouched
        r is Err ==> final(txn).stored() == old(txn).stored(),
        //@ob C02 sync.a-correct-server-never-causes-OutOfSync
        !(r matches Err(Error::OutOfSync)),
        //@ob C15 sync.does-not-touch-the-working-set
        r is Ok ==> final(txn).st().ws == old(txn).st().ws,
{
    let ghost c0 = server.chain();
    let ghost st0 = txn.st();
    let ghost mut p: int = choose|p: int| ri(c0, p, st0.base, st0.tasks, to_sync(st0.unsynced));
    if txn.is_empty()? {
        if let Some((version, snap)) = server.get_snapshot()? {
            let ghost c1 = server.chain();
            proof {
                assert(st0.unsynced =~= Seq::<Operation>::empty());
                assert(to_sync(st0.unsynced) =~= Seq::<SyncOp>::empty());
            }
            snapshot::apply_snapshot(txn, version, snap.as_ref())?;
            proof {
                p = choose|k: int| 0 < k <= c1.len() && #[trigger] id_at(c1, k) == version
                    && snap_decodable(snap@) && snap_decode(snap@) == replay(c1, k);
            }
        }
        else {
            proof { lemma_ri_monotone(c0, server.chain(), p, st0.base, st0.tasks, to_sync(st0.unsynced)); }
        }
    }
    let mut transformed_server_ops = Vec::new();
    let mut base_version_id = txn.base_version()?;
    let mut local_ops = Vec::new();
    let ghost st1 = txn.st();
    let ghost c1 = server.chain();
    proof { assert(Seq::<Operation>::empty().take(0) =~= Seq::<Operation>::empty()); }
    for op in it_op: txn.unsynced_operations()?
        invariant
            it_op.seq() == st1.unsynced,
            local_ops@ == to_sync(st1.unsynced.take(it_op.index() as int)),
            txn.inv(), txn.st() == st1, txn.stored() == old(txn).stored(), server.chain() == c1, chain_wf(c1), prefix(c0, c1), c0 == old(server).chain(),
            st1.ws == old(txn).st().ws,
            base_version_id == st1.base,
            ri(c1, p, st1.base, st1.tasks, to_sync(st1.unsynced)),
    {
        let ghost k = it_op.index() as int;
        proof {
            assert(st1.unsynced.take(k + 1) =~= st1.unsynced.take(k).push(op));
            lemma_to_sync_push(st1.unsynced.take(k), op);
        }
        if let Some(sync_op) = SyncOp::from_op(op) {
            proof { lemma_from_op_is_to_sync1(op, Some(sync_op)); }
            local_ops.push(sync_op);
        }
        else {
            proof { lemma_from_op_is_to_sync1(op, None); }
        }
    }
    proof { assert(st1.unsynced.take(st1.unsynced.len() as int) =~= st1.unsynced); }
    let mut requested_parent_version_id = None;
    let ghost mut req_pos: int = 0;
    loop
        invariant
            c0 == old(server).chain(), chain_wf(server.chain()), prefix(c0, server.chain()),
            txn.inv(), txn.stored() == old(txn).stored(),
            txn.st() == (TxnView { tasks: txn.st().tasks, base: txn.st().base, ..st1 }),
            st1.ws == old(txn).st().ws,
            base_version_id == txn.st().base,
            //@ob C01 C02 C03 C14 C20 sync.loop-invariant: the replica invariant holds for the rebased local operations, over ALL that remain unsent
            ri(server.chain(), p, txn.st().base, txn.st().tasks, local_ops@),
            req_ok(server.chain(), requested_parent_version_id, req_pos),
            requested_parent_version_id is Some ==> req_pos <= p || true,
        ensures
            local_ops@.len() == 0,
    {
        loop
            invariant
                c0 == old(server).chain(), chain_wf(server.chain()), prefix(c0, server.chain()),
                txn.inv(), txn.stored() == old(txn).stored(),
                txn.st() == (TxnView { tasks: txn.st().tasks, base: txn.st().base, ..st1 }),
                st1.ws == old(txn).st().ws,
                base_version_id == txn.st().base,
                ri(server.chain(), p, txn.st().base, txn.st().tasks, local_ops@),
                req_ok(server.chain(), requested_parent_version_id, req_pos),
            ensures
                requested_parent_version_id is Some ==> req_pos <= p,
        {
            let ghost ca = server.chain();
            if let GetVersionResult::Version {
                version_id,
                history_segment,
                ..
            } = server.get_child_version(base_version_id)?
            {
                let version_str = str::from_utf8(&history_segment).unwrap();
                let version: Version = serde_json::from_str(version_str).unwrap();
                let ghost cb = server.chain();
                let ghost t1 = txn.st().tasks;
                let ghost l1 = local_ops@;
                let ghost vops = version.operations@;
                proof {
                    lemma_replay_prefix(ca, cb, p);
                    lemma_prefix_trans(c0, ca, cb);
                    let k = choose|k: int| version_at(cb, k, base_version_id, version_id, decode(history_segment@));
                    lemma_id_at_unique(cb, k, p);
                    if requested_parent_version_id is Some { lemma_replay_prefix(ca, cb, req_pos); }
                    assert(rebase_pre(replay(cb, p), t1, l1, vops));
                }
                apply_version(txn, &mut local_ops, &mut transformed_server_ops, version)?;
                txn.set_base_version(version_id)?;
                base_version_id = version_id;
                proof {
                    assert(rebase_pre(replay(cb, p), t1, l1, vops));
                    assert(replay(cb, p + 1) == apply_seq(replay(cb, p), cb[p].ops));
                    p = p + 1;
                }
            } else {
                proof {
                    let cb = server.chain();
                    lemma_replay_prefix(ca, cb, p);
                    lemma_prefix_trans(c0, ca, cb);
                    if requested_parent_version_id is Some { lemma_replay_prefix(ca, cb, req_pos); }
                    let m = choose|m: int| ca.len() <= m <= cb.len() && no_child_within(cb, m, base_version_id);
                    // the base version is id_at(cb, p) and has no child among the first m versions, so p >= m
                    if p < m { assert(id_at(cb, p) != base_version_id); }
                }
                break;
            }
        }
        if local_ops.is_empty() {
            break;
        }
        let mut batch_len = 0;
        let mut batch_size = 0;
        while batch_len < local_ops.len()
            invariant_except_break
                batch_len == 1 ==> batch_size <= isize::MAX,
                batch_len >= 2 ==> batch_size <= 1000000,
            invariant
                batch_len <= local_ops.len(), local_ops.len() > 0,
                batch_len == 0 ==> batch_size == 0,
            ensures
                //@ob C01 sync.batches-hold-at-least-one-operation
                1 <= batch_len <= local_ops.len(),
            decreases local_ops.len() - batch_len,
        {
            batch_size += serde_json::to_string(&local_ops[batch_len]).unwrap().len();
            if batch_len > 0 && batch_size > 1000000 {
                break;
            }
            batch_len += 1;
        }
        let new_version = Version {
            operations: local_ops[..batch_len].to_vec(),
        };
        let history_segment = into_conv(serde_json::to_string(&new_version).unwrap());
        let ghost ca = server.chain();
        let ghost l1 = local_ops@;
        let ghost n = batch_len as int;
        let ghost seg = bytes_of(history_segment);
        proof {
            assert(new_version.operations@ =~= l1.take(n));
            assert(decodable(seg) && decode(seg) == l1.take(n));
            lemma_valid_take_skip(replay(ca, p), l1, n);
            assert forall|k: int| 0 <= k <= ca.len() && #[trigger] id_at(ca, k) == base_version_id
                implies valid_seq(replay(ca, k), decode(seg)) by {
                lemma_id_at_unique(ca, k, p);
            }
        }
        let (res, snapshot_urgency) = server.add_version(base_version_id, history_segment)?;
        let ghost cb = server.chain();
        proof {
            lemma_replay_prefix(ca, cb, p);
            lemma_prefix_trans(c0, ca, cb);
            if requested_parent_version_id is Some { lemma_replay_prefix(ca, cb, req_pos); }
        }
        match res {
            AddVersionResult::Ok(new_version_id) => {
                txn.set_base_version(new_version_id)?;
                base_version_id = new_version_id;
                local_ops = local_ops.split_off(batch_len);
                proof {
                    assert(local_ops@ =~= l1.skip(n));
                    let k = choose|k: int| ca.len() <= k && version_at(cb, k, id_at(cb, p), new_version_id, l1.take(n));
                    lemma_id_at_unique(cb, k, p);
                    assert(replay(cb, p + 1) == apply_seq(replay(cb, p), cb[p].ops));
                    p = p + 1;
                }
                let base_urgency = if avoid_snapshots {
                    SnapshotUrgency::High
                } else {
                    SnapshotUrgency::Low
                };
                if local_ops.is_empty() && snapshot_urgency >= base_urgency {
                    let snapshot = snapshot::make_snapshot(txn)?;
                    proof {
                        assert(id_at(cb, p) == new_version_id);
                    }
                    let ghost cc = server.chain();
                    //@ob C12 sync.snapshot-only-when-the-server's-urgency-meets-the-replica's-threshold (High when avoiding snapshots, else Low)
                    proof { assert(urgency_rank(snapshot_urgency) >= (if avoid_snapshots { 2int } else { 1int })); }
                    server.add_snapshot(new_version_id, snapshot)?;
                    proof {
                        let cd = server.chain();
                        lemma_replay_prefix(cc, cd, p);
                        lemma_prefix_trans(c0, cc, cd);
                        if requested_parent_version_id is Some { lemma_replay_prefix(cc, cd, req_pos); }
                    }
                }
            }
            AddVersionResult::ExpectedParentVersion(parent_version_id) => {
                let ghost m = choose|m: int| ca.len() <= m && head_is(cb, m, parent_version_id);
                if let Some(requested) = requested_parent_version_id {
                    if parent_version_id == requested {
                        proof {
                            // the server named the same head twice although the replica had pulled up to it: impossible
                            lemma_id_at_unique(cb, m, req_pos);
                            assert(m == p);
                            assert(false);
                        }
                        return Err(Error::OutOfSync);
                    }
                }
                requested_parent_version_id = Some(parent_version_id);
                proof { req_pos = m; }
            }
        }
    }
    let ghost cf = server.chain();
    let ghost sf = txn.st();
    proof { assert(local_ops@ =~= Seq::<SyncOp>::empty()); }
    for op in it_op2: transformed_server_ops
        invariant
            txn.inv(), txn.stored() == old(txn).stored(), server.chain() == cf, chain_wf(cf), prefix(c0, cf), c0 == old(server).chain(),
            txn.st() == (TxnView { unsynced: txn.st().unsynced, ..sf }),
            sf.ws == old(txn).st().ws,
    {
        txn.add_operation(op.into_op())?;
    }
    txn.sync_complete()?;
    txn.commit()?;
    proof { assert(ri(cf, p, txn.st().base, txn.st().tasks, Seq::<SyncOp>::empty())); }
    Ok(())
}
//@end
