// ================================================================================================
// src/server/local/mod.rs : LocalServer against the chain protocol, over a ghost database behind its SQL helpers
// (C08, C11 -- local backend only)
// ================================================================================================
//@props C08 C11
pub const NIL_VERSION_ID: VersionId = Uuid(0); //@ stands for `Uuid::nil()` (A1) in src/server/types.rs
//@extract src/server/local/mod.rs :: struct Version
pub struct Version {
    pub version_id: VersionId,
    pub parent_version_id: VersionId,
    pub history_segment: HistorySegment,
}
//@end
// ---------- ghost database behind the SQL helpers ----------
pub struct Row { pub id: Uuid, pub parent: Uuid, pub seg: Seq<u8> }
pub struct Db { pub latest: Uuid, pub rows: Set<Row> }
/// the rows are exactly one parent-linked chain ending at `latest`
pub open spec fn is_chain(db: Db, c: Seq<Row>) -> bool {
    &&& forall|k: int| 0 < k < c.len() ==> (#[trigger] c[k]).parent == c[k - 1].id
    &&& forall|k: int| 0 <= k < c.len() ==> (#[trigger] c[k]).id != Uuid::nil_spec()
    &&& forall|i: int, j: int| 0 <= i < j < c.len() ==> (#[trigger] c[i]).id != (#[trigger] c[j]).id
    &&& forall|k: int| 0 <= k < c.len() ==> (#[trigger] c[k]).id != c[0].parent   // the root is not a version id
    &&& db.latest == (if c.len() == 0 { Uuid::nil_spec() } else { c.last().id })
    &&& forall|r: Row| db.rows.contains(r) <==> (exists|k: int| 0 <= k < c.len() && #[trigger] c[k] == r)
}
/// C08/C11: the backend invariant -- it must hold after every SQL transaction, not only at the end of a request
pub open spec fn db_inv(db: Db) -> bool { exists|c: Seq<Row>| #[trigger] is_chain(db, c) }
/// hypothesis on Uuid::new_v4 (A1): the new id is not nil and is not already used as a version id or as a parent
pub open spec fn fresh_for(id: Uuid, parent: Uuid, db: Db) -> bool {
    id != Uuid::nil_spec() && id != parent && forall|row: Row| db.rows.contains(row) ==> row.id != id && row.parent != id
}
pub open spec fn db_add(db: Db, id: Uuid, parent: Uuid, seg: Seq<u8>) -> Db {
    Db { latest: id, rows: db.rows.insert(Row { id, parent, seg }) }
}

#[verifier::external_body]
pub struct LocalServer { con: () }
impl LocalServer {
    /// the content of the SQLite file, as the SQL helpers see it
    pub uninterp spec fn db(&self) -> Db;

    // SQL helpers (A8, TRUSTED): bodies are SQL text run through rusqlite; each is ONE SQLite transaction, so a failure or
    // a stop inside one leaves the database as it was.  Their text is hashed; a change makes the check UNDECIDED.
//@watch C11 :: src/server/local/mod.rs :: struct LocalServer
//@watch C11 :: src/server/local/mod.rs :: impl LocalServer :: fn txn
//@watch C11 :: src/server/local/mod.rs :: impl LocalServer :: fn new
//@watch C11 :: src/server/local/mod.rs :: impl LocalServer :: fn get_latest_version_id
    #[verifier::external_body]
    fn get_latest_version_id(&mut self) -> (r: Result<VersionId>)
        ensures final(self).db() == old(self).db(), r matches Ok(v) ==> v == old(self).db().latest
    { unimplemented!() }
//@watch C11 :: src/server/local/mod.rs :: impl LocalServer :: fn get_version_by_parent_version_id
    #[verifier::external_body]
    fn get_version_by_parent_version_id(&mut self, parent_version_id: VersionId) -> (r: Result<Option<Version>>)
        ensures final(self).db() == old(self).db(),
            r matches Ok(Some(v)) ==> v.parent_version_id == parent_version_id
                && old(self).db().rows.contains(Row { id: v.version_id, parent: v.parent_version_id, seg: v.history_segment@ }),
            r matches Ok(None) ==> forall|row: Row| old(self).db().rows.contains(row) ==> row.parent != parent_version_id,
    { unimplemented!() }
//@watch C11 :: src/server/local/mod.rs :: impl LocalServer :: fn add_version_by_parent_version_id
    #[verifier::external_body]
    fn add_version_by_parent_version_id(&mut self, version: Version) -> (r: Result<()>)
        // one transaction: inserts the version row AND makes it the latest version
        ensures r is Ok ==> final(self).db() == db_add(old(self).db(), version.version_id, version.parent_version_id, version.history_segment@),
                r is Err ==> final(self).db() == old(self).db()
    { unimplemented!() }
}
pub proof fn lemma_add_keeps_chain(db0: Db, id: Uuid, parent: Uuid, seg: Seq<u8>)
    requires db_inv(db0), fresh_for(id, parent, db0), db0.latest == Uuid::nil_spec() || parent == db0.latest,
    ensures db_inv(db_add(db0, id, parent, seg)),
{
    let c = choose|c: Seq<Row>| is_chain(db0, c);
    let row = Row { id, parent, seg };
    let db1 = db_add(db0, id, parent, seg);
    if db0.latest == Uuid::nil_spec() && c.len() > 0 {
        // a non-empty chain has a non-nil latest
        assert(c[c.len() - 1].id != Uuid::nil_spec());
    }
    let c2 = c.push(row);
    assert(c2.last() == row);
    assert forall|r: Row| db1.rows.contains(r) <==> (exists|k: int| 0 <= k < c2.len() && #[trigger] c2[k] == r) by {
        if db1.rows.contains(r) {
            if r == row { assert(c2[c.len() as int] == r); }
            else { let k = choose|k: int| 0 <= k < c.len() && #[trigger] c[k] == r; assert(c2[k] == r); }
        }
        if exists|k: int| 0 <= k < c2.len() && #[trigger] c2[k] == r {
            let k = choose|k: int| 0 <= k < c2.len() && #[trigger] c2[k] == r;
            if k < c.len() { assert(c[k] == r); assert(db0.rows.contains(r)); }
        }
    }
    assert forall|k: int| 0 <= k < c.len() implies db0.rows.contains(#[trigger] c[k]) by {}
    if c.len() > 0 { assert(db0.rows.contains(c[0])); assert(db0.rows.contains(c[c.len() - 1])); assert(c2[c.len() - 1] == c[c.len() - 1]); }
    assert forall|k: int| 0 <= k < c2.len() implies (#[trigger] c2[k]).id != c2[0].parent by { if k < c.len() { assert(c2[k] == c[k]); assert(c2[0] == c[0]); } else if c.len() > 0 { assert(c2[0] == c[0]); } }
    assert forall|i: int, j: int| 0 <= i < j < c2.len() implies (#[trigger] c2[i]).id != (#[trigger] c2[j]).id by { if j < c.len() { assert(c2[i] == c[i] && c2[j] == c[j]); } else { assert(c2[i] == c[i]); assert(db0.rows.contains(c[i])); } }
    assert forall|k: int| 0 < k < c2.len() implies (#[trigger] c2[k]).parent == c2[k - 1].id by { if k < c.len() { assert(c2[k] == c[k] && c2[k - 1] == c[k - 1]); } }
    assert(is_chain(db1, c2));
}
// the methods of `impl Server for LocalServer`, verified as inherent methods against the sequential chain protocol
impl LocalServer {
//@extract src/server/local/mod.rs :: impl Server for LocalServer :: fn add_version
    fn add_version(
        &mut self,
        parent_version_id: VersionId,
        history_segment: HistorySegment,
    ) -> (r: Result<(AddVersionResult, SnapshotUrgency)>)
        requires db_inv(old(self).db()),
        ensures
            match r {
                //@ob C08 add_version.accepts-only-a-child-of-the-latest-version (any parent when none exists) and stores exactly what was submitted
                Ok((AddVersionResult::Ok(id), _)) =>
                    (old(self).db().latest == Uuid::nil_spec() || parent_version_id == old(self).db().latest)
                    && final(self).db() == db_add(old(self).db(), id, parent_version_id, history_segment@)
                    && (fresh_for(id, parent_version_id, old(self).db()) ==> db_inv(final(self).db())),
                //@ob C08 add_version.otherwise-rejects-naming-the-current-latest-and-changes-nothing
                Ok((AddVersionResult::ExpectedParentVersion(l), _)) =>
                    l == old(self).db().latest && l != Uuid::nil_spec() && l != parent_version_id && final(self).db() == old(self).db(),
                //@ob C11 add_version.a-failure-at-any-step-leaves-the-database-as-it-was
                Err(_) => final(self).db() == old(self).db(),
            },
{
        let ghost db0 = self.db();
        let latest_version_id = self.get_latest_version_id()?;
        //@ob C11 C08 add_version.crash-invariant-after-the-read
        proof { assert(self.db() == db0 && db_inv(self.db())); }
        if latest_version_id != NIL_VERSION_ID && parent_version_id != latest_version_id {
            return Ok((
                AddVersionResult::ExpectedParentVersion(latest_version_id),
                SnapshotUrgency::None,
            ));
        }
        let version_id = Uuid::new_v4();
        let ghost seg = history_segment@;
        self.add_version_by_parent_version_id(Version {
            version_id,
            parent_version_id,
            history_segment,
        })?;
        //@ob C11 C08 add_version.crash-invariant-after-the-write: the version is either not there at all or fully accepted (row and latest pointer together)
        proof {
            assert(self.db() == db_add(db0, version_id, parent_version_id, seg));
            if fresh_for(version_id, parent_version_id, db0) { lemma_add_keeps_chain(db0, version_id, parent_version_id, seg); }
        }
        Ok((AddVersionResult::Ok(version_id), SnapshotUrgency::None))
    }
//@end
//@extract src/server/local/mod.rs :: impl Server for LocalServer :: fn get_child_version
    fn get_child_version(
        &mut self,
        parent_version_id: VersionId,
    ) -> (r: Result<GetVersionResult>)
        ensures final(self).db() == old(self).db(),
            match r {
                //@ob C08 get_child_version.returns-a-stored-version-byte-for-byte
                Ok(GetVersionResult::Version { version_id, parent_version_id: p, history_segment }) =>
                    p == parent_version_id && old(self).db().rows.contains(Row { id: version_id, parent: p, seg: history_segment@ }),
                //@ob C08 get_child_version.unknown-parent-yields-no-such-version
                Ok(GetVersionResult::NoSuchVersion) => forall|row: Row| old(self).db().rows.contains(row) ==> row.parent != parent_version_id,
                Err(_) => true,
            },
{
        if let Some(version) = self.get_version_by_parent_version_id(parent_version_id)? {
            Ok(GetVersionResult::Version {
                version_id: version.version_id,
                parent_version_id: version.parent_version_id,
                history_segment: version.history_segment,
            })
        } else {
            Ok(GetVersionResult::NoSuchVersion)
        }
    }
//@end
//@extract src/server/local/mod.rs :: impl Server for LocalServer :: fn add_snapshot
    fn add_snapshot(&mut self, _version_id: VersionId, _snapshot: Snapshot) -> (r: Result<()>)
        // the local server never asks for a snapshot (urgency None on every reply), so sync never calls this
        requires false,
{
        unreachable!()
    }
//@end
//@extract src/server/local/mod.rs :: impl Server for LocalServer :: fn get_snapshot
    fn get_snapshot(&mut self) -> (r: Result<Option<(VersionId, Snapshot)>>)
        ensures final(self).db() == old(self).db(),
            //@ob C08 get_snapshot.the-local-server-stores-no-snapshot
            r matches Ok(None),
{
        Ok(None)
    }
//@end
}
//@props C08
/// in a chain-shaped database each parent has at most one child, so the child returned is THE child
pub proof fn lemma_one_child_per_parent(db: Db, a: Row, b: Row)
    requires db_inv(db), db.rows.contains(a), db.rows.contains(b), a.parent == b.parent,
    ensures a == b,
{
    let c = choose|c: Seq<Row>| is_chain(db, c);
    let i = choose|i: int| 0 <= i < c.len() && #[trigger] c[i] == a;
    let j = choose|j: int| 0 <= j < c.len() && #[trigger] c[j] == b;
    if i != j {
        if i == 0 { assert(c[j].parent == c[j - 1].id); assert(c[j - 1].id != c[0].parent); }
        else if j == 0 { assert(c[i].parent == c[i - 1].id); assert(c[i - 1].id != c[0].parent); }
        else { assert(c[i].parent == c[i - 1].id); assert(c[j].parent == c[j - 1].id); if i < j { assert(c[i - 1].id != c[j - 1].id); } else { assert(c[j - 1].id != c[i - 1].id); } }
    }
}
