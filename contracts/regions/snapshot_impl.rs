// ================================================================================================
// src/taskdb/snapshot.rs
// ================================================================================================
pub mod snapshot { pub use super::{make_snapshot, apply_snapshot}; }
//@props C12
//@extract src/taskdb/snapshot.rs :: struct SnapshotTasks
pub struct SnapshotTasks(pub Vec<(Uuid, TaskMap)>);
//@end
impl SnapshotTasks {
//@extract src/taskdb/snapshot.rs :: impl SnapshotTasks :: fn into_inner
    pub fn into_inner(self) -> (r: Vec<(Uuid, TaskMap)>)
        ensures r == self.0,
{
        self.0
    }
//@end
    // A6 (TRUSTED): JSON+zlib encoding of a task list and its inverse
    #[verifier::external_body]
    pub fn encode(&self) -> (r: Result<Vec<u8>>)
        ensures match r {
            Ok(b) => snap_decodable(b@) && forall|t: State| tasks_listed(self.0@, t) ==> snap_decode(b@) == t,
            Err(e) => storage_err(e),
        }
    { unimplemented!() }
    #[verifier::external_body]
    pub fn decode(snapshot: &[u8]) -> (r: Result<Self>)
        ensures match r {
            Ok(st) => snap_decodable(snapshot@) ==> tasks_listed(st.0@, snap_decode(snapshot@)),
            Err(e) => storage_err(e) && !snap_decodable(snapshot@),
        }
    { unimplemented!() }
}
//@extract src/taskdb/snapshot.rs :: fn make_snapshot
pub fn make_snapshot(txn: &mut dyn StorageTxn) -> (r: Result<Vec<u8>>)
    requires old(txn).inv(),
    ensures final(txn).inv(), final(txn).st() == old(txn).st(), final(txn).stored() == old(txn).stored(),
        //@ob C12 C01 make_snapshot.encodes-exactly-the-current-task-set
        match r {
            Ok(b) => snap_decodable(b@) && snap_decode(b@) == old(txn).st().tasks,
            Err(e) => storage_err(e),
        },
{
    let all_tasks = SnapshotTasks(txn.all_tasks()?);
    proof { assert(tasks_listed(all_tasks.0@, txn.st().tasks)); }
    all_tasks.encode()
}
//@end
//@extract src/taskdb/snapshot.rs :: fn apply_snapshot
pub fn apply_snapshot(
    txn: &mut dyn StorageTxn,
    version: VersionId,
    snapshot: &[u8],
) -> (r: Result<()>)
    requires old(txn).inv(),
    ensures final(txn).inv(), final(txn).stored() == old(txn).stored(),
        //@ob C12 apply_snapshot.never-replaces-existing-data
        !is_empty_view(old(txn).st()) ==> r is Err && final(txn).st() == old(txn).st(),
        //@ob C12 C01 apply_snapshot.installs-exactly-the-decoded-task-set-and-its-version
        r is Ok ==> is_empty_view(old(txn).st())
            && (snap_decodable(snapshot@) ==> final(txn).st() == (TxnView { tasks: snap_decode(snapshot@), base: version, ..old(txn).st() })),
        r matches Err(e) ==> storage_err(e) || (e is Database),
{
    let ghost s0 = txn.st();
    let all_tasks = SnapshotTasks::decode(snapshot)?;
    if !txn.is_empty()? {
        return Err(Error::Database(String::from(
            "Cannot apply snapshot to a non-empty task database",
        )));
    }
    let ghost lst = all_tasks.0@;
    proof { assert(s0.tasks =~= Map::<Uuid, TaskMapS>::empty()); }
    for (uuid, task) in it_uuid: drain_all(&mut all_tasks.into_inner())
        invariant
            it_uuid.seq() == lst, s0 == old(txn).st(), is_empty_view(s0),
            txn.inv(), txn.stored() == old(txn).stored(),
            txn.st() == (TxnView { tasks: txn.st().tasks, ..s0 }),
            forall|t: State| tasks_listed(lst, t) ==> listed_prefix(lst, t, it_uuid.index() as int, txn.st().tasks),
    {
        let ghost i = it_uuid.index() as int;
        let ghost t_before = txn.st().tasks;
        txn.set_task(uuid, task)?;
        proof {
            assert forall|t: State| tasks_listed(lst, t) implies listed_prefix(lst, t, i + 1, txn.st().tasks) by {
                assert(listed_prefix(lst, t, i, t_before));
                assert(lst[i].0 == uuid && lst[i].1@ == task@);
                assert forall|u: Uuid| #[trigger] txn.st().tasks.dom().contains(u) <==> (exists|j: int| 0 <= j < i + 1 && #[trigger] lst[j].0 == u) by {
                    if u == uuid { assert(lst[i].0 == u); }
                    else {
                        if t_before.dom().contains(u) { let j = choose|j: int| 0 <= j < i && #[trigger] lst[j].0 == u; assert(lst[j].0 == u); }
                        if exists|j: int| 0 <= j < i + 1 && #[trigger] lst[j].0 == u { let j = choose|j: int| 0 <= j < i + 1 && #[trigger] lst[j].0 == u; assert(j < i); assert(lst[j].0 == u); }
                    }
                }
            }
        }
    }
    proof {
        if snap_decodable(snapshot@) {
            let t = snap_decode(snapshot@);
            assert(listed_prefix(lst, t, lst.len() as int, txn.st().tasks));
            assert(txn.st().tasks =~= t) by {
                assert forall|u: Uuid| txn.st().tasks.dom().contains(u) <==> t.dom().contains(u) by {
                    if t.dom().contains(u) { let j = choose|j: int| 0 <= j < lst.len() && #[trigger] lst[j].0 == u; assert(lst[j].0 == u); }
                    if txn.st().tasks.dom().contains(u) { let j = choose|j: int| 0 <= j < lst.len() && #[trigger] lst[j].0 == u; assert(t.dom().contains(lst[j].0)); }
                }
            }
        }
    }
    txn.set_base_version(version)?;
    Ok(())
}
//@end

/// the first n pairs of a task listing, written one by one into an empty store, give the listed tasks restricted to them
pub open spec fn listed_prefix(lst: Seq<(Uuid, TaskMap)>, t: State, n: int, cur: State) -> bool {
    &&& forall|u: Uuid| #[trigger] cur.dom().contains(u) <==> (exists|j: int| 0 <= j < n && #[trigger] lst[j].0 == u)
    &&& forall|u: Uuid| #[trigger] cur.dom().contains(u) ==> t.dom().contains(u) && cur[u] == t[u]
}
