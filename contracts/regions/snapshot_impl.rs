pub mod snapshot { pub use super::{make_snapshot, apply_snapshot}; }
//@extract src/taskdb/snapshot.rs :: struct SnapshotTasks
pub struct SnapshotTasks(pub Vec<(Uuid, TaskMap)>);
//@end
impl SnapshotTasks {
//@extract src/taskdb/snapshot.rs :: impl SnapshotTasks :: fn into_inner
    pub fn into_inner(self) -> (r: Vec<(Uuid, TaskMap)>)
        ensures r == self.0,
{
        self.0
    }
//@end
    // A6 (TRUSTED): JSON+zlib encoding of a task list and its inverse
    #[verifier::external_body]
    pub fn encode(&self) -> (r: Result<Vec<u8>>)
        ensures match r {
            Ok(b) => snap_decodable(b@) && forall|t: State| tasks_listed(self.0@, t) ==> snap_decode(b@) == t,
            Err(e) => storage_err(e),
        }
    { unimplemented!() }
    #[verifier::external_body]
    pub fn decode(snapshot: &[u8]) -> (r: Result<Self>)
        ensures match r {
            Ok(st) => snap_decodable(snapshot@) ==> tasks_listed(st.0@, snap_decode(snapshot@)),
            Err(e) => storage_err(e) && !snap_decodable(snapshot@),
        }
    { unimplemented!() }
}
//@extract src/taskdb/snapshot.rs :: fn make_snapshot
pub fn make_snapshot(txn: &mut dyn StorageTxn) -> (r: Result<Vec<u8>>)
{
    let all_tasks = SnapshotTasks(txn.all_tasks()?);
    all_tasks.encode()
}
//@end
//@extract src/taskdb/snapshot.rs :: fn apply_snapshot
pub fn apply_snapshot(
    txn: &mut dyn StorageTxn,
    version: VersionId,
    snapshot: &[u8],
) -> (r: Result<()>)
{
    let all_tasks = SnapshotTasks::decode(snapshot)?;
    if !txn.is_empty()? {
        return Err(Error::Database(String::from(
            "Cannot apply snapshot to a non-empty task database",
        )));
    }
    for (uuid, task) in it_uuid: drain_all(&mut all_tasks.into_inner())
    {
        txn.set_task(uuid, task)?;
    }
    txn.set_base_version(version)?;
    Ok(())
}
//@end
