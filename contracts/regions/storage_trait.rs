// ================================================================================================
// The documented StorageTxn contract (doc comments of src/storage/mod.rs), stated over a ghost view.
// Every method may fail (storage fault) and then changes nothing; no storage returns Error::OutOfSync.
// ================================================================================================
pub struct TxnView {
    pub tasks: State,
    /// operations not yet synchronized, oldest first
    pub unsynced: Seq<Operation>,
    /// operations already synchronized (kept for history)
    pub synced: Seq<Operation>,
    pub base: Uuid,
    /// working set; index 0 is always None
    pub ws: Seq<Option<Uuid>>,
}
pub open spec fn ws_wf(ws: Seq<Option<Uuid>>) -> bool { ws.len() >= 1 && ws[0] is None }
/// trailing blanks (beyond index 0) are not stored ("one greater than the highest used index")
pub open spec fn ws_trim(ws: Seq<Option<Uuid>>) -> Seq<Option<Uuid>>
    decreases ws.len()
{
    if ws.len() > 1 && ws.last() is None { ws_trim(ws.drop_last()) } else { ws }
}
pub open spec fn tasks_listed(v: Seq<(Uuid, TaskMap)>, tasks: State) -> bool {
    &&& forall|i: int| 0 <= i < v.len() ==> tasks.dom().contains(#[trigger] v[i].0) && v[i].1@ == tasks[v[i].0]
    &&& forall|u: Uuid| tasks.dom().contains(u) ==> exists|i: int| 0 <= i < v.len() && #[trigger] v[i].0 == u
    &&& forall|i: int, j: int| 0 <= i < j < v.len() ==> (#[trigger] v[i].0) != (#[trigger] v[j].0)
}
pub open spec fn uuids_listed(v: Seq<Uuid>, tasks: State) -> bool {
    &&& forall|i: int| 0 <= i < v.len() ==> tasks.dom().contains(#[trigger] v[i])
    &&& forall|u: Uuid| tasks.dom().contains(u) ==> exists|i: int| 0 <= i < v.len() && #[trigger] v[i] == u
    &&& forall|i: int, j: int| 0 <= i < j < v.len() ==> (#[trigger] v[i]) != (#[trigger] v[j])
}
/// the task an operation belongs to (src/operation.rs `Operation::get_uuid`; the SQLite store keeps it in a generated column)
pub open spec fn op_uuid(o: Operation) -> Option<Uuid> {
    match o {
        Operation::Create { uuid, .. } => Some(uuid),
        Operation::Update { uuid, .. } => Some(uuid),
        Operation::Delete { uuid, .. } => Some(uuid),
        Operation::UndoPoint => None,
    }
}
/// the operations of task `u`, oldest first ("SELECT data FROM operations where uuid=? ORDER BY id ASC")
pub open spec fn ops_for(s: Seq<Operation>, u: Uuid) -> Seq<Operation>
    decreases s.len()
{
    if s.len() == 0 { Seq::empty() } else if op_uuid(s.last()) == Some(u) { ops_for(s.drop_last(), u).push(s.last()) } else { ops_for(s.drop_last(), u) }
}
/// the clean-up of sync_complete: operations whose task no longer exists are dropped; undo points (no task) stay
pub open spec fn op_live(o: Operation, tasks: State) -> bool { op_uuid(o) matches Some(u) ==> tasks.dom().contains(u) }
pub open spec fn live_ops(s: Seq<Operation>, tasks: State) -> Seq<Operation>
    decreases s.len()
{
    if s.len() == 0 { Seq::empty() } else if op_live(s.last(), tasks) { live_ops(s.drop_last(), tasks).push(s.last()) } else { live_ops(s.drop_last(), tasks) }
}
/// the tasks named by the working set that exist ("tasks JOIN working_set ON tasks.uuid = working_set.uuid"), one entry per listing
pub open spec fn pending_of(ws: Seq<Option<Uuid>>, tasks: State) -> Seq<(Uuid, Map<Seq<char>, Seq<char>>)>
    decreases ws.len()
{
    if ws.len() == 0 { Seq::empty() }
    else if ws.last() is Some && tasks.dom().contains(ws.last()->Some_0) { pending_of(ws.drop_last(), tasks).push((ws.last()->Some_0, tasks[ws.last()->Some_0])) }
    else { pending_of(ws.drop_last(), tasks) }
}
pub open spec fn pairs_view(v: Seq<(Uuid, TaskMap)>) -> Seq<(Uuid, Map<Seq<char>, Seq<char>>)> { Seq::new(v.len(), |i: int| (v[i].0, v[i].1@)) }
pub open spec fn storage_err(e: Error) -> bool { !(e is OutOfSync) }
pub open spec fn is_empty_view(s: TxnView) -> bool {
    s.tasks.dom() =~= Set::<Uuid>::empty() && s.ws =~= seq![None::<Uuid>] && s.base == Uuid::nil_spec() && s.unsynced.len() == 0
}

//@extract src/storage/mod.rs :: trait StorageTxn
pub trait StorageTxn: Send {
    /// ghost view of everything the transaction would commit
    spec fn st(&self) -> TxnView;
    /// what is durably visible to other transactions: changes only in `commit` ("a transaction is not visible to other
    /// readers until it is committed"; "transactions are aborted if they are dropped")
    spec fn stored(&self) -> TxnView;
    /// representation invariant of the implementation
    spec fn inv(&self) -> bool;
    fn get_task(&mut self, uuid: Uuid) -> (r: Result<Option<TaskMap>>)
        requires old(self).inv(),
        ensures final(self).inv(), final(self).st() == old(self).st(), final(self).stored() == old(self).stored(),
            match r {
                Ok(Some(m)) => old(self).st().tasks.dom().contains(uuid) && m@ == old(self).st().tasks[uuid],
                Ok(None) => !old(self).st().tasks.dom().contains(uuid),
                Err(e) => storage_err(e),
            },
    ;
    fn get_pending_tasks(&mut self) -> (r: Result<Vec<(Uuid, TaskMap)>>)
        requires old(self).inv(),
        ensures final(self).inv(), final(self).st() == old(self).st(), final(self).stored() == old(self).stored(),
            // the listed tasks that exist, in any order
            match r { Ok(v) => pairs_view(v@).to_multiset() == pending_of(old(self).st().ws, old(self).st().tasks).to_multiset(), Err(e) => storage_err(e) },
    ;
    fn create_task(&mut self, uuid: Uuid) -> (r: Result<bool>)
        requires old(self).inv(),
        ensures final(self).inv(), final(self).stored() == old(self).stored(),
            match r {
                Ok(b) => b == !old(self).st().tasks.dom().contains(uuid)
                    && final(self).st() == (TxnView { tasks: if b { old(self).st().tasks.insert(uuid, Map::empty()) } else { old(self).st().tasks }, ..old(self).st() }),
                Err(e) => storage_err(e) && final(self).st() == old(self).st(),
            },
    ;
    fn set_task(&mut self, uuid: Uuid, task: TaskMap) -> (r: Result<()>)
        requires old(self).inv(),
        ensures final(self).inv(), final(self).stored() == old(self).stored(),
            match r {
                Ok(_) => final(self).st() == (TxnView { tasks: old(self).st().tasks.insert(uuid, task@), ..old(self).st() }),
                Err(e) => storage_err(e) && final(self).st() == old(self).st(),
            },
    ;
    fn delete_task(&mut self, uuid: Uuid) -> (r: Result<bool>)
        requires old(self).inv(),
        ensures final(self).inv(), final(self).stored() == old(self).stored(),
            match r {
                Ok(b) => b == old(self).st().tasks.dom().contains(uuid)
                    && final(self).st() == (TxnView { tasks: old(self).st().tasks.remove(uuid), ..old(self).st() }),
                Err(e) => storage_err(e) && final(self).st() == old(self).st(),
            },
    ;
    fn all_tasks(&mut self) -> (r: Result<Vec<(Uuid, TaskMap)>>)
        requires old(self).inv(),
        ensures final(self).inv(), final(self).st() == old(self).st(), final(self).stored() == old(self).stored(),
            match r { Ok(v) => tasks_listed(v@, old(self).st().tasks) && (v@.len() == 0) == (old(self).st().tasks.dom() =~= Set::<Uuid>::empty()), Err(e) => storage_err(e) },
    ;
    fn all_task_uuids(&mut self) -> (r: Result<Vec<Uuid>>)
        requires old(self).inv(),
        ensures final(self).inv(), final(self).st() == old(self).st(), final(self).stored() == old(self).stored(),
            match r { Ok(v) => uuids_listed(v@, old(self).st().tasks), Err(e) => storage_err(e) },
    ;
    fn base_version(&mut self) -> (r: Result<VersionId>)
        requires old(self).inv(),
        ensures final(self).inv(), final(self).st() == old(self).st(), final(self).stored() == old(self).stored(),
            match r { Ok(b) => b == old(self).st().base, Err(e) => storage_err(e) },
    ;
    fn set_base_version(&mut self, version: VersionId) -> (r: Result<()>)
        requires old(self).inv(),
        ensures final(self).inv(), final(self).stored() == old(self).stored(),
            match r {
                Ok(_) => final(self).st() == (TxnView { base: version, ..old(self).st() }),
                Err(e) => storage_err(e) && final(self).st() == old(self).st(),
            },
    ;
    fn get_task_operations(&mut self, uuid: Uuid) -> (r: Result<Vec<Operation>>)
        requires old(self).inv(),
        ensures final(self).inv(), final(self).st() == old(self).st(), final(self).stored() == old(self).stored(),
            // "Get the set of operations for the given task": synced or not; both stores list them oldest first (ORDER BY id ASC)
            match r { Ok(v) => v@ == ops_for(old(self).st().synced + old(self).st().unsynced, uuid), Err(e) => storage_err(e) },
    ;
    fn unsynced_operations(&mut self) -> (r: Result<Vec<Operation>>)
        requires old(self).inv(),
        ensures final(self).inv(), final(self).st() == old(self).st(), final(self).stored() == old(self).stored(),
            match r { Ok(v) => v@ == old(self).st().unsynced, Err(e) => storage_err(e) },
    ;
    fn num_unsynced_operations(&mut self) -> (r: Result<usize>)
        requires old(self).inv(),
        ensures final(self).inv(), final(self).st() == old(self).st(), final(self).stored() == old(self).stored(),
            match r { Ok(n) => n == old(self).st().unsynced.len(), Err(e) => storage_err(e) },
    ;
    fn add_operation(&mut self, op: Operation) -> (r: Result<()>)
        requires old(self).inv(),
        ensures final(self).inv(), final(self).stored() == old(self).stored(),
            match r {
                Ok(_) => final(self).st() == (TxnView { unsynced: old(self).st().unsynced.push(op), ..old(self).st() }),
                Err(e) => storage_err(e) && final(self).st() == old(self).st(),
            },
    ;
    fn remove_operation(&mut self, op: Operation) -> (r: Result<()>)
        requires old(self).inv(),
        ensures final(self).inv(), final(self).stored() == old(self).stored(),
            match r {
                // "must exactly match the most recent operation, and must not be synced"
                Ok(_) => old(self).st().unsynced.len() > 0 && old(self).st().unsynced.last() == op
                    && final(self).st() == (TxnView { unsynced: old(self).st().unsynced.drop_last(), ..old(self).st() }),
                Err(e) => storage_err(e) && final(self).st() == old(self).st(),
            },
    ;
    fn sync_complete(&mut self) -> (r: Result<()>)
        requires old(self).inv(),
        ensures final(self).inv(), final(self).stored() == old(self).stored(),
            match r {
                // all operations are marked as synced; the storage may clean up the synced history
                Ok(_) => final(self).st().unsynced == Seq::<Operation>::empty() && final(self).st().tasks == old(self).st().tasks
                    && final(self).st().base == old(self).st().base && final(self).st().ws == old(self).st().ws
                    // the clean-up both stores perform: history of tasks that no longer exist is dropped, nothing else
                    && final(self).st().synced == live_ops(old(self).st().synced + old(self).st().unsynced, old(self).st().tasks),
                Err(e) => storage_err(e) && final(self).st() == old(self).st(),
            },
    ;
    fn get_working_set(&mut self) -> (r: Result<Vec<Option<Uuid>>>)
        requires old(self).inv(),
        ensures final(self).inv(), final(self).st() == old(self).st(), final(self).stored() == old(self).stored(),
            match r { Ok(v) => v@ == old(self).st().ws && ws_wf(v@), Err(e) => storage_err(e) },
    ;
    fn add_to_working_set(&mut self, uuid: Uuid) -> (r: Result<usize>)
        requires old(self).inv(),
        ensures final(self).inv(), final(self).stored() == old(self).stored(),
            match r {
                // "return its (one-based) index.  This index will be one greater than the highest used index"
                Ok(i) => i == old(self).st().ws.len()
                    && final(self).st() == (TxnView { ws: old(self).st().ws.push(Some(uuid)), ..old(self).st() }),
                Err(e) => storage_err(e) && final(self).st() == old(self).st(),
            },
    ;
    fn set_working_set_item(&mut self, index: usize, uuid: Option<Uuid>) -> (r: Result<()>)
        requires old(self).inv(),
            // "Element 0 is always None"
            index == 0 ==> uuid is None,
        ensures final(self).inv(), final(self).stored() == old(self).stored(),
            match r {
                // "This cannot add a new item to the working set"; trailing blanks are not stored
                Ok(_) => index < old(self).st().ws.len()
                    && final(self).st() == (TxnView { ws: ws_trim(old(self).st().ws.update(index as int, uuid)), ..old(self).st() }),
                Err(e) => storage_err(e) && final(self).st() == old(self).st(),
            },
    ;
    fn clear_working_set(&mut self) -> (r: Result<()>)
        requires old(self).inv(),
        ensures final(self).inv(), final(self).stored() == old(self).stored(),
            match r {
                Ok(_) => final(self).st() == (TxnView { ws: seq![None::<Uuid>], ..old(self).st() }),
                Err(e) => storage_err(e) && final(self).st() == old(self).st(),
            },
    ;
    fn is_empty(&mut self) -> (r: Result<bool>)
        requires old(self).inv(),
        ensures final(self).inv(), final(self).st() == old(self).st(), final(self).stored() == old(self).stored(),
            //@ob C01 C02 C12 C20 StorageTxn::is_empty.true-exactly-for-a-replica-with-no-tasks,-no-working-set-entry,-a-nil-base-version-and-no-pending-operation
            match r { Ok(b) => b == is_empty_view(old(self).st()), Err(e) => storage_err(e) },
    {
        let mut empty = true;
        empty = empty && self.all_tasks()?.is_empty();
        empty = empty && self.get_working_set()? == vec![None];
        empty = empty && self.base_version()? == Uuid::nil();
        empty = empty && self.unsynced_operations()?.is_empty();
        Ok(empty)
    }
    fn commit(&mut self) -> (r: Result<()>)
        requires old(self).inv(),
        ensures final(self).inv(), final(self).st() == old(self).st(),
            match r {
                // everything done in the transaction becomes visible at once
                Ok(_) => final(self).stored() == old(self).st(),
                Err(e) => storage_err(e) && final(self).stored() == old(self).stored(),
            },
    ;
}
//@end
