// ================================================================================================
// src/server/sync/mod.rs : the HTTP client of a sync server   (C13 at the call sites, C08 status/header mapping)
// ================================================================================================
//@props C13 C08
/// text of a response header, if present and readable
pub open spec fn hdr_text(resp: reqwest::Response, name: Seq<char>) -> Option<Seq<char>> {
    match resp.headers.hv(name) { Some(v) => (match v.text { Some(t) => Some(t@), None => None }), None => None }
}
pub open spec fn hdr_uuid(resp: reqwest::Response, name: Seq<char>) -> Option<Uuid> {
    match hdr_text(resp, name) { Some(t) => uuid_parse(t), None => None }
}
/// docs/src/http.md: "X-Snapshot-Request: urgency=low|high"
pub open spec fn urgency_of(resp: reqwest::Response) -> SnapshotUrgency {
    match hdr_text(resp, "X-Snapshot-Request"@) {
        Some(t) => if t == "urgency=low"@ { SnapshotUrgency::Low } else if t == "urgency=high"@ { SnapshotUrgency::High } else { SnapshotUrgency::None },
        None => SnapshotUrgency::None,
    }
}
pub open spec fn is_error_status(s: u16) -> bool { 400 <= s <= 599 }
/// C13: the body is the documented sealed form of `plain`, bound to `version`, under this client's key, with a freshly drawn nonce
pub open spec fn body_sealed(body: Option<Seq<u8>>, key: Seq<u8>, version: Uuid, plain: Seq<u8>) -> bool {
    exists|nonce: Seq<u8>| nonce.len() == 12 && ringspec::rng_drawn(nonce) && body == Some(#[trigger] sealed_bytes(key, nonce, version, plain))
}
/// C13: `bytes` opens to `plain` under this client's key and the given version id (and only then)
pub open spec fn opens_to(bytes: Seq<u8>, key: Seq<u8>, version: Uuid, plain: Seq<u8>) -> bool {
    bytes.len() > 13 && bytes[0] == 1
    && ringspec::open_spec(key, ringspec::ALG_CHACHA20_POLY1305(), bytes.subrange(1, 13), aad_spec(version), bytes.subrange(13, bytes.len() as int)) == Some(plain)
}

//@extract src/server/sync/mod.rs :: struct SyncServer
pub struct SyncServer {
    pub base_url: Url,
    pub client_id: Uuid,
    pub cryptor: Cryptor,
    pub client: reqwest::Client,
}
//@end
//@extract src/server/sync/mod.rs :: const HISTORY_SEGMENT_CONTENT_TYPE
const HISTORY_SEGMENT_CONTENT_TYPE: &'static str = "application/vnd.taskchampion.history-segment";
//@end
//@extract src/server/sync/mod.rs :: const SNAPSHOT_CONTENT_TYPE
const SNAPSHOT_CONTENT_TYPE: &'static str = "application/vnd.taskchampion.snapshot";
//@end
pub open spec fn hs_ct() -> Seq<char> { "application/vnd.taskchampion.history-segment"@ }
pub open spec fn snap_ct() -> Seq<char> { "application/vnd.taskchampion.snapshot"@ }

impl SyncServer {
    pub open spec fn key(&self) -> Seq<u8> { self.cryptor.key.bytes@ }
    /// a server made by `new`
    pub open spec fn wf(&self) -> bool { self.cryptor.key.alg@ == ringspec::ALG_CHACHA20_POLY1305() }
    /// the headers every request carries, plus the content type of what is posted
    pub open spec fn post_headers(&self, ct: Seq<char>) -> Map<Seq<char>, Seq<char>> {
        Map::<Seq<char>, Seq<char>>::empty().insert("Content-Type"@, ct).insert("X-Client-Id"@, uuid_text(self.client_id))
    }
    pub open spec fn get_headers(&self) -> Map<Seq<char>, Seq<char>> {
        Map::<Seq<char>, Seq<char>>::empty().insert("X-Client-Id"@, uuid_text(self.client_id))
    }

//@extract src/server/sync/mod.rs :: impl SyncServer :: fn new
    pub fn new(
        url: String,
        client_id: Uuid,
        encryption_secret: Vec<u8>,
    ) -> (r: Result<SyncServer>)
        ensures
            //@ob C13 SyncServer::new.the-key-is-the-protocol-key-of-the-secret-with-the-client-id-as-salt
            r matches Ok(s) ==> s.wf() && s.client_id == client_id && s.key() == protocol_key(client_id.bytes(), encryption_secret@),
{
        let mut url = (match Url::parse(&url) {
            Ok(r29_v) => Ok(r29_v),
            Err(_) => Err(Error::Server(opaque_string())),
        })?;
        let path = url.path();
        if !path.ends_with('/') {
            url.set_path(&opaque_string());
        }
        proof { axiom_uuid_as_ref_bytes(&client_id); }
        Ok(SyncServer {
            base_url: url,
            client_id,
            cryptor: Cryptor::new(client_id, &Secret(encryption_secret.to_vec()))?,
            client: http::client()?,
        })
    }
//@end

//@extract src/server/sync/mod.rs :: impl SyncServer :: fn construct_endpoint_url
    fn construct_endpoint_url(&self, path_components: &str) -> (r: Result<Url>)
{
        match self.base_url.join(path_components) {
            Ok(r29_v) => Ok(r29_v),
            Err(_) => Err({
                Error::Server(opaque_string())
            }),
        }
    }
//@end
}

//@extract src/server/sync/mod.rs :: fn get_uuid_header
fn get_uuid_header(resp: &reqwest::Response, name: &str) -> (r: Result<Uuid>)
    ensures
        //@ob C08 get_uuid_header.the-uuid-in-the-named-header,-an-error-if-it-is-missing-or-unreadable
        match r { Ok(u) => hdr_uuid(*resp, name@) == Some(u), Err(_) => hdr_uuid(*resp, name@) is None },
{
    let value = (match resp.headers().get(name) {
        Some(r29_v) => Ok(r29_v),
        None => Err(opaque_anyhow_val()),
    })?
        .to_str()
        .map_err(opaque_anyhow)?;
    let value = Uuid::parse_str(value)
        .map_err(opaque_anyhow)?;
    Ok(value)
}
//@end

//@extract src/server/sync/mod.rs :: fn get_snapshot_urgency
fn get_snapshot_urgency(resp: &reqwest::Response) -> (r: SnapshotUrgency)
    ensures r == urgency_of(*resp),
{
    match resp.headers().get("X-Snapshot-Request") {
        None => SnapshotUrgency::None,
        Some(hdr) => match hdr.to_str() {
            Ok("urgency=low") => SnapshotUrgency::Low,
            Ok("urgency=high") => SnapshotUrgency::High,
            _ => SnapshotUrgency::None,
        },
    }
}
//@end

//@extract src/server/sync/mod.rs :: fn get_content_type
fn get_content_type(resp: &reqwest::Response) -> (r: Option<&str>)
    ensures match r { Some(s) => hdr_text(*resp, "Content-Type"@) == Some(s@), None => hdr_text(*resp, "Content-Type"@) is None },
{
    match resp.headers().get("Content-Type") {
        None => None,
        Some(hdr) => hdr.to_str().ok(),
    }
}
//@end

//@extract src/server/sync/mod.rs :: fn sealed_from_resp
fn sealed_from_resp(
    resp: reqwest::Response,
    version_id: Uuid,
    content_type: &str,
) -> (r: Result<Sealed>)
    ensures
        //@ob C13 C08 sealed_from_resp.the-body-as-received,-labelled-with-the-given-version-id,-only-for-the-expected-content-type
        r matches Ok(s) ==> s.version_id == version_id && s.payload@ == resp.body@ && hdr_text(resp, "Content-Type"@) == Some(content_type@),
{
    if get_content_type(&resp) == Some(content_type) {
        let payload = resp.bytes()?;
        Ok(Sealed {
            version_id,
            payload: payload.to_vec(),
        })
    } else {
        Err(Error::Server(String::from(
            "Response did not have expected content-type",
        )))
    }
}
//@end

// ---- the four protocol calls ---------------------------------------------------------------------------------------------
/// add-version: what was sent, and how the answer is read (docs/src/http.md)
pub open spec fn add_version_exchange(s: SyncServer, parent: Uuid, hs: Seq<u8>, x: reqwest::Response, res: (AddVersionResult, SnapshotUrgency)) -> bool {
    // C13: the history segment leaves the host only sealed, bound to the parent version id, under this client's key
    &&& x.req@.post && x.req@.headers =~= s.post_headers(hs_ct()) && body_sealed(x.req@.body, s.key(), parent, hs)
    // C08: 409 names the expected parent; any other non-error status carries the new version id and the snapshot request
    &&& match res.0 {
            AddVersionResult::ExpectedParentVersion(v) => x.status.0 == 409 && hdr_uuid(x, "X-Parent-Version-Id"@) == Some(v) && res.1 == SnapshotUrgency::None,
            AddVersionResult::Ok(v) => x.status.0 != 409 && !is_error_status(x.status.0) && hdr_uuid(x, "X-Version-Id"@) == Some(v) && res.1 == urgency_of(x),
        }
}
pub open spec fn get_child_exchange(s: SyncServer, x: reqwest::Response, res: GetVersionResult) -> bool {
    &&& !x.req@.post && x.req@.headers =~= s.get_headers() && x.req@.body is None
    &&& match res {
            GetVersionResult::NoSuchVersion => x.status.0 == 404,
            // C13: the segment is what opens under this client's key *and the parent version id the server names*; C08: ids from the headers
            GetVersionResult::Version { version_id, parent_version_id, history_segment } => !is_error_status(x.status.0)
                && hdr_uuid(x, "X-Parent-Version-Id"@) == Some(parent_version_id) && hdr_uuid(x, "X-Version-Id"@) == Some(version_id)
                && hdr_text(x, "Content-Type"@) == Some(hs_ct()) && opens_to(x.body@, s.key(), parent_version_id, history_segment@),
        }
}
pub open spec fn add_snapshot_exchange(s: SyncServer, version: Uuid, snap: Seq<u8>, x: reqwest::Response) -> bool {
    x.req@.post && x.req@.headers =~= s.post_headers(snap_ct()) && body_sealed(x.req@.body, s.key(), version, snap) && !is_error_status(x.status.0)
}
pub open spec fn get_snapshot_exchange(s: SyncServer, x: reqwest::Response, res: Option<(VersionId, Snapshot)>) -> bool {
    &&& !x.req@.post && x.req@.headers =~= s.get_headers() && x.req@.body is None
    &&& match res {
            None => x.status.0 == 404,
            Some((v, snap)) => !is_error_status(x.status.0) && hdr_uuid(x, "X-Version-Id"@) == Some(v)
                && hdr_text(x, "Content-Type"@) == Some(snap_ct()) && opens_to(x.body@, s.key(), v, snap@),
        }
}
impl SyncServer {
//@extract src/server/sync/mod.rs :: impl Server for SyncServer :: fn add_version | R16
    fn add_version(
        &mut self,
        parent_version_id: VersionId,
        history_segment: HistorySegment,
    ) -> (r: Result<(AddVersionResult, SnapshotUrgency)>)
        requires old(self).wf(), history_segment@.len() < usize::MAX - 64,
        ensures *final(self) == *old(self),
            //@ob C13 C08 SyncServer::add_version.sends-only-the-sealed-segment-bound-to-the-parent-id-and-reads-the-answer-as-documented
            r matches Ok(res) ==> exists|x: reqwest::Response| #[trigger] reqwest::exchanged(x) && add_version_exchange(*old(self), parent_version_id, history_segment@, x, res),
{
        let ghost hs0 = history_segment@;
        let url = self.construct_endpoint_url(
            opaque_string().as_str(),
        )?;
        let unsealed = Unsealed {
            version_id: parent_version_id,
            payload: history_segment,
        };
        let sealed = self.cryptor.seal(unsealed)?;
        let resp = self
            .client
            .post(url)
            .header("Content-Type", HISTORY_SEGMENT_CONTENT_TYPE)
            .header("X-Client-Id", &self.client_id.to_string())
            .body(sealed.payload)
            .send()?;
        proof { assert(body_sealed(resp.req@.body, self.key(), parent_version_id, hs0)); }
        if resp.status() == StatusCode::CONFLICT {
            let parent_version_id = get_uuid_header(&resp, "X-Parent-Version-Id")?;
            return Ok((
                AddVersionResult::ExpectedParentVersion(parent_version_id),
                SnapshotUrgency::None,
            ));
        }
        match resp.error_for_status() {
            Ok(resp) => {
                let version_id = get_uuid_header(&resp, "X-Version-Id")?;
                Ok((
                    AddVersionResult::Ok(version_id),
                    get_snapshot_urgency(&resp),
                ))
            }
            Err(err) => Err(into_conv(err)),
        }
    }
//@end

//@extract src/server/sync/mod.rs :: impl Server for SyncServer :: fn get_child_version | R16
    fn get_child_version(
        &mut self,
        parent_version_id: VersionId,
    ) -> (r: Result<GetVersionResult>)
        requires old(self).wf(),
        ensures *final(self) == *old(self),
            //@ob C13 C08 SyncServer::get_child_version.returns-only-what-opens-under-the-client-key-and-the-named-parent-id;-404-is-NoSuchVersion
            r matches Ok(res) ==> exists|x: reqwest::Response| #[trigger] reqwest::exchanged(x) && get_child_exchange(*old(self), x, res),
{
        let url = self.construct_endpoint_url(
            opaque_string().as_str(),
        )?;
        match self
            .client
            .get(url)
            .header("X-Client-Id", &self.client_id.to_string())
            .send()?
            .error_for_status()
        {
            Ok(resp) => {
                let parent_version_id = get_uuid_header(&resp, "X-Parent-Version-Id")?;
                let version_id = get_uuid_header(&resp, "X-Version-Id")?;
                let sealed =
                    sealed_from_resp(resp, parent_version_id, HISTORY_SEGMENT_CONTENT_TYPE)?;
                let history_segment = self.cryptor.unseal(sealed)?.payload;
                Ok(GetVersionResult::Version {
                    version_id,
                    parent_version_id,
                    history_segment,
                })
            }
            Err(err) if err.status() == Some(StatusCode::NOT_FOUND) => {
                Ok(GetVersionResult::NoSuchVersion)
            }
            Err(err) => Err(into_conv(err)),
        }
    }
//@end

//@extract src/server/sync/mod.rs :: impl Server for SyncServer :: fn add_snapshot | R29res
    fn add_snapshot(&mut self, version_id: VersionId, snapshot: Snapshot) -> (r: Result<()>)
        requires old(self).wf(), snapshot@.len() < usize::MAX - 64,
        ensures *final(self) == *old(self),
            //@ob C13 C08 SyncServer::add_snapshot.sends-only-the-sealed-snapshot-bound-to-its-version-id
            r is Ok ==> exists|x: reqwest::Response| #[trigger] reqwest::exchanged(x) && add_snapshot_exchange(*old(self), version_id, snapshot@, x),
{
        let url =
            self.construct_endpoint_url(opaque_string().as_str())?;
        let unsealed = Unsealed {
            version_id,
            payload: snapshot,
        };
        let sealed = self.cryptor.seal(unsealed)?;
        Ok((match (match self.client.post(url).header("Content-Type", SNAPSHOT_CONTENT_TYPE).header("X-Client-Id", &self.client_id.to_string()).body(sealed.payload).send() {Ok(r29_v) => reqwest::Response::error_for_status(r29_v),Err(r29_e) => Err(r29_e),}) {
            Ok(_) => Ok(()),
            Err(r29_e) => Err(r29_e),
        })?)
    }
//@end

//@extract src/server/sync/mod.rs :: impl Server for SyncServer :: fn get_snapshot | R16
    fn get_snapshot(&mut self) -> (r: Result<Option<(VersionId, Snapshot)>>)
        requires old(self).wf(),
        ensures *final(self) == *old(self),
            //@ob C13 C08 SyncServer::get_snapshot.returns-only-what-opens-under-the-client-key-and-the-version-id-the-server-names;-404-is-None
            r matches Ok(res) ==> exists|x: reqwest::Response| #[trigger] reqwest::exchanged(x) && get_snapshot_exchange(*old(self), x, res),
{
        let url = self.construct_endpoint_url("v1/client/snapshot")?;
        match self
            .client
            .get(url)
            .header("X-Client-Id", &self.client_id.to_string())
            .send()?
            .error_for_status()
        {
            Ok(resp) => {
                let version_id = get_uuid_header(&resp, "X-Version-Id")?;
                let sealed = sealed_from_resp(resp, version_id, SNAPSHOT_CONTENT_TYPE)?;
                let snapshot = self.cryptor.unseal(sealed)?.payload;
                Ok(Some((version_id, snapshot)))
            }
            Err(err) if err.status() == Some(StatusCode::NOT_FOUND) => Ok(None),
            Err(err) => Err(into_conv(err)),
        }
    }
//@end
}
