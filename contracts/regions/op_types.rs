// ---- the real datatypes (src/operation.rs, src/server/op.rs) ---------------------------------------
#[derive(PartialEq, Eq)] //@ stands for the source's #[derive(PartialEq, Eq, Clone, Debug, Serialize, Deserialize)]
//@extract src/operation.rs :: enum Operation
pub enum Operation {
    Create { uuid: Uuid },
    Delete { uuid: Uuid, old_task: TaskMap },
    Update {
        uuid: Uuid,
        property: String,
        old_value: Option<String>,
        value: Option<String>,
        timestamp: DateTime<Utc>,
    },
    UndoPoint,
}
//@end
//@extract src/operation.rs :: type Operations
pub type Operations = Vec<Operation>;
//@end
#[derive(PartialEq, Eq)] //@ stands for the source's #[derive(PartialEq, Eq, Clone, Debug, Serialize, Deserialize)]
//@extract src/server/op.rs :: enum SyncOp
pub enum SyncOp {
    Create { uuid: Uuid },
    Delete { uuid: Uuid },
    Update {
        uuid: Uuid,
        property: String,
        value: Option<String>,
        timestamp: DateTime<Utc>,
    },
}
//@end
// derived Clone is structural (trusted: Rust's derive)
impl Clone for SyncOp {
    #[verifier::external_body]
    fn clone(&self) -> (r: Self) ensures r == *self { unimplemented!() }
}
impl Clone for Operation {
    #[verifier::external_body]
    fn clone(&self) -> (r: Self) ensures r == *self { unimplemented!() }
}
// derived PartialEq is structural; with the view-injectivity axioms for String and TaskMap this is spec equality (trusted)
impl vstd::std_specs::cmp::PartialEqSpecImpl for Operation {
    open spec fn obeys_eq_spec() -> bool { true }
    open spec fn eq_spec(&self, other: &Self) -> bool { *self == *other }
}
pub mod storage { pub use super::TaskMap; }
