// ---- src/errors.rs --------------------------------------------------------------------------------
//@extract src/errors.rs :: enum Error
pub enum Error {
    Server(String),
    Database(String),
    OutOfSync,
    Usage(String),
    Other( anyhow::Error),
}
//@end
//@extract src/errors.rs :: type Result
pub type Result<T> = std::result::Result<T, Error>;
//@end
// thiserror's `#[from] anyhow::Error` (TRUSTED): an anyhow error becomes Error::Other
impl From<anyhow::Error> for Error {
    fn from(e: anyhow::Error) -> (r: Error) { Error::Other(e) }
}
impl vstd::std_specs::convert::FromSpecImpl<anyhow::Error> for Error {
    open spec fn obeys_from_spec() -> bool { true }
    open spec fn from_spec(e: anyhow::Error) -> Error { Error::Other(e) }
}
