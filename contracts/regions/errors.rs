// ---- src/errors.rs --------------------------------------------------------------------------------
//@extract src/errors.rs :: enum Error
pub enum Error {
    Server(String),
    Database(String),
    OutOfSync,
    Usage(String),
    Other( anyhow::Error),
}
//@end
//@extract src/errors.rs :: type Result
pub type Result<T> = std::result::Result<T, Error>;
//@end
