// ================================================================================================
// src/taskdb/undo.rs :: reverse_ops, commit_reversed_operations   (C07)
// ================================================================================================
//@props C07
//@extract src/taskdb/undo.rs :: fn reverse_ops
fn reverse_ops(op: Operation) -> (r: Vec<SyncOp>)
    ensures
        //@ob C07 reverse_ops.returns-the-documented-reversal (Create->Delete, Delete->Create + one Update per old property, Update->Update back to the old value, UndoPoint->nothing)
        rev_shape(op, r@),
{
    match op {
        Operation::Create { uuid } => vec![SyncOp::Delete { uuid }],
        Operation::Delete { uuid, mut old_task } => {
            let mut ops = vec![SyncOp::Create { uuid }];
            let timestamp = Utc::now();
            let ghost old_ = old_task@;
            for (property, value) in it_property: drain_map(&mut old_task)
                invariant
                    drained(old_, it_property.seq()),
                    delete_shape(uuid, it_property.seq(), it_property.index() as int, ops@),
                    it_property.index() == it_property.seq().len() ==> rev_delete_ok(uuid, old_, ops@),
            {
                ops.push(SyncOp::Update {
                    uuid,
                    property,
                    value: Some(value),
                    timestamp,
                });
                proof {
                    assert(it_property.index() + 1 == it_property.seq().len() ==> rev_delete_ok(uuid, old_, ops@)) by {
                        if it_property.index() + 1 == it_property.seq().len() { assert(delete_shape(uuid, it_property.seq(), it_property.seq().len() as int, ops@)); }
                    }
                }
            }
            ops
        }
        Operation::Update {
            uuid,
            property,
            old_value,
            timestamp,
            ..
        } => vec![SyncOp::Update {
            uuid,
            property,
            value: old_value,
            timestamp,
        }],
        Operation::UndoPoint => vec![],
    }
}
//@end
//@extract src/taskdb/undo.rs :: fn commit_reversed_operations
pub fn commit_reversed_operations(
    txn: &mut dyn StorageTxn,
    undo_ops: Operations,
) -> (r: Result<bool>)
    requires old(txn).inv(),
    ensures final(txn).inv(),
        //@ob C07 C04 commit_reversed_operations.an-error-leaves-the-stored-replica-untouched
        r is Err ==> final(txn).stored() == old(txn).stored(),
        r matches Ok(b) ==> {
            let s0 = old(txn).st(); let u0 = s0.unsynced; let un = undo_ops@;
            if tail_match(u0, un) {
                //@ob C07 commit_reversed_operations.exactly-the-given-operations-leave-the-unsynchronized-list-and-the-transaction-is-committed
                &&& final(txn).stored() == final(txn).st()
                &&& final(txn).st().unsynced == u0.take(u0.len() - un.len())
                &&& final(txn).st().base == s0.base && final(txn).st().ws == s0.ws && final(txn).st().synced == s0.synced
                //@ob C07 commit_reversed_operations.tasks-return-to-the-state-before-the-undone-operations
                &&& forall|sb: State| #![trigger accurate_seq(sb, un)] accurate_seq(sb, un) && apply_l_seq(sb, un) == s0.tasks ==> final(txn).st().tasks == sb
                //@ob C07 commit_reversed_operations.reports-success-when-a-change-was-reverted
                &&& (exists|i: int| 0 <= i < un.len() && !(#[trigger] un[i] is UndoPoint)) ==> b
            } else {
                //@ob C07 commit_reversed_operations.otherwise-nothing-changes-and-failure-is-reported
                !b && final(txn).st() == s0 && final(txn).stored() == old(txn).stored()
            }
        },
{
    let ghost s0 = txn.st();
    let ghost u0 = txn.st().unsynced;
    let ghost t0 = txn.st().tasks;
    let ghost un = undo_ops@;
    let mut applied = false;
    let local_ops = txn.unsynced_operations()?;
    let mut undo_ops = undo_ops.to_vec();
    if undo_ops.is_empty() {
        return Ok(false);
    }
    let mut ok = false;
    let local_undo_ops;
    if undo_ops.len() <= local_ops.len() {
        let new_len = local_ops.len() - undo_ops.len();
        local_undo_ops = &local_ops[new_len..];
        proof {
            assert(local_undo_ops@ =~= u0.skip(u0.len() - un.len()));
        }
        if local_undo_ops == undo_ops {
            ok = true;
            proof { assert(local_undo_ops@ =~= undo_ops@); }
        }
    }
    if !ok {
        return Ok(applied);
    }
    proof { assert(tail_match(u0, un)); }
    undo_ops.reverse();
    let ghost n = un.len() as int;
    proof { assert(un.take(n) =~= un); assert(u0.take(u0.len() as int) =~= u0); }
    for op in it_op: undo_ops
        invariant
            s0 == old(txn).st(), u0 == s0.unsynced, t0 == s0.tasks, tail_match(u0, un), n == un.len(),
            txn.inv(), txn.stored() == old(txn).stored(),
            it_op.seq().len() == n,
            forall|j: int| 0 <= j < n ==> (#[trigger] it_op.seq()[j]) == un[n - 1 - j],
            txn.st() == (TxnView { tasks: txn.st().tasks, unsynced: u0.take(u0.len() - it_op.index()), ..s0 }),
            forall|sb: State| #![trigger accurate_seq(sb, un)] accurate_seq(sb, un) && apply_l_seq(sb, un) == t0
                ==> txn.st().tasks == apply_l_seq(sb, un.take(n - it_op.index())),
            (exists|i: int| n - it_op.index() <= i < n && !(#[trigger] un[i] is UndoPoint)) ==> applied,
    {
        let ghost j = it_op.index() as int;
        let ghost tk = txn.st().tasks;
        let ghost opj = op;
        let rev_ops = reverse_ops(op.clone());
        proof { lemma_rev_shape_undoes(opj, rev_ops@); }
        for op in it_op2: rev_ops
            invariant
                txn.inv(), txn.stored() == old(txn).stored(),
                txn.st() == (TxnView { tasks: txn.st().tasks, unsynced: u0.take(u0.len() - j), ..s0 }),
                txn.st().tasks == apply_seq(tk, it_op2.seq().take(it_op2.index() as int)),
                it_op2.index() > 0 ==> applied,
                (exists|i: int| n - j <= i < n && !(#[trigger] un[i] is UndoPoint)) ==> applied,
        {
            let ghost i = it_op2.index() as int;
            proof { lemma_take_succ(tk, it_op2.seq(), i); }
            apply::apply_op(txn, &op)?;
            applied = true;
        }
        proof {
            assert(rev_ops@.take(rev_ops@.len() as int) =~= rev_ops@);
            assert forall|sb: State| #![trigger accurate_seq(sb, un)] accurate_seq(sb, un) && apply_l_seq(sb, un) == t0
                implies txn.st().tasks == apply_l_seq(sb, un.take(n - j - 1)) by {
                let s = apply_l_seq(sb, un.take(n - j - 1));
                lemma_accurate_take(sb, un, n - j);
                lemma_l_take_succ(sb, un, n - j - 1);
                assert(accurate(s, opj));
                assert(tk == apply_l(s, opj));
                assert(apply_seq(tk, rev_ops@) =~~= s);
            }
            // a reverted change sets `applied`: every operation except an undo point has a non-empty reversal
            assert(!(opj is UndoPoint) ==> rev_ops@.len() > 0);
            assert((exists|i: int| n - j - 1 <= i < n && !(#[trigger] un[i] is UndoPoint)) ==> applied) by {
                if exists|i: int| n - j - 1 <= i < n && !(#[trigger] un[i] is UndoPoint) {
                    let i = choose|i: int| n - j - 1 <= i < n && !(#[trigger] un[i] is UndoPoint);
                    if i == n - j - 1 { assert(un[i] == opj); } else { assert(n - j <= i < n && !(un[i] is UndoPoint)); }
                }
            }
        }
        txn.remove_operation(op)?;
        proof {
            assert(u0.take(u0.len() - j).drop_last() =~= u0.take(u0.len() - j - 1));
        }
    }
    proof {
        assert(un.take(0) =~= Seq::<Operation>::empty());
    }
    txn.commit()?;
    Ok(applied)
}
//@end

// ---- get_undo_operations ---------------------------------------------------------------------------------------------
//@props C07
impl Operation {
//@extract src/operation.rs :: impl Operation :: fn is_undo_point
    pub fn is_undo_point(&self) -> (r: bool)
        ensures r == (*self is UndoPoint),
{
        self == &Self::UndoPoint
    }
//@end
}
//@extract src/taskdb/undo.rs :: fn get_undo_operations | R20=Operation
pub fn get_undo_operations(txn: &mut dyn StorageTxn) -> (r: Result<Operations>)
    requires old(txn).inv(),
    ensures final(txn).inv(), final(txn).st() == old(txn).st(), final(txn).stored() == old(txn).stored(),
        //@ob C07 get_undo_operations.offers-exactly-the-unsynchronized-operations-back-to-and-including-the-last-undo-point
        r matches Ok(v) ==> undo_span(old(txn).st().unsynced, v@),
        //@ob C07 get_undo_operations.what-it-offers-is-always-accepted-by-commit_reversed_operations (it is a tail of the unsynchronized list)
        r matches Ok(v) ==> v@.len() > 0 ==> tail_match(old(txn).st().unsynced, v@),
{
    let local_ops = txn.unsynced_operations()?;
    let last_undo_op_idx = rposition_by(&local_ops, Operation::is_undo_point);
    proof {
        // sequence facts for whichever way the result is cut out of the list (stated before the branch, for every cut point)
        let u = local_ops@;
        assert(u.skip(0) =~= u);
        assert forall|k: int| 0 <= k <= u.len() implies u.subrange(k, u.len() as int) == #[trigger] u.skip(k) && u.skip(u.len() - u.skip(k).len()) == u.skip(k) by {
            assert(u.subrange(k, u.len() as int) =~= u.skip(k));
            assert(u.skip(u.len() - u.skip(k).len()) =~= u.skip(k));
        }
    }
    if let Some(last_undo_op_idx) = last_undo_op_idx {
        Ok(local_ops[last_undo_op_idx..].to_vec())
    } else {
        Ok(local_ops)
    }
}
//@end
