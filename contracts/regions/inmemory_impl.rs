// ================================================================================================
// src/storage/inmemory.rs : the in-memory storage against the documented StorageTxn contract   (C16, C05, C04)
// ================================================================================================
//@props C16

//@extract src/storage/inmemory.rs :: struct Data
pub struct Data {
    pub tasks: HashMap<Uuid, TaskMap>,
    pub base_version: VersionId,
    pub operations: Vec<(bool, Operation)>,
    pub working_set: Vec<Option<Uuid>>,
}
//@end

// derived Clone is structural (trusted: Rust's derive)
impl Clone for Data {
    #[verifier::external_body]
    fn clone(&self) -> (r: Self) ensures r == *self { unimplemented!() }
}
pub open spec fn unsynced_of(ops: Seq<(bool, Operation)>) -> Seq<Operation>
    decreases ops.len()
{
    if ops.len() == 0 { Seq::empty() } else if ops.last().0 { unsynced_of(ops.drop_last()) } else { unsynced_of(ops.drop_last()).push(ops.last().1) }
}
pub open spec fn synced_of(ops: Seq<(bool, Operation)>) -> Seq<Operation>
    decreases ops.len()
{
    if ops.len() == 0 { Seq::empty() } else if ops.last().0 { synced_of(ops.drop_last()).push(ops.last().1) } else { synced_of(ops.drop_last()) }
}
pub proof fn lemma_unsynced_push(ops: Seq<(bool, Operation)>, synced: bool, op: Operation)
    ensures unsynced_of(ops.push((synced, op))) == (if synced { unsynced_of(ops) } else { unsynced_of(ops).push(op) }),
            synced_of(ops.push((synced, op))) == (if synced { synced_of(ops).push(op) } else { synced_of(ops) }),
{
    assert(ops.push((synced, op)).drop_last() =~= ops);
}
impl Data {
    /// the abstract content of the in-memory data
    pub open spec fn view_of(&self) -> TxnView {
        TxnView {
            tasks: Map::new(self.tasks@.dom(), |u: Uuid| self.tasks@[u]@),
            unsynced: unsynced_of(self.operations@),
            synced: synced_of(self.operations@),
            base: self.base_version,
            ws: self.working_set@,
        }
    }
    pub open spec fn wf(&self) -> bool { ws_wf(self.working_set@) }
}

//@extract src/storage/inmemory.rs :: struct InMemoryStorage
pub struct InMemoryStorage {
    pub data: Data,
}
//@end

//@extract src/storage/inmemory.rs :: struct Txn
pub struct Txn<'t> {
    pub storage: &'t mut InMemoryStorage,
    pub new_data: Option<Data>,
}
//@end

impl Txn<'_> {
    /// the data this transaction currently sees
    pub open spec fn cur(&self) -> Data {
        match self.new_data { Some(d) => d, None => self.storage.data }
    }

//@extract src/storage/inmemory.rs :: impl Txn<'_> :: fn mut_data_ref
    fn mut_data_ref(&mut self) -> (r: &mut Data)
        ensures *r == old(self).cur(),
                final(self).new_data == Some(*final(r)),
                //@ob C16 C04 mut_data_ref.never-writes-to-the-committed-data
                final(self).storage == old(self).storage,
{
        if self.new_data.is_none() {
            self.new_data = Some(self.storage.data.clone());
        }
        if let Some(ref mut data) = self.new_data {
            data
        } else {
            unreachable!();
        }
    }
//@end

//@extract src/storage/inmemory.rs :: impl Txn<'_> :: fn data_ref
    fn data_ref(&mut self) -> (r: &Data)
        ensures *r == old(self).cur(), *final(self) == *old(self)
{
        if let Some(ref data) = self.new_data {
            data
        } else {
            &self.storage.data
        }
    }
//@end

//@extract src/storage/inmemory.rs :: impl Txn<'_> :: fn normalize_working_set
    fn normalize_working_set(&mut self)
        requires old(self).cur().working_set.len() >= 1
        ensures final(self).cur().working_set@ == ws_trim(old(self).cur().working_set@),
            final(self).cur().base_version == old(self).cur().base_version,
            final(self).cur().tasks == old(self).cur().tasks,
            final(self).cur().operations == old(self).cur().operations,
            final(self).storage == old(self).storage,
{
        let working_set = &mut self.mut_data_ref().working_set;
        while let Some(None) = &working_set[1..].last()
            invariant working_set.len() >= 1, ws_trim(working_set@) == ws_trim(old(self).cur().working_set@)
            ensures working_set@ == ws_trim(old(self).cur().working_set@)
            decreases working_set.len()
        {
            working_set.pop();
        }
    }
//@end

}

impl StorageTxn for Txn<'_> {
    open spec fn st(&self) -> TxnView { self.cur().view_of() }
    /// what other transactions can see: the storage's committed data
    open spec fn stored(&self) -> TxnView { self.storage.data.view_of() }
    open spec fn inv(&self) -> bool { self.cur().wf() && self.storage.data.wf() }

//@extract src/storage/inmemory.rs :: impl StorageTxn for Txn<'_> :: fn get_task
    fn get_task(&mut self, uuid: Uuid) -> (r: Result<Option<TaskMap>>)
{
        match self.data_ref().tasks.get(&uuid) {
            None => Ok(None),
            Some(t) => Ok(Some(t.clone())),
        }
    }
//@end

//@extract src/storage/inmemory.rs :: impl StorageTxn for Txn<'_> :: fn set_task
    fn set_task(&mut self, uuid: Uuid, task: TaskMap) -> (r: Result<()>)
{
        let ghost s0 = self.st();
        let ghost tv = task@;
        self.mut_data_ref().tasks.insert(uuid, task);
        proof { assert(self.st().tasks =~= s0.tasks.insert(uuid, tv)); }
        Ok(())
    }
//@end

//@extract src/storage/inmemory.rs :: impl StorageTxn for Txn<'_> :: fn delete_task
    fn delete_task(&mut self, uuid: Uuid) -> (r: Result<bool>)
{
        proof { assert(self.st().tasks.remove(uuid) =~= Map::new(self.cur().tasks@.remove(uuid).dom(), |u: Uuid| self.cur().tasks@.remove(uuid)[u]@)); }
        Ok(self.mut_data_ref().tasks.remove(&uuid).is_some())
    }
//@end

//@extract src/storage/inmemory.rs :: impl StorageTxn for Txn<'_> :: fn create_task
    fn create_task(&mut self, uuid: Uuid) -> (r: Result<bool>)
{
        let ghost s0 = self.st();
        if let ent @ Entry::Vacant(_) = self.mut_data_ref().tasks.entry(uuid) {
            ent.or_insert_with(TaskMap::new);
            proof { assert(self.st().tasks =~= s0.tasks.insert(uuid, Map::empty())); }
            Ok(true)
        } else {
            proof { assert(self.st().tasks =~= s0.tasks); }
            Ok(false)
        }
    }
//@end

//@extract src/storage/inmemory.rs :: impl StorageTxn for Txn<'_> :: fn base_version
    fn base_version(&mut self) -> (r: Result<VersionId>)
{
        Ok(self.data_ref().base_version)
    }
//@end

//@extract src/storage/inmemory.rs :: impl StorageTxn for Txn<'_> :: fn set_base_version
    fn set_base_version(&mut self, version: VersionId) -> (r: Result<()>)
{
        self.mut_data_ref().base_version = version;
        Ok(())
    }
//@end

//@extract src/storage/inmemory.rs :: impl StorageTxn for Txn<'_> :: fn add_operation
    fn add_operation(&mut self, op: Operation) -> (r: Result<()>)
{
        let ghost o0 = self.cur().operations@;
        self.mut_data_ref().operations.push((false, op));
        proof { lemma_unsynced_push(o0, false, op); }
        Ok(())
    }
//@end

//@extract src/storage/inmemory.rs :: impl StorageTxn for Txn<'_> :: fn remove_operation
    fn remove_operation(&mut self, op: Operation) -> (r: Result<()>)
{
        if let Some((synced, last_op)) = self.data_ref().operations.last() {
            if *synced {
                return Err(Error::Database(
                    "Last operation has been synced -- cannot remove".to_string(),
                ));
            }
            if last_op == &op {
                let ghost o0 = self.cur().operations@;
                proof { assert(o0 =~= o0.drop_last().push((false, op))); lemma_unsynced_push(o0.drop_last(), false, op); }
                self.mut_data_ref().operations.pop();
                proof { assert(unsynced_of(o0.drop_last()).push(op).drop_last() =~= unsynced_of(o0.drop_last())); }
                return Ok(());
            }
        }
        Err(Error::Database(
            "Last operation does not match -- cannot remove".to_string(),
        ))
    }
//@end

//@extract src/storage/inmemory.rs :: impl StorageTxn for Txn<'_> :: fn get_working_set
    fn get_working_set(&mut self) -> (r: Result<Vec<Option<Uuid>>>)
{
        Ok(self.data_ref().working_set.clone())
    }
//@end

//@extract src/storage/inmemory.rs :: impl StorageTxn for Txn<'_> :: fn add_to_working_set
    fn add_to_working_set(&mut self, uuid: Uuid) -> (r: Result<usize>)
{
        let working_set = &mut self.mut_data_ref().working_set;
        working_set.push(Some(uuid));
        Ok(working_set.len() - 1)
    }
//@end

//@extract src/storage/inmemory.rs :: impl StorageTxn for Txn<'_> :: fn set_working_set_item
    fn set_working_set_item(&mut self, index: usize, uuid: Option<Uuid>) -> (r: Result<()>)
{
        let working_set = &mut self.mut_data_ref().working_set;
        if index >= working_set.len() {
            return Err(Error::Database(opaque_string()));
        }
        working_set[index] = uuid;
        proof { lemma_trim_prefix(working_set@); }
        self.normalize_working_set();
        Ok(())
    }
//@end

//@extract src/storage/inmemory.rs :: impl StorageTxn for Txn<'_> :: fn clear_working_set
    fn clear_working_set(&mut self) -> (r: Result<()>)
{
        self.mut_data_ref().working_set = vec![None];
        proof { assert(self.cur().working_set@ =~= seq![None::<Uuid>]); }
        Ok(())
    }
//@end

//@extract src/storage/inmemory.rs :: impl StorageTxn for Txn<'_> :: fn commit
    fn commit(&mut self) -> (r: Result<()>)
{
        if let Some(data) = self.new_data.take() {
            self.storage.data = data;
        }
        Ok(())
    }
//@end

    // ---- methods outside the verifier's language subset (iterator chains with pattern closures): NOT verified;
    // ---- stand-ins assumed to satisfy the trait contract, listed in the evidence as out_of_reach

//@watch C16 :: src/storage/inmemory.rs :: impl StorageTxn for Txn<'_> :: fn get_pending_tasks
    #[verifier::external_body]
    fn get_pending_tasks(&mut self) -> (r: Result<Vec<(Uuid, TaskMap)>>)
    { unimplemented!() }

//@watch C16 :: src/storage/inmemory.rs :: impl StorageTxn for Txn<'_> :: fn all_tasks
    #[verifier::external_body]
    fn all_tasks(&mut self) -> (r: Result<Vec<(Uuid, TaskMap)>>)
    { unimplemented!() }

//@watch C16 :: src/storage/inmemory.rs :: impl StorageTxn for Txn<'_> :: fn all_task_uuids
    #[verifier::external_body]
    fn all_task_uuids(&mut self) -> (r: Result<Vec<Uuid>>)
    { unimplemented!() }

//@watch C16 :: src/storage/inmemory.rs :: impl StorageTxn for Txn<'_> :: fn get_task_operations
    #[verifier::external_body]
    fn get_task_operations(&mut self, uuid: Uuid) -> (r: Result<Vec<Operation>>)
    { unimplemented!() }

//@watch C16 :: src/storage/inmemory.rs :: impl StorageTxn for Txn<'_> :: fn unsynced_operations
    #[verifier::external_body]
    fn unsynced_operations(&mut self) -> (r: Result<Vec<Operation>>)
    { unimplemented!() }

//@watch C16 :: src/storage/inmemory.rs :: impl StorageTxn for Txn<'_> :: fn num_unsynced_operations
    #[verifier::external_body]
    fn num_unsynced_operations(&mut self) -> (r: Result<usize>)
    { unimplemented!() }

//@watch C16 :: src/storage/inmemory.rs :: impl StorageTxn for Txn<'_> :: fn sync_complete
    #[verifier::external_body]
    fn sync_complete(&mut self) -> (r: Result<()>)
    { unimplemented!() }

}
