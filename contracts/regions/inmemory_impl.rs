// ================================================================================================
// src/storage/inmemory.rs : the in-memory storage against the documented StorageTxn contract   (C16, C05, C04)
// ================================================================================================
//@props C16

impl Operation {
//@extract src/operation.rs :: impl Operation :: fn get_uuid
    pub fn get_uuid(&self) -> (r: Option<Uuid>)
        ensures r == op_uuid(*self)
{
        match self {
            Operation::Create { uuid: u } => Some(*u),
            Operation::Delete { uuid: u, .. } => Some(*u),
            Operation::Update { uuid: u, .. } => Some(*u),
            Operation::UndoPoint => None,
        }
    }
//@end
}

//@extract src/storage/inmemory.rs :: struct Data
pub struct Data {
    pub tasks: HashMap<Uuid, TaskMap>,
    pub base_version: VersionId,
    pub operations: Vec<(bool, Operation)>,
    pub working_set: Vec<Option<Uuid>>,
}
//@end

// derived Clone is structural (trusted: Rust's derive)
impl Clone for Data {
    #[verifier::external_body]
    fn clone(&self) -> (r: Self) ensures r == *self { unimplemented!() }
}
pub open spec fn unsynced_of(ops: Seq<(bool, Operation)>) -> Seq<Operation>
    decreases ops.len()
{
    if ops.len() == 0 { Seq::empty() } else if ops.last().0 { unsynced_of(ops.drop_last()) } else { unsynced_of(ops.drop_last()).push(ops.last().1) }
}
pub open spec fn synced_of(ops: Seq<(bool, Operation)>) -> Seq<Operation>
    decreases ops.len()
{
    if ops.len() == 0 { Seq::empty() } else if ops.last().0 { synced_of(ops.drop_last()).push(ops.last().1) } else { synced_of(ops.drop_last()) }
}
pub proof fn lemma_unsynced_push(ops: Seq<(bool, Operation)>, synced: bool, op: Operation)
    ensures unsynced_of(ops.push((synced, op))) == (if synced { unsynced_of(ops) } else { unsynced_of(ops).push(op) }),
            synced_of(ops.push((synced, op))) == (if synced { synced_of(ops).push(op) } else { synced_of(ops) }),
{
    assert(ops.push((synced, op)).drop_last() =~= ops);
}
pub open spec fn same_elems<A>(r: Seq<&A>, o: Seq<A>) -> bool { r.len() == o.len() && forall|i: int| 0 <= i < r.len() ==> *(#[trigger] r[i]) == o[i] }
/// the operations themselves, flags dropped
pub open spec fn all_ops(ops: Seq<(bool, Operation)>) -> Seq<Operation>
    decreases ops.len()
{
    if ops.len() == 0 { Seq::empty() } else { all_ops(ops.drop_last()).push(ops.last().1) }
}
/// synced operations come before unsynced ones (operations are added unsynced at the end; sync_complete marks all of them)
pub open spec fn synced_first(ops: Seq<(bool, Operation)>) -> bool {
    forall|i: int, j: int| 0 <= i < j < ops.len() && (#[trigger] ops[j]).0 ==> (#[trigger] ops[i]).0
}
pub open spec fn mark_synced(s: Seq<Operation>) -> Seq<(bool, Operation)> { Seq::new(s.len(), |i: int| (true, s[i])) }
pub proof fn lemma_take_step<A>(s: Seq<A>, i: int)
    requires 0 <= i < s.len()
    ensures s.take(i + 1).drop_last() == s.take(i), s.take(i + 1).last() == s[i], s.take(i + 1).len() == i + 1
{
    assert(s.take(i + 1).drop_last() =~= s.take(i));
}
pub proof fn lemma_all_ops_take(ops: Seq<(bool, Operation)>, i: int)
    requires 0 <= i < ops.len()
    ensures all_ops(ops.take(i + 1)) == all_ops(ops.take(i)).push(ops[i].1),
        all_ops(ops.take(i + 1)).drop_last() == all_ops(ops.take(i)), all_ops(ops.take(i + 1)).last() == ops[i].1,
{
    lemma_take_step(ops, i);
    assert(all_ops(ops.take(i)).push(ops[i].1).drop_last() =~= all_ops(ops.take(i)));
}
pub proof fn lemma_all_synced(ops: Seq<(bool, Operation)>)
    requires forall|i: int| 0 <= i < ops.len() ==> (#[trigger] ops[i]).0
    ensures unsynced_of(ops) == Seq::<Operation>::empty(), synced_of(ops) == all_ops(ops)
    decreases ops.len()
{
    if ops.len() > 0 {
        assert forall|i: int| 0 <= i < ops.drop_last().len() implies (#[trigger] ops.drop_last()[i]).0 by { assert(ops[i].0); }
        lemma_all_synced(ops.drop_last());
        assert(ops.last() == ops[ops.len() - 1]);
    }
}
/// with the synced operations first, the two halves of the view concatenate to the stored list
pub proof fn lemma_synced_first_split(ops: Seq<(bool, Operation)>)
    requires synced_first(ops)
    ensures synced_of(ops) + unsynced_of(ops) == all_ops(ops)
    decreases ops.len()
{
    if ops.len() > 0 {
        let p = ops.drop_last();
        assert forall|i: int, j: int| 0 <= i < j < p.len() && (#[trigger] p[j]).0 implies (#[trigger] p[i]).0 by { assert(ops[j].0); assert(ops[i].0); }
        lemma_synced_first_split(p);
        if ops.last().0 {
            assert forall|i: int| 0 <= i < p.len() implies (#[trigger] p[i]).0 by { assert(ops[ops.len() - 1].0); assert(ops[i].0); }
            lemma_all_synced(p);
            assert(synced_of(ops) + unsynced_of(ops) =~= all_ops(ops));
        } else {
            assert(synced_of(ops) + unsynced_of(ops) =~= all_ops(ops));
        }
    } else {
        assert(synced_of(ops) + unsynced_of(ops) =~= all_ops(ops));
    }
}
pub proof fn lemma_mark_synced_push(s: Seq<Operation>, op: Operation)
    ensures mark_synced(s.push(op)) == mark_synced(s).push((true, op))
{
    assert(mark_synced(s.push(op)) =~= mark_synced(s).push((true, op)));
}
pub proof fn lemma_mark_synced(s: Seq<Operation>)
    ensures synced_first(mark_synced(s)), unsynced_of(mark_synced(s)) == Seq::<Operation>::empty(), synced_of(mark_synced(s)) == s
    decreases s.len()
{
    let m = mark_synced(s);
    lemma_all_synced(m);
    lemma_all_ops_marked(s);
}
pub proof fn lemma_all_ops_marked(s: Seq<Operation>)
    ensures all_ops(mark_synced(s)) == s
    decreases s.len()
{
    if s.len() > 0 {
        assert(mark_synced(s).drop_last() =~= mark_synced(s.drop_last()));
        lemma_all_ops_marked(s.drop_last());
        assert(all_ops(mark_synced(s)) =~= s);
    } else {
        assert(all_ops(mark_synced(s)) =~= s);
    }
}
/// the first n entries produced by HashMap::iter / keys have been copied to acc
pub open spec fn pairs_upto(kv: Seq<(&Uuid, &TaskMap)>, m: Map<Uuid, TaskMap>, acc: Seq<(Uuid, TaskMap)>, n: int) -> bool {
    &&& kv.no_duplicates() && acc.len() == n && n <= kv.len()
    &&& forall|i: int| 0 <= i < kv.len() ==> m.dom().contains(*(#[trigger] kv[i]).0) && m[*kv[i].0] == *kv[i].1
    &&& forall|u: Uuid| m.dom().contains(u) ==> exists|i: int| 0 <= i < kv.len() && *(#[trigger] kv[i]).0 == u
    &&& forall|i: int| 0 <= i < acc.len() ==> (#[trigger] acc[i]).0 == *kv[i].0 && acc[i].1 == *kv[i].1
}
pub open spec fn keys_upto(ks: Seq<&Uuid>, m: Map<Uuid, TaskMap>, acc: Seq<Uuid>, n: int) -> bool {
    &&& ks.no_duplicates() && ks.unref().to_set() =~= m.dom() && 0 <= n <= ks.len() && acc.len() == n
    &&& forall|i: int| 0 <= i < acc.len() ==> (#[trigger] acc[i]) == *ks[i]
}
/// HashMap::iter lists every entry once
pub proof fn lemma_pairs_listed(kv: Seq<(&Uuid, &TaskMap)>, m: Map<Uuid, TaskMap>, acc: Seq<(Uuid, TaskMap)>, tasks: State)
    requires pairs_upto(kv, m, acc, kv.len() as int),
        tasks == Map::new(m.dom(), |u: Uuid| m[u]@),
    ensures tasks_listed(acc, tasks), (acc.len() == 0) == (tasks.dom() =~= Set::<Uuid>::empty()),
{
    assert forall|i: int| 0 <= i < acc.len() implies tasks.dom().contains(#[trigger] acc[i].0) && acc[i].1@ == tasks[acc[i].0] by {
        assert(m.dom().contains(*kv[i].0));
    }
    assert forall|u: Uuid| tasks.dom().contains(u) implies exists|i: int| 0 <= i < acc.len() && #[trigger] acc[i].0 == u by {
        let i = choose|i: int| 0 <= i < kv.len() && *(#[trigger] kv[i]).0 == u;
        assert(acc[i].0 == u);
    }
    assert forall|i: int, j: int| 0 <= i < j < acc.len() implies (#[trigger] acc[i].0) != (#[trigger] acc[j].0) by {
        if acc[i].0 == acc[j].0 {
            assert(m[*kv[i].0] == *kv[i].1); assert(m[*kv[j].0] == *kv[j].1);
            assert(kv[i] == kv[j]);
        }
    }
    if acc.len() == 0 {
        assert forall|u: Uuid| !tasks.dom().contains(u) by {
            if tasks.dom().contains(u) { let i = choose|i: int| 0 <= i < acc.len() && #[trigger] acc[i].0 == u; }
        }
        assert(tasks.dom() =~= Set::<Uuid>::empty());
    } else {
        assert(tasks.dom().contains(acc[0].0));
    }
}
pub proof fn lemma_keys_listed(ks: Seq<&Uuid>, m: Map<Uuid, TaskMap>, acc: Seq<Uuid>, tasks: State)
    requires keys_upto(ks, m, acc, ks.len() as int),
        tasks == Map::new(m.dom(), |u: Uuid| m[u]@),
    ensures uuids_listed(acc, tasks)
{
    let un = ks.unref();
    assert(un.len() == ks.len());
    assert forall|i: int| 0 <= i < ks.len() implies #[trigger] un[i] == *ks[i] by {}
    assert forall|i: int| 0 <= i < acc.len() implies tasks.dom().contains(#[trigger] acc[i]) by { assert(un.to_set().contains(un[i])); }
    assert forall|u: Uuid| tasks.dom().contains(u) implies exists|i: int| 0 <= i < acc.len() && #[trigger] acc[i] == u by {
        assert(un.to_set().contains(u));
        let i = choose|i: int| 0 <= i < un.len() && un[i] == u;
        assert(acc[i] == u);
    }
    assert forall|i: int, j: int| 0 <= i < j < acc.len() implies (#[trigger] acc[i]) != (#[trigger] acc[j]) by {
        if acc[i] == acc[j] { assert(ks[i] == ks[j]); }
    }
}
impl Data {
    /// the abstract content of the in-memory data
    pub open spec fn view_of(&self) -> TxnView {
        TxnView {
            tasks: Map::new(self.tasks@.dom(), |u: Uuid| self.tasks@[u]@),
            unsynced: unsynced_of(self.operations@),
            synced: synced_of(self.operations@),
            base: self.base_version,
            ws: self.working_set@,
        }
    }
    pub open spec fn wf(&self) -> bool { ws_wf(self.working_set@) && synced_first(self.operations@) }
}

//@extract src/storage/inmemory.rs :: struct InMemoryStorage
pub struct InMemoryStorage {
    pub data: Data,
}
//@end

//@extract src/storage/inmemory.rs :: struct Txn
pub struct Txn<'t> {
    pub storage: &'t mut InMemoryStorage,
    pub new_data: Option<Data>,
}
//@end

impl Txn<'_> {
    /// the data this transaction currently sees
    pub open spec fn cur(&self) -> Data {
        match self.new_data { Some(d) => d, None => self.storage.data }
    }

//@extract src/storage/inmemory.rs :: impl Txn<'_> :: fn mut_data_ref
    fn mut_data_ref(&mut self) -> (r: &mut Data)
        ensures *r == old(self).cur(),
                final(self).new_data == Some(*final(r)),
                //@ob C16 C04 mut_data_ref.never-writes-to-the-committed-data
                final(self).storage == old(self).storage,
{
        if self.new_data.is_none() {
            self.new_data = Some(self.storage.data.clone());
        }
        if let Some(ref mut data) = self.new_data {
            data
        } else {
            unreachable!();
        }
    }
//@end

//@extract src/storage/inmemory.rs :: impl Txn<'_> :: fn data_ref
    fn data_ref(&mut self) -> (r: &Data)
        ensures *r == old(self).cur(), *final(self) == *old(self)
{
        if let Some(ref data) = self.new_data {
            data
        } else {
            &self.storage.data
        }
    }
//@end

//@extract src/storage/inmemory.rs :: impl Txn<'_> :: fn normalize_working_set
    fn normalize_working_set(&mut self)
        requires old(self).cur().working_set.len() >= 1
        ensures final(self).cur().working_set@ == ws_trim(old(self).cur().working_set@),
            final(self).cur().base_version == old(self).cur().base_version,
            final(self).cur().tasks == old(self).cur().tasks,
            final(self).cur().operations == old(self).cur().operations,
            final(self).storage == old(self).storage,
{
        let working_set = &mut self.mut_data_ref().working_set;
        while let Some(None) = &working_set[1..].last()
            invariant working_set.len() >= 1, ws_trim(working_set@) == ws_trim(old(self).cur().working_set@)
            ensures working_set@ == ws_trim(old(self).cur().working_set@)
            decreases working_set.len()
        {
            working_set.pop();
        }
    }
//@end

}

impl StorageTxn for Txn<'_> {
    open spec fn st(&self) -> TxnView { self.cur().view_of() }
    /// what other transactions can see: the storage's committed data
    open spec fn stored(&self) -> TxnView { self.storage.data.view_of() }
    open spec fn inv(&self) -> bool { self.cur().wf() && self.storage.data.wf() }

//@extract src/storage/inmemory.rs :: impl StorageTxn for Txn<'_> :: fn get_task
    fn get_task(&mut self, uuid: Uuid) -> (r: Result<Option<TaskMap>>)
{
        match self.data_ref().tasks.get(&uuid) {
            None => Ok(None),
            Some(t) => Ok(Some(t.clone())),
        }
    }
//@end

//@extract src/storage/inmemory.rs :: impl StorageTxn for Txn<'_> :: fn set_task
    fn set_task(&mut self, uuid: Uuid, task: TaskMap) -> (r: Result<()>)
{
        let ghost s0 = self.st();
        let ghost tv = task@;
        self.mut_data_ref().tasks.insert(uuid, task);
        proof { assert(self.st().tasks =~= s0.tasks.insert(uuid, tv)); }
        Ok(())
    }
//@end

//@extract src/storage/inmemory.rs :: impl StorageTxn for Txn<'_> :: fn delete_task
    fn delete_task(&mut self, uuid: Uuid) -> (r: Result<bool>)
{
        proof { assert(self.st().tasks.remove(uuid) =~= Map::new(self.cur().tasks@.remove(uuid).dom(), |u: Uuid| self.cur().tasks@.remove(uuid)[u]@)); }
        Ok(self.mut_data_ref().tasks.remove(&uuid).is_some())
    }
//@end

//@extract src/storage/inmemory.rs :: impl StorageTxn for Txn<'_> :: fn create_task
    fn create_task(&mut self, uuid: Uuid) -> (r: Result<bool>)
{
        let ghost s0 = self.st();
        if let ent @ Entry::Vacant(_) = self.mut_data_ref().tasks.entry(uuid) {
            ent.or_insert_with(TaskMap::new);
            proof { assert(self.st().tasks =~= s0.tasks.insert(uuid, Map::empty())); }
            Ok(true)
        } else {
            proof { assert(self.st().tasks =~= s0.tasks); }
            Ok(false)
        }
    }
//@end

//@extract src/storage/inmemory.rs :: impl StorageTxn for Txn<'_> :: fn base_version
    fn base_version(&mut self) -> (r: Result<VersionId>)
{
        Ok(self.data_ref().base_version)
    }
//@end

//@extract src/storage/inmemory.rs :: impl StorageTxn for Txn<'_> :: fn set_base_version
    fn set_base_version(&mut self, version: VersionId) -> (r: Result<()>)
{
        self.mut_data_ref().base_version = version;
        Ok(())
    }
//@end

//@extract src/storage/inmemory.rs :: impl StorageTxn for Txn<'_> :: fn add_operation
    fn add_operation(&mut self, op: Operation) -> (r: Result<()>)
{
        let ghost o0 = self.cur().operations@;
        self.mut_data_ref().operations.push((false, op));
        proof { lemma_unsynced_push(o0, false, op); }
        Ok(())
    }
//@end

//@extract src/storage/inmemory.rs :: impl StorageTxn for Txn<'_> :: fn remove_operation
    fn remove_operation(&mut self, op: Operation) -> (r: Result<()>)
{
        if let Some((synced, last_op)) = self.data_ref().operations.last() {
            if *synced {
                return Err(Error::Database(
                    "Last operation has been synced -- cannot remove".to_string(),
                ));
            }
            if last_op == &op {
                let ghost o0 = self.cur().operations@;
                proof { assert(o0 =~= o0.drop_last().push((false, op))); lemma_unsynced_push(o0.drop_last(), false, op); }
                self.mut_data_ref().operations.pop();
                proof { assert(unsynced_of(o0.drop_last()).push(op).drop_last() =~= unsynced_of(o0.drop_last())); }
                return Ok(());
            }
        }
        Err(Error::Database(
            "Last operation does not match -- cannot remove".to_string(),
        ))
    }
//@end

//@extract src/storage/inmemory.rs :: impl StorageTxn for Txn<'_> :: fn get_working_set
    fn get_working_set(&mut self) -> (r: Result<Vec<Option<Uuid>>>)
{
        Ok(self.data_ref().working_set.clone())
    }
//@end

//@extract src/storage/inmemory.rs :: impl StorageTxn for Txn<'_> :: fn add_to_working_set
    fn add_to_working_set(&mut self, uuid: Uuid) -> (r: Result<usize>)
{
        let working_set = &mut self.mut_data_ref().working_set;
        working_set.push(Some(uuid));
        Ok(working_set.len() - 1)
    }
//@end

//@extract src/storage/inmemory.rs :: impl StorageTxn for Txn<'_> :: fn set_working_set_item
    fn set_working_set_item(&mut self, index: usize, uuid: Option<Uuid>) -> (r: Result<()>)
{
        let working_set = &mut self.mut_data_ref().working_set;
        if index >= working_set.len() {
            return Err(Error::Database(opaque_string()));
        }
        working_set[index] = uuid;
        proof { lemma_trim_prefix(working_set@); }
        self.normalize_working_set();
        Ok(())
    }
//@end

//@extract src/storage/inmemory.rs :: impl StorageTxn for Txn<'_> :: fn clear_working_set
    fn clear_working_set(&mut self) -> (r: Result<()>)
{
        self.mut_data_ref().working_set = vec![None];
        proof { assert(self.cur().working_set@ =~= seq![None::<Uuid>]); }
        Ok(())
    }
//@end

//@extract src/storage/inmemory.rs :: impl StorageTxn for Txn<'_> :: fn commit
    fn commit(&mut self) -> (r: Result<()>)
{
        if let Some(data) = self.new_data.take() {
            self.storage.data = data;
        }
        Ok(())
    }
//@end

//@extract src/storage/inmemory.rs :: impl StorageTxn for Txn<'_> :: fn all_tasks
    fn all_tasks(&mut self) -> (r: Result<Vec<(Uuid, TaskMap)>>)
{
        let ghost m0 = old(self).cur().tasks@;
        Ok({
            let mut it1_acc = Vec::new();
            for it1_x in it_it1_x: self.data_ref().tasks.iter()
                invariant
                    m0 == old(self).cur().tasks@,
                    pairs_upto(it_it1_x.seq(), m0, it1_acc@, it_it1_x.index() as int),
            {
                let (u, t) = it1_x;
                let it1_y1 = (*u, t.clone());
                it1_acc.push(it1_y1);
            }
            proof {
                assert(exists|kv: Seq<(&Uuid, &TaskMap)>| #[trigger] pairs_upto(kv, m0, it1_acc@, kv.len() as int));
                let kv = choose|kv: Seq<(&Uuid, &TaskMap)>| #[trigger] pairs_upto(kv, m0, it1_acc@, kv.len() as int);
                lemma_pairs_listed(kv, m0, it1_acc@, old(self).st().tasks);
            }
            it1_acc
        })
    }
//@end

//@extract src/storage/inmemory.rs :: impl StorageTxn for Txn<'_> :: fn all_task_uuids
    fn all_task_uuids(&mut self) -> (r: Result<Vec<Uuid>>)
{
        let ghost m0 = old(self).cur().tasks@;
        Ok({
            let mut it1_acc = Vec::new();
            for it1_x in it_it1_x: self.data_ref().tasks.keys()
                invariant
                    m0 == old(self).cur().tasks@,
                    keys_upto(it_it1_x.seq(), m0, it1_acc@, it_it1_x.index() as int),
            {
                let it1_y1 = *it1_x;
                it1_acc.push(it1_y1);
            }
            proof {
                assert(exists|ks: Seq<&Uuid>| #[trigger] keys_upto(ks, m0, it1_acc@, ks.len() as int));
                let ks = choose|ks: Seq<&Uuid>| #[trigger] keys_upto(ks, m0, it1_acc@, ks.len() as int);
                lemma_keys_listed(ks, m0, it1_acc@, old(self).st().tasks);
            }
            it1_acc
        })
    }
//@end

//@extract src/storage/inmemory.rs :: impl StorageTxn for Txn<'_> :: fn get_task_operations
    fn get_task_operations(&mut self, uuid: Uuid) -> (r: Result<Vec<Operation>>)
{
        let ghost o0 = old(self).cur().operations@;
        Ok({
            let mut it1_acc = Vec::new();
            for it1_x in it_it1_x: self.data_ref().operations.iter()
                invariant
                    o0 == old(self).cur().operations@, same_elems(it_it1_x.seq(), o0),
                    it1_acc@ == ops_for(all_ops(o0.take(it_it1_x.index() as int)), uuid),
            {
                proof { lemma_all_ops_take(o0, it_it1_x.index() as int); }
                let (_, op) = &it1_x;
                let it1_c0 = op.get_uuid() == Some(uuid);
                if it1_c0 {
                    let (_, op) = it1_x;
                    let it1_y1 = op.clone();
                    it1_acc.push(it1_y1);
                }
            }
            proof { assert(o0.take(o0.len() as int) =~= o0); lemma_synced_first_split(o0); }
            it1_acc
        })
    }
//@end

//@extract src/storage/inmemory.rs :: impl StorageTxn for Txn<'_> :: fn unsynced_operations
    fn unsynced_operations(&mut self) -> (r: Result<Vec<Operation>>)
{
        let ghost o0 = old(self).cur().operations@;
        Ok({
            let mut it1_acc = Vec::new();
            for it1_x in it_it1_x: self.data_ref().operations.iter()
                invariant
                    o0 == old(self).cur().operations@, same_elems(it_it1_x.seq(), o0),
                    it1_acc@ == unsynced_of(o0.take(it_it1_x.index() as int)),
            {
                proof { lemma_take_step(o0, it_it1_x.index() as int); }
                let (synced, _) = &it1_x;
                let it1_c0 = !synced;
                if it1_c0 {
                    let (_, op) = it1_x;
                    let it1_y1 = op.clone();
                    it1_acc.push(it1_y1);
                }
            }
            proof { assert(o0.take(o0.len() as int) =~= o0); }
            it1_acc
        })
    }
//@end

//@extract src/storage/inmemory.rs :: impl StorageTxn for Txn<'_> :: fn num_unsynced_operations
    fn num_unsynced_operations(&mut self) -> (r: Result<usize>)
{
        let ghost o0 = old(self).cur().operations@;
        proof { assert(o0.len() == old(self).cur().operations.len()); }
        Ok({
            let mut it1_acc: usize = 0;
            for it1_x in it_it1_x: self.data_ref().operations.iter()
                invariant
                    o0 == old(self).cur().operations@, same_elems(it_it1_x.seq(), o0),
                    it1_acc == unsynced_of(o0.take(it_it1_x.index() as int)).len(), it1_acc <= it_it1_x.index(), o0.len() <= usize::MAX,
            {
                proof { lemma_take_step(o0, it_it1_x.index() as int); }
                let (synced, _) = &it1_x;
                let it1_c0 = !synced;
                if it1_c0 {
                    it1_acc += 1;
                }
            }
            proof { assert(o0.take(o0.len() as int) =~= o0); }
            it1_acc
        })
    }
//@end

//@extract src/storage/inmemory.rs :: impl StorageTxn for Txn<'_> :: fn sync_complete
    fn sync_complete(&mut self) -> (r: Result<()>)
{
        let ghost o0 = old(self).cur().operations@;
        let ghost s0 = old(self).st();
        let data = self.data_ref();
        let new_operations = {
            let mut it1_acc = Vec::new();
            for it1_x in it_it1_x: data.operations.iter()
                invariant
                    *data == old(self).cur(), o0 == old(self).cur().operations@, same_elems(it_it1_x.seq(), o0), s0 == old(self).st(),
                    it1_acc@ == mark_synced(live_ops(all_ops(o0.take(it_it1_x.index() as int)), s0.tasks)),
            {
                proof { lemma_all_ops_take(o0, it_it1_x.index() as int); }
                let (_, op) = &it1_x;
                let it1_c0 = {
                    if let Some(uuid) = op.get_uuid() {
                        data.tasks.contains_key(&uuid)
                    } else {
                        true
                    }
                };
                if it1_c0 {
                    let (_, op) = it1_x;
                    let it1_y1 = (true, op.clone());
                    proof { lemma_mark_synced_push(live_ops(all_ops(o0.take(it_it1_x.index() as int)), s0.tasks), *op); }
                    it1_acc.push(it1_y1);
                }
            }
            it1_acc
        };
        proof {
            assert(o0.take(o0.len() as int) =~= o0);
            lemma_synced_first_split(o0);
            lemma_mark_synced(live_ops(all_ops(o0), s0.tasks));
        }
        self.mut_data_ref().operations = new_operations;
        Ok(())
    }
//@end

    // ---- outside the verifier's language subset (nested closures over `self` inside Option::map(..).flatten()): NOT verified;
    // ---- the stand-in is assumed to satisfy the trait contract, listed in the evidence as out_of_reach

    #[verifier::external_body]
    fn get_pending_tasks(&mut self) -> (r: Result<Vec<(Uuid, TaskMap)>>)
    { unimplemented!() }

}

// ---- the storage itself ----------------------------------------------------------------------------------------------------------
/// `DEFAULT_BASE_VERSION` (src/storage/mod.rs: `Uuid::nil()`, an exec call in a const, which Verus rejects): stand-in constant
pub const DEFAULT_BASE_VERSION: Uuid = Uuid(0); //@
impl InMemoryStorage {
//@extract src/storage/inmemory.rs :: impl InMemoryStorage :: fn new
    pub fn new() -> (r: InMemoryStorage)
        ensures
            //@ob C16 InMemoryStorage::new.an-empty-store:-no-tasks,-no-operations,-nil-base-version,-working-set-[None]
            r.data.wf() && is_empty_view(r.data.view_of()) && r.data.view_of().synced.len() == 0,
{
        InMemoryStorage {
            data: Data {
                tasks: HashMap::new(),
                base_version: DEFAULT_BASE_VERSION,
                operations: vec![],
                working_set: vec![None],
            },
        }
    }
//@end
}
