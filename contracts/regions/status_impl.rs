// ================================================================================================
// src/task/status.rs : Status and its stored names   (C19, C15, C20)
// ================================================================================================
//@props C19
pub open spec fn status_name(st: Status) -> Seq<char> {
    match st { Status::Pending => "pending"@, Status::Completed => "completed"@, Status::Deleted => "deleted"@, Status::Recurring => "recurring"@, Status::Unknown(v) => v@ }
}
//@extract src/task/status.rs :: enum Status
pub enum Status {
    Pending,
    Completed,
    Deleted,
    Recurring,
    Unknown(String),
}
//@end

impl Status {
//@extract src/task/status.rs :: impl Status :: fn to_taskmap
    pub fn to_taskmap(&self) -> (r: &str)
        ensures
            //@ob C19 Status::to_taskmap.documented-status-names
            r@ == status_name(*self),
{
        match self {
            Status::Pending => "pending",
            Status::Completed => "completed",
            Status::Deleted => "deleted",
            Status::Recurring => "recurring",
            Status::Unknown(v) => v.as_ref(),
        }
    }
//@end
}

impl Status {
//@extract src/task/status.rs :: impl Status :: fn from_taskmap
    pub fn from_taskmap(s: &str) -> (r: Status)
        ensures
            //@ob C19 C18 Status::from_taskmap.the-four-documented-names,-anything-else-is-kept-as-Unknown (never panics)
            status_name(r) == s@,
            r is Pending <==> s@ == "pending"@,
{
        match s {
            "pending" => Status::Pending,
            "completed" => Status::Completed,
            "deleted" => Status::Deleted,
            "recurring" => Status::Recurring,
            v => Status::Unknown(v.to_string()),
        }
    }
//@end
}
