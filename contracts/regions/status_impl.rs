// ================================================================================================
// src/task/status.rs : Status and its stored names   (C19, C15, C20)
// ================================================================================================
//@props C19
pub open spec fn status_name(st: Status) -> Seq<char> {
    match st { Status::Pending => "pending"@, Status::Completed => "completed"@, Status::Deleted => "deleted"@, Status::Recurring => "recurring"@, Status::Unknown(v) => v@ }
}
//@extract src/task/status.rs :: enum Status
pub enum Status {
    Pending,
    Completed,
    Deleted,
    Recurring,
    Unknown(String),
}
//@end

impl Status {
//@extract src/task/status.rs :: impl Status :: fn to_taskmap
    pub fn to_taskmap(&self) -> (r: &str)
        ensures
            //@ob C19 Status::to_taskmap.documented-status-names
            r@ == status_name(*self),
{
        match self {
            Status::Pending => "pending",
            Status::Completed => "completed",
            Status::Deleted => "deleted",
            Status::Recurring => "recurring",
            Status::Unknown(v) => v.as_ref(),
        }
    }
//@end
}

