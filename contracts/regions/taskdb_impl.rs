// ================================================================================================
// src/taskdb/mod.rs :: TaskDb::commit_operations
// ================================================================================================
//@props C05 C15
pub mod apply { pub use super::apply_operations; }
impl<S: Storage> TaskDb<S> {
//@extract src/taskdb/mod.rs :: impl<S: Storage> TaskDb<S> :: fn commit_operations | R17 R19
    pub fn commit_operations<F>(
        &mut self,
        operations: Operations,
        add_to_working_set: F,
    ) -> (r: Result<()>)
    where
        F: Fn(&Operation) -> bool,
        requires forall|o: &Operation| #[trigger] add_to_working_set.requires((o,)),
            // the caller's predicate is a function of the operation
            forall|o: &Operation, b1: bool, b2: bool| add_to_working_set.ensures((o,), b1) && add_to_working_set.ensures((o,), b2) ==> b1 == b2,
{
        let ghost ops0 = operations@;
        let mut txn = self.storage.txn()?;
        let ghost s0 = txn.st();
        apply::apply_operations(&mut *txn, &operations)?;
        let ghost s1 = txn.st();
        //@props C15
        let mut to_add = Vec::new();
        for operation in it_operation: &operations
            invariant
                it_operation.seq().len() == ops0.len(), operations@ == ops0,
                forall|j: int| 0 <= j < ops0.len() ==> *(#[trigger] it_operation.seq()[j]) == ops0[j],
                forall|o: &Operation| #[trigger] add_to_working_set.requires((o,)),
                forall|o: &Operation, b1: bool, b2: bool| add_to_working_set.ensures((o,), b1) && add_to_working_set.ensures((o,), b2) ==> b1 == b2,
                forall|j: int| 0 <= j < to_add@.len() ==> uuid_among(add_to_working_set, ops0, it_operation.index() as int, #[trigger] to_add@[j]),
                forall|i: int| #![trigger ops0[i]] 0 <= i < it_operation.index() && op_uuid(ops0[i]) is Some && add_to_working_set.ensures((&ops0[i],), true)
                    ==> to_add@.contains(op_uuid(ops0[i])->Some_0),
        {
            let ghost k = it_operation.index() as int;
            let ghost ta0 = to_add@;
            if add_to_working_set(operation) {
                match operation {
                    Operation::Create { uuid }
                    | Operation::Update { uuid, .. }
                    | Operation::Delete { uuid, .. } => to_add.push(*uuid),
                    _ => {}
                }
            }
            proof {
                assert(*operation == ops0[k]);
                assert forall|j: int| 0 <= j < to_add@.len() implies uuid_among(add_to_working_set, ops0, k + 1, #[trigger] to_add@[j]) by {
                    if j < ta0.len() {
                        assert(uuid_among(add_to_working_set, ops0, k, ta0[j]));
                        let i = choose|i: int| 0 <= i < k && op_uuid(#[trigger] ops0[i]) == Some(ta0[j]) && add_to_working_set.ensures((&ops0[i],), true);
                        assert(op_uuid(ops0[i]) == Some(to_add@[j]));
                    } else {
                        assert(op_uuid(ops0[k]) == Some(to_add@[j]));
                    }
                }
                assert forall|i: int| #![trigger ops0[i]] 0 <= i < k + 1 && op_uuid(ops0[i]) is Some && add_to_working_set.ensures((&ops0[i],), true)
                    implies to_add@.contains(op_uuid(ops0[i])->Some_0) by {
                    if i < k {
                        let j = choose|j: int| 0 <= j < ta0.len() && ta0[j] == op_uuid(ops0[i])->Some_0;
                        assert(to_add@[j] == ta0[j]);
                    } else {
                        assert(to_add@[to_add@.len() - 1] == op_uuid(ops0[k])->Some_0);
                    }
                }
            }
        }
        let mut working_set: HashSet<Uuid> = flatten_options(&txn
            .get_working_set()?);
        let ghost ta = to_add@;
        let ghost mut added: Seq<Uuid> = Seq::empty();
        proof { assert(s1.ws + wrap_some(added) =~= s1.ws); }
        for uuid in it_uuid: to_add
            invariant
                it_uuid.seq() == ta, txn.inv(),
                forall|j: int| 0 <= j < ta.len() ==> uuid_among(add_to_working_set, ops0, ops0.len() as int, #[trigger] ta[j]),
                forall|i: int| 0 <= i < added.len() ==> uuid_among(add_to_working_set, ops0, ops0.len() as int, #[trigger] added[i]),
                txn.st() == (TxnView { ws: s1.ws + wrap_some(added), ..s1 }),
                working_set@ == somes(s1.ws + wrap_some(added)),
                no_dups(added),
                forall|i: int| 0 <= i < added.len() ==> !somes(s1.ws).contains(#[trigger] added[i]),
                forall|j: int| 0 <= j < it_uuid.index() ==> somes(s1.ws + wrap_some(added)).contains(#[trigger] ta[j]),
        {
            let ghost k = it_uuid.index() as int;
            let ghost added0 = added;
            let ghost w0 = s1.ws + wrap_some(added0);
            if !working_set.contains(&uuid) {
                txn.add_to_working_set(uuid)?;
                working_set.insert(uuid);
                proof {
                    added = added0.push(uuid);
                    let w1 = s1.ws + wrap_some(added);
                    lemma_somes(w0); lemma_somes(w1); lemma_somes(s1.ws);
                    assert(w1 =~= w0.push(Some(uuid)));
                    assert(somes(w1) =~= somes(w0).insert(uuid)) by {
                        assert forall|u: Uuid| somes(w1).contains(u) <==> somes(w0).insert(uuid).contains(u) by {
                            if somes(w1).contains(u) {
                                let i = choose|i: int| 0 <= i < w1.len() && #[trigger] w1[i] == Some(u);
                                if i < w0.len() { assert(w0[i] == Some(u)); }
                            }
                            if somes(w0).contains(u) {
                                let i = choose|i: int| 0 <= i < w0.len() && #[trigger] w0[i] == Some(u);
                                assert(w1[i] == Some(u));
                            }
                            if u == uuid { assert(w1[w0.len() as int] == Some(u)); }
                        }
                    }
                    assert(!somes(s1.ws).contains(uuid)) by {
                        if somes(s1.ws).contains(uuid) {
                            let i = choose|i: int| 0 <= i < s1.ws.len() && #[trigger] s1.ws[i] == Some(uuid);
                            assert(w0[i] == Some(uuid));
                        }
                    }
                    assert(no_dups(added)) by {
                        assert forall|i: int, j: int| 0 <= i < j < added.len() implies added[i] != added[j] by {
                            if j == added0.len() && added[i] == uuid {
                                assert(w0[s1.ws.len() + i] == Some(uuid));
                            }
                        }
                    }
                }
            }
            proof {
                let w1 = s1.ws + wrap_some(added);
                lemma_somes(w0); lemma_somes(w1);
                assert forall|j: int| 0 <= j < k + 1 implies somes(w1).contains(#[trigger] ta[j]) by {
                    if j < k {
                        let i = choose|i: int| 0 <= i < w0.len() && #[trigger] w0[i] == Some(ta[j]);
                        assert(w1[i] == Some(ta[j]));
                    }
                }
            }
        }
        //@props C05
        let ghost s2 = txn.st();
        proof { assert(s2.unsynced + ops0.take(0) =~= s2.unsynced); }
        for operation in it_operation2: operations
            invariant
                it_operation2.seq() == ops0, txn.inv(),
                txn.st() == (TxnView { unsynced: s2.unsynced + ops0.take(it_operation2.index() as int), ..s2 }),
        {
            let ghost k = it_operation2.index() as int;
            txn.add_operation(operation)?;
            proof { assert(s2.unsynced + ops0.take(k + 1) =~= (s2.unsynced + ops0.take(k)).push(operation)); }
        }
        //@ob C05 C15 commit_operations.the-state-handed-to-commit: tasks = one-at-a-time application, operations appended in order, working set only grows at the end
        proof {
            assert(ops0.take(ops0.len() as int) =~= ops0);
            let s = txn.st();
            assert forall|i: int| #![trigger ops0[i]] 0 <= i < ops0.len() && op_uuid(ops0[i]) is Some && add_to_working_set.ensures((&ops0[i],), true)
                implies somes(s.ws).contains(op_uuid(ops0[i])->Some_0) by {
                let j = choose|j: int| 0 <= j < ta.len() && ta[j] == op_uuid(ops0[i])->Some_0;
                assert(somes(s.ws).contains(ta[j]));
            }
            assert(commit_ops_final(add_to_working_set, s0, ops0, s, added));
        }
        txn.commit()
    }
//@end
}
