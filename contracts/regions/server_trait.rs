// ================================================================================================
// The Server contract in rely/guarantee form (DESIGN.md section 3): the ghost chain may first be extended by the
// environment (other replicas' accepted versions) inside every call; the result is determined by the chain at
// that linearisation point.  Taken from docs/src/sync-protocol.md and the doc comments of the trait.
// ================================================================================================
//@extract src/server/types.rs :: trait Server
pub trait Server {
    /// ghost: the complete, ordered history of accepted versions
    spec fn chain(&self) -> Chain;
    fn add_version(
        &mut self,
        parent_version_id: VersionId,
        history_segment: HistorySegment,
    ) -> (r: Result<(AddVersionResult, SnapshotUrgency)>)
        requires
            chain_wf(old(self).chain()),
            //@ob C01 C02 C14 server.add_version.guarantee: what a replica proposes is decodable and valid on top of its parent
            decodable(history_segment@),
            forall|k: int| 0 <= k <= old(self).chain().len() && #[trigger] id_at(old(self).chain(), k) == parent_version_id
                ==> valid_seq(replay(old(self).chain(), k), decode(history_segment@)),
        ensures
            chain_wf(final(self).chain()), prefix(old(self).chain(), final(self).chain()),
            match r {
                Ok((AddVersionResult::Ok(id), _)) =>
                    exists|k: int| old(self).chain().len() <= k
                        && #[trigger] version_at(final(self).chain(), k, parent_version_id, id, decode(history_segment@)),
                Ok((AddVersionResult::ExpectedParentVersion(h), _)) =>
                    exists|m: int| old(self).chain().len() <= m
                        && #[trigger] head_is(final(self).chain(), m, h) && h != parent_version_id,
                // on an error the version may or may not have been accepted (lost reply)
                Err(e) => storage_err(e),
            },
    ;
    fn get_child_version(&mut self, parent_version_id: VersionId)
        -> (r: Result<GetVersionResult>)
        requires chain_wf(old(self).chain()),
        ensures
            chain_wf(final(self).chain()), prefix(old(self).chain(), final(self).chain()),
            match r {
                Ok(GetVersionResult::Version { version_id, parent_version_id: p2, history_segment }) =>
                    decodable(history_segment@)
                    && exists|k: int| #[trigger] version_at(final(self).chain(), k, parent_version_id, version_id, decode(history_segment@)),
                Ok(GetVersionResult::NoSuchVersion) =>
                    // at the linearisation point `parent_version_id` had no child
                    exists|m: int| old(self).chain().len() <= m <= final(self).chain().len()
                        && #[trigger] no_child_within(final(self).chain(), m, parent_version_id),
                Err(e) => storage_err(e),
            },
    ;
    fn add_snapshot(&mut self, version_id: VersionId, snapshot: Snapshot) -> (r: Result<()>)
        requires chain_wf(old(self).chain()),
            //@ob C12 server.add_snapshot.guarantee: a snapshot is uploaded only for a version whose replayed state it encodes
            exists|k: int| 0 < k <= old(self).chain().len() && #[trigger] id_at(old(self).chain(), k) == version_id
                && snap_decodable(snapshot@) && snap_decode(snapshot@) == replay(old(self).chain(), k),
        ensures chain_wf(final(self).chain()), prefix(old(self).chain(), final(self).chain()),
            r matches Err(e) ==> storage_err(e),
    ;
    fn get_snapshot(&mut self) -> (r: Result<Option<(VersionId, Snapshot)>>)
        requires chain_wf(old(self).chain()),
        ensures chain_wf(final(self).chain()), prefix(old(self).chain(), final(self).chain()),
            match r {
                // rely: every replica obeys add_snapshot's guarantee, so a stored snapshot encodes the replay of its version
                Ok(Some((v, snap))) => exists|k: int| 0 < k <= final(self).chain().len() && #[trigger] id_at(final(self).chain(), k) == v
                    && snap_decodable(snap@) && snap_decode(snap@) == replay(final(self).chain(), k),
                Ok(None) => true,
                Err(e) => storage_err(e),
            },
    ;
}
//@end
