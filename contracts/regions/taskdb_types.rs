// ================================================================================================
// src/storage/mod.rs :: trait Storage ; src/taskdb/mod.rs :: struct TaskDb
// ================================================================================================
//@props C05 C15
//@extract src/storage/mod.rs :: trait Storage
pub trait Storage: Send {
    /// A9 (ghost): what the storage durably holds -- what the next transaction will see
    spec fn view(&self) -> TxnView;
    fn txn<'a>(&'a mut self) -> (r: Result<Box<dyn StorageTxn + 'a>>)
        ensures match r {
            // a fresh transaction on the stored content: nothing changed yet, working set well formed
            Ok(t) => t.inv() && t.st() == t.stored() && ws_wf(t.st().ws) && t.stored() == old(self).view(),
            Err(e) => storage_err(e),
        },
    ;
}
//@end
//@extract src/taskdb/mod.rs :: struct TaskDb
pub struct TaskDb<S: Storage> {
    pub storage: S,
}
//@end
