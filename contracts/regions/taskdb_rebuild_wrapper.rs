// ================================================================================================
// src/taskdb/mod.rs :: TaskDb::rebuild_working_set -- the wrapper: one fresh transaction, one call of working_set::rebuild   (C15)
// ================================================================================================
//@props C15
pub mod working_set { pub use super::rebuild; }
impl<S: Storage> TaskDb<S> {
//@extract src/taskdb/mod.rs :: impl<S: Storage> TaskDb<S> :: fn rebuild_working_set | R19
    pub fn rebuild_working_set<F>(
        &mut self,
        in_working_set: F,
        renumber: bool,
    ) -> (r: Result<()>)
    where
        F: Fn(&TaskMap) -> bool,
        requires pure_pred(in_working_set),
            // the storage invariant of the stored working set (what every writer leaves behind), and its physical size bound
            ws_wf2(old(self).storage.view().ws), ws_trim(old(self).storage.view().ws) == old(self).storage.view().ws,
            old(self).storage.view().ws.len() + old(self).storage.view().tasks.dom().len() < usize::MAX,
        ensures
            //@ob C15 C02 TaskDb::rebuild_working_set.fails-only-with-a-storage-error
            r matches Err(e) ==> storage_err(e),
{
        working_set::rebuild(&mut *(self.storage.txn()?), in_working_set, renumber)
    }
//@end
}
