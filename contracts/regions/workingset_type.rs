// ================================================================================================
// src/workingset.rs : the WorkingSet snapshot handed to callers   (C18, C15)
// ================================================================================================
//@props C18 C15
//@extract src/workingset.rs :: struct WorkingSet
pub struct WorkingSet {
    pub by_index: Vec<Option<Uuid>>,
    pub by_uuid: HashMap<Uuid, usize>,
}
//@end
/// number of listed tasks among the first n entries
pub open spec fn count_some(w: Seq<Option<Uuid>>, n: int) -> int
    decreases n
{
    if n <= 0 { 0 } else { count_some(w, n - 1) + (if w[n - 1] is Some { 1int } else { 0int }) }
}
pub proof fn lemma_count_some_bound(w: Seq<Option<Uuid>>, n: int)
    requires 0 <= n <= w.len()
    ensures 0 <= count_some(w, n) <= n
    decreases n
{
    if n > 0 { lemma_count_some_bound(w, n - 1); }
}
/// the reverse index built from the first n entries: every listed task points at a position that lists it
pub open spec fn index_upto(w: Seq<Option<Uuid>>, n: int, m: Map<Uuid, usize>) -> bool {
    &&& forall|u: Uuid| m.dom().contains(u) <==> exists|i: int| 0 <= i < n && #[trigger] w[i] == Some(u)
    &&& forall|u: Uuid| m.dom().contains(u) ==> 0 <= (#[trigger] m[u]) < n && w[m[u] as int] == Some(u)
}
impl WorkingSet {
    /// "working sets are 1-indexed, so element 0 should always be None"; the reverse index agrees with the list
    pub open spec fn wf(&self) -> bool {
        (self.by_index@.len() == 0 || self.by_index@[0] is None) && index_upto(self.by_index@, self.by_index@.len() as int, self.by_uuid@)
    }
//@extract src/workingset.rs :: impl WorkingSet :: fn new | R9
    pub fn new(by_index: Vec<Option<Uuid>>) -> (r: Self)
        requires
            //@ob C18 WorkingSet::new.the-assertion-on-element-0-cannot-fail-for-what-a-storage-returns
            by_index@.len() == 0 || by_index@[0] is None,
        ensures r.by_index@ == by_index@, r.wf(),
{
        let mut by_uuid = HashMap::new();
        assert!(by_index.is_empty() || by_index[0].is_none());
        {
            let mut index: usize = 0;
            for uuid in it_uuid: by_index.iter()
                invariant index == it_uuid.index(), same_refs(it_uuid.seq(), by_index@), by_index@.len() == by_index.len(), index_upto(by_index@, index as int, by_uuid@),
            {
                let ghost m0 = by_uuid@;
                let ghost k = index as int;
                if let Some(uuid) = uuid {
                    by_uuid.insert(*uuid, index);
                    proof {
                        assert(by_index@[k] == Some(*uuid));
                        assert forall|u: Uuid| by_uuid@.dom().contains(u) <==> exists|i: int| 0 <= i < k + 1 && #[trigger] by_index@[i] == Some(u) by {
                            if m0.dom().contains(u) { let i = choose|i: int| 0 <= i < k && #[trigger] by_index@[i] == Some(u); assert(by_index@[i] == Some(u)); }
                        }
                    }
                }
                else {
                    proof {
                        assert(by_index@[k] is None);
                        assert forall|u: Uuid| by_uuid@.dom().contains(u) <==> exists|i: int| 0 <= i < k + 1 && #[trigger] by_index@[i] == Some(u) by {
                            if m0.dom().contains(u) { let i = choose|i: int| 0 <= i < k && #[trigger] by_index@[i] == Some(u); assert(by_index@[i] == Some(u)); }
                        }
                    }
                }
                index += 1;
            }
        }
        Self { by_index, by_uuid }
    }
//@end
//@extract src/workingset.rs :: impl WorkingSet :: fn len
    pub fn len(&self) -> (r: usize)
        ensures
            //@ob C15 WorkingSet::len.the-number-of-listed-tasks
            r == count_some(self.by_index@, self.by_index@.len() as int),
{
        {
            let mut it1_acc: usize = 0;
            for it1_x in it_it1_x: self.by_index.iter()
                invariant same_refs(it_it1_x.seq(), self.by_index@), self.by_index@.len() == self.by_index.len(), it1_acc == count_some(self.by_index@, it_it1_x.index() as int), it1_acc <= it_it1_x.index(),
            {
                let e = &it1_x;
                let it1_c0 = e.is_some();
                if it1_c0 {
                    it1_acc += 1;
                }
            }
            it1_acc
        }
    }
//@end
//@extract src/workingset.rs :: impl WorkingSet :: fn largest_index
    pub fn largest_index(&self) -> (r: usize)
        ensures r == (if self.by_index@.len() == 0 { 0 } else { self.by_index@.len() - 1 }),
{
        self.by_index.len().saturating_sub(1)
    }
//@end
//@extract src/workingset.rs :: impl WorkingSet :: fn is_empty
    pub fn is_empty(&self) -> (r: bool)
        ensures
            //@ob C15 WorkingSet::is_empty.true-iff-no-task-is-listed
            r == (forall|i: int| 0 <= i < self.by_index@.len() ==> (#[trigger] self.by_index@[i]) is None),
{
        {
            let mut it1_acc = true;
            for it1_x in it_it1_x: self.by_index.iter()
                invariant same_refs(it_it1_x.seq(), self.by_index@),
                    it1_acc == (forall|i: int| 0 <= i < it_it1_x.index() ==> (#[trigger] self.by_index@[i]) is None),
            {
                if it1_acc {
                    let e = it1_x;
                    let it1_t = e.is_none();
                    if !it1_t {
                        it1_acc = false;
                    }
                }
            }
            it1_acc
        }
    }
//@end
//@extract src/workingset.rs :: impl WorkingSet :: fn by_index
    pub fn by_index(&self, index: usize) -> (r: Option<Uuid>)
        ensures
            //@ob C15 WorkingSet::by_index.the-entry-at-that-number,-None-beyond-the-end
            r == (if index < self.by_index@.len() { self.by_index@[index as int] } else { None }),
{
        if let Some(Some(uuid)) = self.by_index.get(index) {
            Some(*uuid)
        } else {
            None
        }
    }
//@end
//@extract src/workingset.rs :: impl WorkingSet :: fn by_uuid
    pub fn by_uuid(&self, uuid: Uuid) -> (r: Option<usize>)
        requires self.wf(),
        ensures
            //@ob C15 WorkingSet::by_uuid.a-number-under-which-the-task-is-listed,-None-iff-it-is-not-listed
            match r { Some(i) => i < self.by_index@.len() && self.by_index@[i as int] == Some(uuid),
                      None => forall|i: int| 0 <= i < self.by_index@.len() ==> (#[trigger] self.by_index@[i]) != Some(uuid) },
{
        self.by_uuid.get(&uuid).copied()
    }
//@end
}
pub open spec fn same_refs<A>(r: Seq<&A>, o: Seq<A>) -> bool { r.len() == o.len() && forall|i: int| 0 <= i < r.len() ==> *(#[trigger] r[i]) == o[i] }
