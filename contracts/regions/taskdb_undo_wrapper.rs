// ================================================================================================
// src/taskdb/mod.rs :: TaskDb::{get_undo_operations, commit_reversed_operations} -- the wrappers: one fresh transaction, one call   (C07)
// (see regions/taskdb_sync_wrapper.rs for what can and cannot be stated about a wrapper)
// ================================================================================================
//@props C07
pub mod undo_mod { pub use super::{get_undo_operations, commit_reversed_operations}; }
use undo_mod as undo;
impl<S: Storage> TaskDb<S> {
//@extract src/taskdb/mod.rs :: impl<S: Storage> TaskDb<S> :: fn get_undo_operations | R19
    pub fn get_undo_operations(&mut self) -> (r: Result<Operations>)
        ensures
            //@ob C07 TaskDb::get_undo_operations.offers-the-unsynchronized-operations-of-the-stored-replica-back-to-the-last-undo-point
            r matches Ok(v) ==> undo_span(old(self).storage.view().unsynced, v@),
{
        let mut txn = self.storage.txn()?;
        undo::get_undo_operations(&mut *txn)
    }
//@end
//@extract src/taskdb/mod.rs :: impl<S: Storage> TaskDb<S> :: fn commit_reversed_operations | R19
    pub fn commit_reversed_operations(
        &mut self,
        undo_ops: Operations,
    ) -> (r: Result<bool>)
        ensures
            //@ob C07 TaskDb::commit_reversed_operations.false-when-the-given-operations-are-not-the-tail-of-the-stored-unsynchronized-list
            r matches Ok(b) ==> (!tail_match(old(self).storage.view().unsynced, undo_ops@) ==> !b),
{
        let mut txn = self.storage.txn()?;
        undo::commit_reversed_operations(&mut *txn, undo_ops)
    }
//@end
}
