// ================================================================================================
// src/taskdb/mod.rs : the TaskDb wrappers as the Replica sees them (TRUSTED glue, assumption A9)
// Each wrapper is `let mut txn = self.storage.txn()?; <verified function>(txn.as_mut(), ..)`.  Its contract here is the verified
// function's contract (regions/{taskdb_impl, rebuild_impl, sync_impl, undo_impl}.rs) with `stored()` read as the storage's
// `view()`, and the caller's predicate read through `decides_*` (an exec closure with `requires true` returns a value).
// The wrapper texts are hashed: a change makes the checks that rely on them UNDECIDED.
// ================================================================================================
impl<S: Storage> TaskDb<S> {
// (TaskDb::commit_operations itself is verified in unit `taskdb`, which every property using this glue also runs: not hashed here)
    #[verifier::external_body]
    pub fn commit_operations<F>(&mut self, operations: Operations, add_to_working_set: F) -> (r: Result<()>)
        where F: Fn(&Operation) -> bool,
        requires forall|o: &Operation| #[trigger] add_to_working_set.requires((o,)),
        ensures
            r is Ok ==> forall|p: spec_fn(Operation) -> bool| #[trigger] decides_op(add_to_working_set, p) ==>
                exists|added: Seq<Uuid>| #[trigger] commit_final_p(p, old(self).storage.view(), operations@, final(self).storage.view(), added),
            r is Err ==> final(self).storage.view() == old(self).storage.view(),
    { unimplemented!() }

//@watch C15 C01 C07 :: src/taskdb/mod.rs :: impl<S: Storage> TaskDb<S> :: fn rebuild_working_set
    #[verifier::external_body]
    pub fn rebuild_working_set<F>(&mut self, in_working_set: F, renumber: bool) -> (r: Result<()>)
        where F: Fn(&TaskMap) -> bool,
        requires pure_pred(in_working_set), ws_ok(old(self).storage.view()),
        ensures
            r matches Err(e) ==> storage_err(e),
            r is Ok ==> final(self).storage.view() == (TxnView { ws: final(self).storage.view().ws, ..old(self).storage.view() })
                && ws_ok(final(self).storage.view())
                && forall|p: spec_fn(TaskMapS) -> bool| #[trigger] decides_task(in_working_set, p) ==>
                    rebuild_post_p(p, renumber, old(self).storage.view().ws, old(self).storage.view().tasks, final(self).storage.view().ws),
            r is Err ==> final(self).storage.view() == old(self).storage.view(),
    { unimplemented!() }

//@watch C01 C02 C15 :: src/taskdb/mod.rs :: impl<S: Storage> TaskDb<S> :: fn sync
    #[verifier::external_body]
    pub fn sync(&mut self, server: &mut Box<dyn Server>, avoid_snapshots: bool) -> (r: Result<()>)
        requires chain_wf(old(server).chain()),
            exists|p: int| #[trigger] ri(old(server).chain(), p, old(self).storage.view().base, old(self).storage.view().tasks, to_sync(old(self).storage.view().unsynced)),
        ensures chain_wf(final(server).chain()), prefix(old(server).chain(), final(server).chain()),
            r is Ok ==> final(self).storage.view().unsynced.len() == 0
                && (exists|p: int| #[trigger] ri(final(server).chain(), p, final(self).storage.view().base, final(self).storage.view().tasks, Seq::<SyncOp>::empty()))
                && final(self).storage.view().ws == old(self).storage.view().ws,
            r is Err ==> final(self).storage.view() == old(self).storage.view(),
            !(r matches Err(Error::OutOfSync)),
    { unimplemented!() }

//@watch C07 :: src/taskdb/mod.rs :: impl<S: Storage> TaskDb<S> :: fn get_undo_operations
    #[verifier::external_body]
    pub fn get_undo_operations(&mut self) -> (r: Result<Operations>)
        ensures final(self).storage.view() == old(self).storage.view(),
            r matches Ok(v) ==> undo_span(old(self).storage.view().unsynced, v@)
                && (v@.len() > 0 ==> tail_match(old(self).storage.view().unsynced, v@)),
    { unimplemented!() }

//@watch C07 C15 :: src/taskdb/mod.rs :: impl<S: Storage> TaskDb<S> :: fn commit_reversed_operations
    #[verifier::external_body]
    pub fn commit_reversed_operations(&mut self, undo_ops: Operations) -> (r: Result<bool>)
        ensures
            r is Err ==> final(self).storage.view() == old(self).storage.view(),
            r matches Ok(b) ==> undo_post(old(self).storage.view(), undo_ops@, b, final(self).storage.view()),
    { unimplemented!() }

//@watch C20 :: src/taskdb/mod.rs :: impl<S: Storage> TaskDb<S> :: fn all_tasks
    #[verifier::external_body]
    pub fn all_tasks(&mut self) -> (r: Result<Vec<(Uuid, TaskMap)>>)
        ensures final(self).storage.view() == old(self).storage.view(),
            r matches Ok(v) ==> tasks_listed(v@, old(self).storage.view().tasks),
    { unimplemented!() }

//@watch C15 :: src/taskdb/mod.rs :: impl<S: Storage> TaskDb<S> :: fn working_set
    #[verifier::external_body]
    pub fn working_set(&mut self) -> (r: Result<Vec<Option<Uuid>>>)
        ensures final(self).storage.view() == old(self).storage.view(),
            r matches Ok(v) ==> v@ == old(self).storage.view().ws && ws_wf(v@),
    { unimplemented!() }

    #[verifier::external_body]
    pub fn get_task(&mut self, uuid: Uuid) -> (r: Result<Option<TaskMap>>)
        ensures final(self).storage.view() == old(self).storage.view(),
            match r {
                Ok(Some(m)) => old(self).storage.view().tasks.dom().contains(uuid) && m@ == old(self).storage.view().tasks[uuid],
                Ok(None) => !old(self).storage.view().tasks.dom().contains(uuid),
                Err(_) => true,
            },
    { unimplemented!() }

    #[verifier::external_body]
    pub fn all_task_uuids(&mut self) -> (r: Result<Vec<Uuid>>)
        ensures final(self).storage.view() == old(self).storage.view(),
            r matches Ok(v) ==> uuids_listed(v@, old(self).storage.view().tasks),
    { unimplemented!() }
}
/// the contract of undo::commit_reversed_operations (regions/undo_impl.rs), as a relation between the views before and after
pub open spec fn undo_post(s0: TxnView, un: Seq<Operation>, b: bool, s1: TxnView) -> bool {
    let u0 = s0.unsynced;
    if tail_match(u0, un) {
        &&& s1.unsynced == u0.take(u0.len() - un.len())
        &&& s1.base == s0.base && s1.ws == s0.ws && s1.synced == s0.synced
        &&& forall|sb: State| #![trigger accurate_seq(sb, un)] accurate_seq(sb, un) && apply_l_seq(sb, un) == s0.tasks ==> s1.tasks == sb
        &&& (exists|i: int| 0 <= i < un.len() && !(#[trigger] un[i] is UndoPoint)) ==> b
    } else {
        !b && s1 == s0
    }
}
