//@include regions/server_plain_types.rs
//@include regions/server_trait.rs
