// ================================================================================================
// src/taskdb/mod.rs :: TaskDb::sync -- the wrapper: one fresh transaction, one call of sync   (C01 C02 C04)
// What it does to the storage after the transaction is dropped cannot be stated (A9); what IS checked here: the verified function is
// entered with its precondition established from the storage's committed content, exactly as the trusted glue (regions/taskdb_glue.rs) says.
// ================================================================================================
//@props C01 C02 C04
pub mod sync_mod { pub use super::sync; }
use sync_mod as sync;
impl<S: Storage> TaskDb<S> {
//@extract src/taskdb/mod.rs :: impl<S: Storage> TaskDb<S> :: fn sync | R19
    pub fn sync(
        &mut self,
        server: &mut Box<dyn Server>,
        avoid_snapshots: bool,
    ) -> (r: Result<()>)
        requires chain_wf(old(server).chain()),
            exists|p: int| #[trigger] ri(old(server).chain(), p, old(self).storage.view().base, old(self).storage.view().tasks, to_sync(old(self).storage.view().unsynced)),
        ensures chain_wf(final(server).chain()), prefix(old(server).chain(), final(server).chain()),
            //@ob C02 TaskDb::sync.a-correct-server-never-causes-OutOfSync
            !(r matches Err(Error::OutOfSync)),
{
        let mut txn = self.storage.txn()?;
        sync::sync(server, &mut *txn, avoid_snapshots)
    }
//@end
}
