use SyncOp::*;
impl SyncOp {
//@extract src/server/op.rs :: impl SyncOp :: fn transform
    pub fn transform(
        operation1: SyncOp,
        operation2: SyncOp,
    ) -> (r: (Option<SyncOp>, Option<SyncOp>))
        ensures
            //@ob C03 C01 C02 C04 C20 transform.documented-conflict-relation
            transform_ok(operation1, operation2, r),
{
        match (&operation1, &operation2) {
            (Create { uuid: uuid1 }, Create { uuid: uuid2 }) if uuid1 == uuid2 => (None, None),
            (Delete { uuid: uuid1 }, Delete { uuid: uuid2 }) if uuid1 == uuid2 => (None, None),
            (Create { uuid: uuid1 }, Delete { uuid: uuid2 }) if uuid1 == uuid2 => {
                (Some(operation1), None)
            }
            (Delete { uuid: uuid1 }, Create { uuid: uuid2 }) if uuid1 == uuid2 => {
                (None, Some(operation2))
            }
            (Update { uuid: uuid1, .. }, Create { uuid: uuid2 }) if uuid1 == uuid2 => {
                (Some(operation1), None)
            }
            (Create { uuid: uuid1 }, Update { uuid: uuid2, .. }) if uuid1 == uuid2 => {
                (None, Some(operation2))
            }
            (Update { uuid: uuid1, .. }, Delete { uuid: uuid2 }) if uuid1 == uuid2 => {
                (None, Some(operation2))
            }
            (Delete { uuid: uuid1 }, Update { uuid: uuid2, .. }) if uuid1 == uuid2 => {
                (Some(operation1), None)
            }
            (
                Update {
                    uuid: uuid1,
                    property: property1,
                    value: value1,
                    timestamp: timestamp1,
                },
                Update {
                    uuid: uuid2,
                    property: property2,
                    value: value2,
                    timestamp: timestamp2,
                },
            ) if uuid1 == uuid2 && property1 == property2 => {
                if value1 == value2 {
                    (None, None)
                } else if timestamp1 < timestamp2 {
                    (None, Some(operation2))
                } else {
                    (Some(operation1), None)
                }
            }
            (_, _) => (Some(operation1), Some(operation2)),
        }
    }
//@end
//@extract src/server/op.rs :: impl SyncOp :: fn from_op
    pub fn from_op(op: Operation) -> (r: Option<Self>)
        ensures
            //@ob C14 C01 C03 from_op.documented-fields-only
            from_op_post(op, r),
{
        match op {
            Operation::Create { uuid } => Some(SyncOp::Create { uuid }),
            Operation::Delete { uuid, .. } => Some(SyncOp::Delete { uuid }),
            Operation::Update {
                uuid,
                property,
                value,
                timestamp,
                ..
            } => Some(SyncOp::Update {
                uuid,
                property,
                value,
                timestamp,
            }),
            Operation::UndoPoint => None,
        }
    }
//@end
//@extract src/server/op.rs :: impl SyncOp :: fn into_op
    pub fn into_op(self) -> (r: Operation)
        ensures
            //@ob C14 C01 into_op.same-fields-no-old-values
            into_op_post(self, r),
{
        match self {
            Create { uuid } => Operation::Create { uuid },
            Delete { uuid } => Operation::Delete {
                uuid,
                old_task: crate::storage::TaskMap::new(),
            },
            Update {
                uuid,
                property,
                value,
                timestamp,
            } => Operation::Update {
                uuid,
                property,
                value,
                timestamp,
                old_value: None,
            },
        }
    }
//@end
}
