// ================================================================================================
// src/taskdb/apply.rs (apply_op, try_apply_op)
// ================================================================================================
pub mod apply { pub use super::{apply_op, try_apply_op}; }
//@props C01 C02 C04 C07
//@extract src/taskdb/apply.rs :: fn apply_op
pub fn apply_op(txn: &mut dyn StorageTxn, op: &SyncOp) -> (r: Result<()>)
    requires old(txn).inv(),
    ensures final(txn).inv(), final(txn).stored() == old(txn).stored(),
        //@ob C01 C05 C07 apply_op.follows-the-documented-operation-model
        match r {
            Ok(_) => valid(old(txn).st().tasks, *op)
                && final(txn).st() == (TxnView { tasks: apply(old(txn).st().tasks, *op), ..old(txn).st() }),
            Err(e) => final(txn).st() == old(txn).st(),
        },
{
    let ghost t0 = txn.st().tasks;
    if try_apply_op(txn, op)? {
        return Ok(());
    }
    proof { assert(apply(t0, *op) =~= t0); }
    match op {
        SyncOp::Create { uuid } => Err(Error::Database(opaque_string())),
        SyncOp::Delete { uuid } => Err(Error::Database(opaque_string())),
        SyncOp::Update { uuid, .. } => Err(Error::Database(opaque_string())),
    }
}
//@end
//@extract src/taskdb/apply.rs :: fn try_apply_op
pub fn try_apply_op(txn: &mut dyn StorageTxn, op: &SyncOp) -> (r: Result<bool>)
    requires old(txn).inv(),
    ensures final(txn).inv(), final(txn).stored() == old(txn).stored(),
        //@ob C01 C04 C05 try_apply_op.applies-iff-valid-and-reports-only-storage-errors
        match r {
            Ok(b) => b == valid(old(txn).st().tasks, *op)
                && final(txn).st() == (TxnView { tasks: apply(old(txn).st().tasks, *op), ..old(txn).st() }),
            Err(e) => storage_err(e) && final(txn).st() == old(txn).st(),
        },
{
    let ghost t0 = txn.st().tasks;
    match op {
        SyncOp::Create { uuid } => {
            txn.create_task(*uuid)
        }
        SyncOp::Delete { uuid } => txn.delete_task(*uuid),
        SyncOp::Update {
            uuid,
            property,
            value,
            timestamp: _,
        } => {
            if let Some(mut task) = txn.get_task(*uuid)? {
                match value {
                    Some(val) => task.insert(property.to_string(), val.clone()),
                    None => task.remove(property),
                };
                txn.set_task(*uuid, task)?;
                proof {
                    assert(txn.st().tasks =~= apply(t0, *op));
                }
                Ok(true)
            } else {
                Ok(false)
            }
        }
    }
}
//@end
