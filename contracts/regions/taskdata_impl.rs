// ================================================================================================
// src/task/data.rs : TaskData   (C19)
// ================================================================================================
//@props C19
/// the pushed Update records the value the property really had
pub open spec fn is_update_of(op: Operation, uuid: Uuid, before: TaskMapS, p: Seq<char>, value: Option<Seq<char>>) -> bool {
    match op {
        Operation::Update { uuid: u, property, old_value, value: v, .. } =>
            u == uuid && property@ == p && opt_view(v) == value && opt_view(old_value) == mget(before, p),
        _ => false,
    }
}
/// the object the caller holds agrees with the stored task
pub open spec fn agrees(s: State, td: TaskData) -> bool { s.dom().contains(td.uuid) && s[td.uuid] == td.taskmap@ }
//@extract src/task/data.rs :: struct TaskData
pub struct TaskData {
    pub uuid: Uuid,
    pub taskmap: TaskMap,
}
//@end
impl TaskData {
//@extract src/task/data.rs :: impl TaskData :: fn new
    pub fn new(uuid: Uuid, taskmap: TaskMap) -> (r: Self)
        ensures r.uuid == uuid, r.taskmap == taskmap,
{
        Self { uuid, taskmap }
    }
//@end
//@extract src/task/data.rs :: impl TaskData :: fn create
    pub fn create(uuid: Uuid, ops: &mut Operations) -> (r: Self)
        ensures
            //@ob C19 TaskData::create.records-exactly-one-Create-and-yields-an-empty-task
            final(ops)@ == old(ops)@.push(Operation::Create { uuid }),
            r.uuid == uuid, r.taskmap@ == Map::<Seq<char>, Seq<char>>::empty(),
{
        ops.push(Operation::Create { uuid });
        Self {
            uuid,
            taskmap: TaskMap::new(),
        }
    }
//@end
//@extract src/task/data.rs :: impl TaskData :: fn get | R15 R29map
    pub fn get<P1: AsRef<str>>(&self, property: P1) -> (r: Option<&str>)
        ensures
            //@ob C18 C20 TaskData::get.reads-the-stored-value-if-any
            match r { Some(v) => self.taskmap@.dom().contains(as_ref_chars(&property)) && v@ == self.taskmap@[as_ref_chars(&property)], None => !self.taskmap@.dom().contains(as_ref_chars(&property)) },
{
        match self.taskmap.get(property.as_ref()) {
            Some(v) => Some(v.as_str()),
            None => None,
        }
    }
//@end
//@extract src/task/data.rs :: impl TaskData :: fn get_uuid
    pub fn get_uuid(&self) -> (r: Uuid)
        ensures r == self.uuid,
{
        self.uuid
    }
//@end
//@extract src/task/data.rs :: impl TaskData :: fn update | R15
    pub fn update<P1: Into<String>>(
        &mut self,
        property: P1,
        value: Option<String>,
        ops: &mut Operations,
    )
        requires P1::obeys_into_spec(),
        ensures
            final(self).uuid == old(self).uuid,
            //@ob C19 TaskData::update.records-exactly-one-Update-carrying-the-value-the-property-really-had-and-changes-the-map-accordingly
            final(ops)@.len() == old(ops)@.len() + 1,
            final(ops)@.take(old(ops)@.len() as int) == old(ops)@,
            ({ let p = property.into_spec()@;
               &&& is_update_of(final(ops)@.last(), old(self).uuid, old(self).taskmap@, p, opt_view(value))
               &&& final(self).taskmap@ == (match value { Some(v) => old(self).taskmap@.insert(p, v@), None => old(self).taskmap@.remove(p) }) }),
{
        let property = property.into();
        let old_value = self.taskmap.get(&property).cloned();
        if let Some(value) = &value {
            self.taskmap.insert(property.clone(), value.clone());
        } else {
            self.taskmap.remove(&property);
        }
        ops.push(Operation::Update {
            uuid: self.uuid,
            property,
            old_value,
            value,
            timestamp: Utc::now(),
        });
    }
//@end
//@extract src/task/data.rs :: impl TaskData :: fn delete
    pub fn delete(&mut self, ops: &mut Operations)
        ensures
            final(self).uuid == old(self).uuid,
            //@ob C19 TaskData::delete.records-one-Delete-carrying-the-whole-old-task-and-empties-the-object
            final(ops)@.len() == old(ops)@.len() + 1,
            final(ops)@.take(old(ops)@.len() as int) == old(ops)@,
            final(ops)@.last() matches Operation::Delete { uuid, old_task } && uuid == old(self).uuid && old_task@ == old(self).taskmap@,
            final(self).taskmap@ == Map::<Seq<char>, Seq<char>>::empty(),
{
        ops.push(Operation::Delete {
            uuid: self.uuid,
            old_task: std::mem::take(&mut self.taskmap),
        });
    }
//@end
}

//@props C19 C07
/// C19: committing the recorded Update leaves the stored task identical to the object, and the operation is accurate (C07)
pub proof fn lemma_update_agrees(s: State, before: TaskData, after: TaskData, op: Operation, p: Seq<char>, value: Option<Seq<char>>)
    requires agrees(s, before), after.uuid == before.uuid,
        is_update_of(op, before.uuid, before.taskmap@, p, value),
        after.taskmap@ == (match value { Some(v) => before.taskmap@.insert(p, v), None => before.taskmap@.remove(p) }),
    ensures accurate(s, op), agrees(apply_l(s, op), after),
{
    match op {
        Operation::Update { uuid, property, old_value, value: v, timestamp } => {
            match v { Some(x) => { assert(apply_l(s, op)[uuid] =~= after.taskmap@); }, None => { assert(apply_l(s, op)[uuid] =~= after.taskmap@); } }
        },
        _ => {}
    }
}
pub proof fn lemma_create_agrees(s: State, td: TaskData, uuid: Uuid)
    requires !s.dom().contains(uuid), td.uuid == uuid, td.taskmap@ == Map::<Seq<char>, Seq<char>>::empty(),
    ensures accurate(s, Operation::Create { uuid }), agrees(apply_l(s, Operation::Create { uuid }), td),
{
}
pub proof fn lemma_delete_agrees(s: State, before: TaskData, op: Operation)
    requires agrees(s, before), op matches Operation::Delete { uuid, old_task } && uuid == before.uuid && old_task@ == before.taskmap@,
    ensures accurate(s, op), !apply_l(s, op).dom().contains(before.uuid),
{
}
