// ================================================================================================
// src/replica.rs : the Replica-level wrappers   (C05, C07, C15, C01)
// ================================================================================================
//@props C15
//@extract src/replica.rs :: struct Replica
pub struct Replica<S: Storage> {
    pub taskdb: TaskDb<S>,
    pub added_undo_point: bool,
    pub depmap: Option<Arc<DependencyMap>>,
}
//@end

impl<S: Storage> Replica<S> {
    /// what the replica's storage durably holds
    pub open spec fn sv(&self) -> TxnView { self.taskdb.storage.view() }

//@props C05 C15
//@extract src/replica.rs :: impl<S: Storage> Replica<S> :: fn commit_operations | R28=_->bool,_->bool
    pub fn commit_operations(&mut self, operations: Operations) -> (r: Result<()>)
        ensures
            //@ob C05 Replica::commit_operations.an-empty-batch-is-a-no-op
            operations@.len() == 0 ==> final(self).sv() == old(self).sv(),
            //@ob C05 C15 Replica::commit_operations.tasks-as-applied-one-at-a-time;-a-task-enters-the-working-set-iff-an-operation-makes-it-pending-or-recurring
            r is Ok && operations@.len() > 0 ==> exists|added: Seq<Uuid>| #[trigger] commit_final_p(bp_pred(), old(self).sv(), operations@, final(self).sv(), added),
            //@ob C05 Replica::commit_operations.all-or-nothing
            r is Err ==> final(self).sv() == old(self).sv(),
            //@ob C19 Replica::commit_operations.the-cached-dependency-map-is-not-retained ("may now be invalid, do not retain it")
            r is Ok && operations@.len() > 0 ==> final(self).depmap is None,
{
        if operations.is_empty() {
            return Ok(());
        }
        let pending = Status::Pending.to_taskmap();
        let recurring = Status::Recurring.to_taskmap();
        let is_p_or_r = |val: &Option<String>| -> (c1_r: bool)
            ensures c1_r == is_pr_val(*val)
        {
            if let Some(val) = val {
                val == pending || val == recurring
            } else {
                false
            }
        };
        let add_to_working_set = |op: &Operation| -> (c2_r: bool)
            ensures c2_r == becomes_pending(*op)
        {
            match op {
                Operation::Update {
                    property,
                    value,
                    old_value,
                    ..
                } => property == "status" && !is_p_or_r(old_value) && is_p_or_r(value),
                _ => false,
            }
        };
        proof { assert(decides_op(add_to_working_set, bp_pred())) by { reveal(decides_op); } }
        let ghost ops0 = operations@;
        let ghost s0 = self.taskdb.storage.view();
        self.taskdb
            .commit_operations(operations, add_to_working_set)?;
        let ghost s1 = self.taskdb.storage.view();
        proof {
            assert(exists|added: Seq<Uuid>| #[trigger] commit_final_p(bp_pred(), s0, ops0, s1, added));
            lemma_commit_final_empty(bp_pred(), s0, ops0, s1);
        }
        self.depmap = None;
        proof { assert(self.taskdb.storage.view() == s1 && old(self).sv() == s0 && self.sv() == s1); }
        Ok(())
    }
//@end

//@props C15
//@extract src/replica.rs :: impl<S: Storage> Replica<S> :: fn rebuild_working_set | R28=let:&TaskMap->bool
    pub fn rebuild_working_set(&mut self, renumber: bool) -> (r: Result<()>)
        requires ws_ok(old(self).sv()),
        ensures
            //@ob C15 Replica::rebuild_working_set.lists-exactly-the-pending-and-recurring-tasks;-numbers-stable-unless-renumbering
            r is Ok ==> final(self).sv() == (TxnView { ws: final(self).sv().ws, ..old(self).sv() }) && ws_ok(final(self).sv())
                && rebuild_post_p(pr_pred(), renumber, old(self).sv().ws, old(self).sv().tasks, final(self).sv().ws),
            r is Err ==> final(self).sv() == old(self).sv(),
            r matches Err(e) ==> storage_err(e),
            final(self).depmap == old(self).depmap && final(self).added_undo_point == old(self).added_undo_point,
{
        let pending = String::from(Status::Pending.to_taskmap());
        let recurring = String::from(Status::Recurring.to_taskmap());
        let c1_f = |t: &TaskMap| -> (c1_r: bool)
            ensures c1_r == is_pr_task(t@)
        {
                    if let Some(st) = t.get("status") {
                        st == &pending || st == &recurring
                    } else {
                        false
                    }
                };
        proof {
            assert(decides_task(c1_f, pr_pred())) by { reveal(decides_task); }
            assert(pure_pred(c1_f));
        }
        let ghost s0 = self.taskdb.storage.view();
        self.taskdb
            .rebuild_working_set(
                c1_f,
                renumber,
            )?;
        proof { assert(rebuild_post_p(pr_pred(), renumber, s0.ws, s0.tasks, self.taskdb.storage.view().ws)); }
        Ok(())
    }
//@end

//@props C01 C02 C04 C15
//@extract src/replica.rs :: impl<S: Storage> Replica<S> :: fn sync
    pub fn sync(
        &mut self,
        server: &mut Box<dyn Server>,
        avoid_snapshots: bool,
    ) -> (r: Result<()>)
        requires ws_ok(old(self).sv()), chain_wf(old(server).chain()),
            exists|p: int| #[trigger] ri(old(server).chain(), p, old(self).sv().base, old(self).sv().tasks, to_sync(old(self).sv().unsynced)),
        ensures chain_wf(final(server).chain()), prefix(old(server).chain(), final(server).chain()),
            //@ob C01 Replica::sync.on-success-the-replica-is-a-version-of-the-chain-with-nothing-pending
            r is Ok ==> final(self).sv().unsynced.len() == 0
                && exists|p: int| #[trigger] ri(final(server).chain(), p, final(self).sv().base, final(self).sv().tasks, Seq::<SyncOp>::empty()),
            //@ob C15 Replica::sync.then-the-working-set-is-rebuilt-without-renumbering
            r is Ok ==> ws_ok(final(self).sv())
                && rebuild_post_p(pr_pred(), false, old(self).sv().ws, final(self).sv().tasks, final(self).sv().ws),
            //@ob C04 Replica::sync.a-failure-leaves-either-the-replica-as-it-was-or-fully-synchronized (only the working-set rebuild can fail after a completed sync)
            r is Err ==> final(self).sv() == old(self).sv()
                || (final(self).sv().unsynced.len() == 0 && final(self).sv().ws == old(self).sv().ws
                    && exists|p: int| #[trigger] ri(final(server).chain(), p, final(self).sv().base, final(self).sv().tasks, Seq::<SyncOp>::empty())),
            //@ob C02 Replica::sync.a-correct-server-never-causes-OutOfSync
            !(r matches Err(Error::OutOfSync)),
{
        let ghost s0 = self.taskdb.storage.view();
        self.taskdb
            .sync(server, avoid_snapshots)?;
        let ghost mid = self.taskdb.storage.view();
        let ghost c1 = server.chain();
        proof {
            assert(mid.ws == s0.ws && self.sv() == mid);
            assert(exists|p: int| #[trigger] ri(c1, p, mid.base, mid.tasks, Seq::<SyncOp>::empty()));
        }
        self.rebuild_working_set(false)?;
        proof {
            assert(self.sv() == (TxnView { ws: self.sv().ws, ..mid }));
            let p = choose|p: int| #[trigger] ri(c1, p, mid.base, mid.tasks, Seq::<SyncOp>::empty());
            assert(ri(server.chain(), p, self.sv().base, self.sv().tasks, Seq::<SyncOp>::empty()));
        }
        Ok(())
    }
//@end

//@props C07
//@extract src/replica.rs :: impl<S: Storage> Replica<S> :: fn get_undo_operations
    pub fn get_undo_operations(&mut self) -> (r: Result<Operations>)
        ensures final(self).sv() == old(self).sv(),
            //@ob C07 Replica::get_undo_operations.offers-the-unsynchronized-operations-back-to-the-last-undo-point
            r matches Ok(v) ==> undo_span(old(self).sv().unsynced, v@) && (v@.len() > 0 ==> tail_match(old(self).sv().unsynced, v@)),
{
        self.taskdb.get_undo_operations()
    }
//@end

//@props C07 C15
//@extract src/replica.rs :: impl<S: Storage> Replica<S> :: fn commit_reversed_operations
    pub fn commit_reversed_operations(&mut self, operations: Operations) -> (r: Result<bool>)
        requires ws_ok(old(self).sv()),
        ensures
            //@ob C07 Replica::commit_reversed_operations.false:-either-nothing-changed-or-only-undo-points-were-withdrawn (the tasks are as before either way)
            r matches Ok(false) ==> undo_post(old(self).sv(), operations@, false, final(self).sv()),
            //@ob C19 Replica::commit_reversed_operations.the-cached-dependency-map-is-not-retained
            r matches Ok(true) ==> final(self).depmap is None,
            //@ob C07 C15 Replica::commit_reversed_operations.true-means-undone-and-the-working-set-rebuilt-without-renumbering
            r matches Ok(true) ==> exists|mid: TxnView| #[trigger] undo_post(old(self).sv(), operations@, true, mid)
                && final(self).sv() == (TxnView { ws: final(self).sv().ws, ..mid }) && ws_ok(final(self).sv())
                && rebuild_post_p(pr_pred(), false, mid.ws, mid.tasks, final(self).sv().ws),
{
        let ghost s0 = self.taskdb.storage.view();
        let ghost un = operations@;
        if !self.taskdb.commit_reversed_operations(operations)? {
            return Ok(false);
        }
        let ghost mid = self.taskdb.storage.view();
        proof { assert(undo_post(s0, un, true, mid)); assert(ws_ok(mid)) by { assert(mid.ws == s0.ws); } }
        self.depmap = None;
        proof { assert(self.sv() == mid); }
        self.rebuild_working_set(false)?;
        Ok(true)
    }
//@end

//@props C20
//@extract src/replica.rs :: impl<S: Storage> Replica<S> :: fn all_task_data
    pub fn all_task_data(&mut self) -> (r: Result<HashMap<Uuid, TaskData>>)
        ensures final(self).sv() == old(self).sv(),
            //@ob C20 C18 Replica::all_task_data.one-TaskData-per-stored-task
            r matches Ok(m) ==> all_data(m@, old(self).sv().tasks),
{
        let mut res = HashMap::new();
        let ghost t0 = self.taskdb.storage.view().tasks;
        for (uuid, tm) in it_uuid: drain_all(&mut self.taskdb.all_tasks()?)
            invariant
                tasks_listed(it_uuid.seq(), t0), t0 == old(self).sv().tasks, self.sv() == old(self).sv(),
                data_upto(res@, it_uuid.seq(), it_uuid.index() as int, t0),
        {
            let ghost k = it_uuid.index() as int;
            let ghost r0 = res@;
            res.insert(uuid, TaskData::new(uuid, tm));
            proof {
                assert(it_uuid.seq()[k].0 == uuid);
                assert forall|u: Uuid| res@.dom().contains(u) <==> exists|j: int| 0 <= j < k + 1 && #[trigger] it_uuid.seq()[j].0 == u by {
                    if data_has(r0, u) { let j = choose|j: int| 0 <= j < k && #[trigger] it_uuid.seq()[j].0 == u; assert(it_uuid.seq()[j].0 == u); }
                }
            }
        }
        Ok(res)
    }
//@end

//@extract src/replica.rs :: impl<S: Storage> Replica<S> :: fn expire_tasks | drain=drain_hashmap
    #[verifier::loop_isolation(false)]
    pub fn expire_tasks(&mut self) -> (r: Result<()>)
        ensures
            //@ob C20 Replica::expire_tasks.purges-exactly-the-tasks-deleted-more-than-180-days-ago,-as-ordinary-Delete-operations-committed-in-one-batch
            r is Ok ==> exists|ops: Seq<Operation>| #[trigger] expire_sel(old(self).sv().tasks, expiry_cut(), ops)
                && (ops.len() == 0 ==> final(self).sv() == old(self).sv())
                && (ops.len() > 0 ==> exists|added: Seq<Uuid>| #[trigger] commit_final_p(bp_pred(), old(self).sv(), ops, final(self).sv(), added)),
            //@ob C20 C05 Replica::expire_tasks.all-or-nothing
            r is Err ==> final(self).sv() == old(self).sv(),
{
        let six_mos_ago = Utc::now() - Duration::days(180);
        let mut ops = Operations::new();
        let deleted = Status::Deleted.to_taskmap();
        let ghost t0 = self.taskdb.storage.view().tasks;
        let ghost cut = expiry_cut();
        {
            for it1_x in it_it1_x: drain_hashmap(&mut self.all_task_data()?)
                invariant
                    self.sv() == old(self).sv(),
                    drained_data(it_it1_x.seq(), t0),
                    expire_upto(it_it1_x.seq(), it_it1_x.index() as int, t0, cut, ops@),
            {
                let ghost k = it_it1_x.index() as int;
                let ghost ops0 = ops@;
                let ghost tm = it1_x.1.taskmap@;
                proof { assert(it_it1_x.seq()[k] == it1_x); assert(tm == t0[it1_x.0] && it1_x.1.uuid == it1_x.0); }
                let (_, t) = &it1_x;
                let it1_c0 = t.get("status") == Some(deleted);
                if it1_c0 {
                    let (_, t) = &it1_x;
                    let it1_c1 = {
                        match t.get("modified") {
                            Some(m) => {
                                match m.parse() {
                                    Ok(time_sec) => {
                                        match DateTime::from_timestamp(time_sec, 0) {
                                            Some(dt) => dt < six_mos_ago,
                                            None => false,
                                        }
                                    },
                                    Err(_) => false,
                                }
                            },
                            None => false,
                        }
                    };
                    proof {
                        // the selection made by the code, step by step: `modified` present, an integer, inside the calendar, before the cut
                        if tm.dom().contains("modified"@) {
                            let ps = parse_spec::<i64>(tm["modified"@]);
                            if ps is Some { let secs = ps->Some_0; assert(it1_c1 == (CHRONO_MIN_SECS <= secs <= CHRONO_MAX_SECS && secs * 1_000_000_000 < cut)); }
                            else { assert(!it1_c1); }
                        } else { assert(!it1_c1); }
                        assert(it1_c1 == expired(tm, cut)) by { reveal(expired); }
                    }
                    if it1_c1 {
                        let (_, mut t) = it1_x;
                        t.delete(&mut ops);
                        proof {
                            assert(ops@ =~= ops0.push(ops@.last()));
                            lemma_expire_step(it_it1_x.seq(), k, t0, cut, ops0, ops@.last());
                        }
                    }
                    else {
                        proof { lemma_expire_skip(it_it1_x.seq(), k, t0, cut, ops0); }
                    }
                }
                else {
                    proof { assert(!expired(tm, cut)) by { reveal(expired); } lemma_expire_skip(it_it1_x.seq(), k, t0, cut, ops0); }
                }
            }
        };
        proof {
            assert(exists|d: Seq<(Uuid, TaskData)>| #[trigger] expire_upto(d, d.len() as int, t0, cut, ops@) && drained_data(d, t0));
            let d = choose|d: Seq<(Uuid, TaskData)>| #[trigger] expire_upto(d, d.len() as int, t0, cut, ops@) && drained_data(d, t0);
            lemma_expire_done(d, t0, cut, ops@);
        }
        self.commit_operations(ops)
    }
//@end

//@props C18
//@extract src/replica.rs :: impl<S: Storage> Replica<S> :: fn working_set
    pub fn working_set(&mut self) -> (r: Result<WorkingSet>)
        ensures final(self).sv() == old(self).sv(),
            //@ob C18 C15 Replica::working_set.a-well-formed-snapshot-of-the-stored-working-set (WorkingSet::new's assertion cannot fail)
            r matches Ok(w) ==> w.by_index@ == old(self).sv().ws && w.wf(),
{
        Ok(WorkingSet::new(self.taskdb.working_set()?))
    }
//@end
//@extract src/replica.rs :: impl<S: Storage> Replica<S> :: fn get_task_data | R29map
    pub fn get_task_data(&mut self, uuid: Uuid) -> (r: Result<Option<TaskData>>)
        ensures final(self).sv() == old(self).sv(),
            //@ob C18 C19 Replica::get_task_data.the-stored-task-under-its-uuid,-None-iff-it-does-not-exist
            match r {
                Ok(Some(t)) => t.uuid == uuid && old(self).sv().tasks.dom().contains(uuid) && t.taskmap@ == old(self).sv().tasks[uuid],
                Ok(None) => !old(self).sv().tasks.dom().contains(uuid),
                Err(_) => true,
            },
{
        Ok(match self.taskdb.get_task(uuid)? {
            Some(tm) => Some(TaskData::new(uuid, tm)),
            None => None,
        })
    }
//@end
//@extract src/replica.rs :: impl<S: Storage> Replica<S> :: fn all_task_uuids
    pub fn all_task_uuids(&mut self) -> (r: Result<Vec<Uuid>>)
        ensures final(self).sv() == old(self).sv(),
            r matches Ok(v) ==> uuids_listed(v@, old(self).sv().tasks),
{
        self.taskdb.all_task_uuids()
    }
//@end

//@props C19 C18
//@extract src/replica.rs :: impl<S: Storage> Replica<S> :: fn dependency_map | R29map
    #[verifier::loop_isolation(false)]
    pub fn dependency_map(&mut self, force: bool) -> (r: Result<Arc<DependencyMap>>)
        ensures final(self).sv() == old(self).sv(),
            //@ob C19 Replica::dependency_map.a-freshly-built-map-has-exactly-the-edges-(task-in-the-working-set,-pending-task-named-by-one-of-its-dep_-keys)
            r matches Ok(dm) ==> (force || old(self).depmap is None) ==> dm_sound(old(self).sv().ws, old(self).sv().tasks, dm.edges@)
                && forall|i: int, k: Seq<char>, e: (Uuid, Uuid)| #[trigger] dep_edge_at(old(self).sv().ws, old(self).sv().tasks, i, k, e) ==> dm.edges@.contains(e),
            //@ob C19 Replica::dependency_map.otherwise-the-cached-map-is-returned,-and-the-map-returned-is-the-one-kept
            r matches Ok(dm) ==> final(self).depmap == Some(dm) && (!force && old(self).depmap is Some ==> old(self).depmap == Some(dm)),
{
        let ghost t0 = self.taskdb.storage.view().tasks;
        let ghost w0 = self.taskdb.storage.view().ws;
        if force || self.depmap.is_none() {
            let mut dm = DependencyMap::new();
            let mut is_pending_cache: HashMap<Uuid, bool> = HashMap::new();
            let ws = self.working_set()?;
            proof { assert(ws.by_index@ == w0); assert(dm_complete(w0, t0, dm.edges@, 1, no_keys(), 0)); }
            for i in it_i: 1..=ws.largest_index()
                invariant
                    self.sv() == old(self).sv(), ws.by_index@ == w0,
                    dm_sound(w0, t0, dm.edges@), dm_complete(w0, t0, dm.edges@, 1 + it_i.index(), no_keys(), 0), cache_ok(t0, is_pending_cache@),
                    i == 1 + it_i.index(), it_i.seq().len() == (if w0.len() == 0 { 0 } else { w0.len() - 1 }),
            {
                let ghost ii = i as int;
                let ghost e0 = dm.edges@;
                if let Some(u) = ws.by_index(i) {
                    if let Some(taskmap) = self.taskdb.get_task(u)? {
                        for p in it_p: taskmap.keys()
                            invariant
                                self.sv() == old(self).sv(), ws.by_index@ == w0, ii == i, 1 <= ii < w0.len(), w0[ii] == Some(u),
                                t0.dom().contains(u) && taskmap@ == t0[u], keys_listed(taskmap@, it_p.seq()),
                                dm_sound(w0, t0, dm.edges@), dm_complete(w0, t0, dm.edges@, ii, it_p.seq(), it_p.index() as int), cache_ok(t0, is_pending_cache@),
                        {
                            let ghost jj = it_p.index() as int;
                            let ghost e1 = dm.edges@;
                            let ghost kk = p@;
                            proof { assert(it_p.seq()[jj] == p); axiom_str_strip(kk, "dep_"); }
                            if let Some(dep_str) = p.strip_prefix("dep_") {
                                if let Ok(dep) = Uuid::parse_str(dep_str) {
                                    proof { assert(dep_target(kk) == Some(dep)); }
                                    let dep_pending = {
                                        if let Some(dep_pending) = is_pending_cache.get(&dep) {
                                            *dep_pending
                                        } else if let Some(dep_taskmap) =
                                            self.taskdb.get_task(dep)?
                                        {
                                            let dep_pending = matches!(
                                                match dep_taskmap.get("status") {
                                                    Some(tm) => Some(Status::from_taskmap(tm)),
                                                    None => None,
                                                },
                                                Some(Status::Pending)
                                            );
                                            is_pending_cache.insert(dep, dep_pending);
                                            dep_pending
                                        } else {
                                            false
                                        }
                                    };
                                    proof { assert(dep_pending == pending_task(t0, dep)); }
                                    if dep_pending {
                                        dm.add_dependency(u, dep);
                                        proof { lemma_dm_add(w0, t0, e1, ii, it_p.seq(), jj, (u, dep)); }
                                    }
                                    else {
                                        proof { lemma_dm_skip(w0, t0, e1, ii, it_p.seq(), jj); }
                                    }
                                }
                                else {
                                    proof { assert(dep_target(kk) is None); lemma_dm_skip(w0, t0, e1, ii, it_p.seq(), jj); }
                                }
                            }
                            else {
                                proof { assert(dep_target(kk) is None); lemma_dm_skip(w0, t0, e1, ii, it_p.seq(), jj); }
                            }
                        }
                        proof {
                            assert(exists|keys: Seq<&String>| keys_listed(t0[u], keys) && #[trigger] dm_complete(w0, t0, dm.edges@, ii, keys, keys.len() as int));
                            let keys = choose|keys: Seq<&String>| keys_listed(t0[u], keys) && #[trigger] dm_complete(w0, t0, dm.edges@, ii, keys, keys.len() as int);
                            lemma_dm_next(w0, t0, dm.edges@, ii, keys);
                        }
                    }
                    else {
                        proof { lemma_dm_none(w0, t0, dm.edges@, ii); }
                    }
                }
                else {
                    proof { lemma_dm_none(w0, t0, dm.edges@, ii); }
                }
            }
            proof {
                assert(exists|n: int| n >= w0.len() && #[trigger] dm_complete(w0, t0, dm.edges@, n, no_keys(), 0));
                let n = choose|n: int| n >= w0.len() && #[trigger] dm_complete(w0, t0, dm.edges@, n, no_keys(), 0);
                lemma_dm_done(w0, t0, dm.edges@, n);
            }
            self.depmap = Some(Arc::new(dm));
        }
        Ok(self.depmap.as_ref().unwrap().clone())
    }
//@end
}
