// ================================================================================================
// src/server/encryption.rs   (C13)
// ================================================================================================
//@props C13
/// docs/src/sync-protocol.md "Encryption": AAD = app id byte (1) followed by the 16 bytes of the version id
pub open spec fn aad_spec(v: Uuid) -> Seq<u8> { seq![1u8] + v.bytes() }
/// the sealed form: format byte 1, 12-byte nonce, ciphertext with tag
pub open spec fn envelope_bytes(nonce: Seq<u8>, payload: Seq<u8>) -> Seq<u8> { seq![1u8] + nonce + payload }
/// the key the protocol prescribes: PBKDF2-HMAC-SHA256, 600000 iterations, 32 bytes, for ChaCha20-Poly1305
pub open spec fn protocol_key(salt: Seq<u8>, secret: Seq<u8>) -> Seq<u8> {
    ringspec::kdf_spec(ringspec::ALG_PBKDF2_HMAC_SHA256(), 600000, salt, secret, 32)
}
pub open spec fn sealed_bytes(key: Seq<u8>, nonce: Seq<u8>, version_id: Uuid, plaintext: Seq<u8>) -> Seq<u8> {
    envelope_bytes(nonce, ringspec::seal_spec(key, ringspec::ALG_CHACHA20_POLY1305(), nonce, aad_spec(version_id), plaintext))
}
//@extract src/server/encryption.rs :: const PBKDF2_ITERATIONS
const PBKDF2_ITERATIONS: u32 = 600000;
//@end
//@extract src/server/encryption.rs :: const ENVELOPE_VERSION
const ENVELOPE_VERSION: u8 = 1;
//@end
//@extract src/server/encryption.rs :: const AAD_LEN
const AAD_LEN: usize = 17;
//@end
//@extract src/server/encryption.rs :: const TASK_APP_ID
const TASK_APP_ID: u8 = 1;
//@end
//@extract src/server/encryption.rs :: struct Cryptor
pub struct Cryptor {
    pub key: aead::LessSafeKey,
    pub rng: rand::SystemRandom,
}
//@end
//@extract src/server/encryption.rs :: struct Secret
pub struct Secret(pub Vec<u8>);
//@end
//@extract src/server/encryption.rs :: struct Envelope
pub struct Envelope<'a> {
    pub nonce: &'a [u8],
    pub payload: &'a [u8],
}
//@end
//@extract src/server/encryption.rs :: struct Unsealed
pub struct Unsealed {
    pub version_id: Uuid,
    pub payload: Vec<u8>,
}
//@end
//@extract src/server/encryption.rs :: struct Sealed
pub struct Sealed {
    pub version_id: Uuid,
    pub payload: Vec<u8>,
}
//@end
impl Cryptor {
//@extract src/server/encryption.rs :: impl Cryptor :: fn new | R15
    pub fn new<P1: AsRef<[u8]>>(salt: P1, secret: &Secret) -> (r: Result<Self>)
        ensures
            //@ob C13 Cryptor::new.key-is-the-protocol-key-of-the-secret
            r matches Ok(c) ==> c.key.alg@ == ringspec::ALG_CHACHA20_POLY1305()
                && c.key.bytes@ == protocol_key(as_ref_bytes(&salt), secret.0@),
{
        Ok(Cryptor {
            key: Self::derive_key(salt, secret)?,
            rng: rand::SystemRandom::new(),
        })
    }
//@end
//@extract src/server/encryption.rs :: impl Cryptor :: fn gen_salt
    pub fn gen_salt() -> (r: Result<Vec<u8>>)
        ensures
            //@ob C13 Cryptor::gen_salt.sixteen-bytes-fresh-from-the-system-random-number-generator
            r matches Ok(s) ==> s@.len() == 16 && ringspec::rng_drawn(s@),
    {
        let rng = rand::SystemRandom::new();
        let mut salt = [0u8; 16];
        rng.fill(&mut salt)
            .map_err(opaque_anyhow)?;
        Ok(salt.to_vec())
    }
//@end
//@extract src/server/encryption.rs :: impl Cryptor :: fn derive_key | R15
    fn derive_key<P1: AsRef<[u8]>>(salt: P1, secret: &Secret) -> (r: Result<aead::LessSafeKey>)
        ensures
            //@ob C13 derive_key.PBKDF2-HMAC-SHA256-with-600000-iterations-32-bytes-for-ChaCha20-Poly1305
            r matches Ok(k) ==> k.alg@ == ringspec::ALG_CHACHA20_POLY1305(),
            r matches Ok(k) ==> k.bytes@ == protocol_key(as_ref_bytes(&salt), secret.0@),
{
        let mut key_bytes = vec![0u8; aead::CHACHA20_POLY1305.key_len()];
        pbkdf2::derive(
            pbkdf2::PBKDF2_HMAC_SHA256,
            std::num::NonZeroU32::new(PBKDF2_ITERATIONS).unwrap(),
            salt.as_ref(),
            secret.as_ref(),
            &mut key_bytes,
        );
        let unbound_key = aead::UnboundKey::new(&aead::CHACHA20_POLY1305, &key_bytes)
            .map_err(opaque_anyhow)?;
        Ok(aead::LessSafeKey::new(unbound_key))
    }
//@end
//@extract src/server/encryption.rs :: impl Cryptor :: fn seal
    pub fn seal(&self, payload: Unsealed) -> (r: Result<Sealed>)
        requires payload.payload@.len() < usize::MAX - 64,
            // a Cryptor made by `new`
            self.key.alg@ == ringspec::ALG_CHACHA20_POLY1305(),
        ensures
            //@ob C13 seal.stored-form-is-format-byte-1-then-a-12-byte-nonce-then-the-AEAD-ciphertext-bound-to-app-id-and-version-id
            r matches Ok(s) ==> s.version_id == payload.version_id
                && exists|nonce: Seq<u8>| nonce.len() == 12 && ringspec::rng_drawn(nonce)
                    && s.payload@ == #[trigger] sealed_bytes(self.key.bytes@, nonce, payload.version_id, payload.payload@),
{
        let Unsealed {
            version_id,
            mut payload,
        } = payload;
        let ghost pt0 = payload@;
        let mut nonce_buf = [0u8; aead::NONCE_LEN];
        self.rng
            .fill(&mut nonce_buf)
            .map_err(opaque_anyhow)?;
        let nonce = aead::Nonce::assume_unique_for_key(nonce_buf);
        let aad = self.make_aad(version_id);
        let tag = self
            .key
            .seal_in_place_separate_tag(nonce, aad, &mut payload)
            .map_err(opaque_anyhow)?;
        payload.extend_from_slice(tag.as_ref());
        proof {
            assert(payload@ == ringspec::seal_spec(self.key.bytes@, self.key.alg@, nonce_buf@, aad_spec(version_id), pt0));
            assert(sealed_bytes(self.key.bytes@, nonce_buf@, version_id, pt0) == envelope_bytes(nonce_buf@, payload@));
        }
        let env = Envelope {
            nonce: &nonce_buf,
            payload: payload.as_ref(),
        };
        Ok(Sealed {
            version_id,
            payload: env.to_bytes(),
        })
    }
//@end
//@extract src/server/encryption.rs :: impl Cryptor :: fn unseal
    pub fn unseal(&self, payload: Sealed) -> (r: Result<Unsealed>)
        ensures
            //@ob C13 unseal.succeeds-only-for-data-sealed-in-the-documented-form-under-the-same-key-and-version-id-and-yields-the-original-bytes
            r matches Ok(u) ==> u.version_id == payload.version_id
                && payload.payload@.len() > 13 && payload.payload@[0] == 1
                && ringspec::open_spec(self.key.bytes@, self.key.alg@, payload.payload@.subrange(1, 13), aad_spec(payload.version_id),
                        payload.payload@.subrange(13, payload.payload@.len() as int)) == Some(u.payload@),
            //@ob C13 unseal.rejects-everything-else-with-an-error (too short, wrong format byte, or not authentic for this key / version id)
            r is Err <==> !(payload.payload@.len() > 13 && payload.payload@[0] == 1
                && ringspec::open_spec(self.key.bytes@, self.key.alg@, payload.payload@.subrange(1, 13), aad_spec(payload.version_id),
                        payload.payload@.subrange(13, payload.payload@.len() as int)) is Some),
{
        let Sealed {
            version_id,
            payload,
        } = payload;
        let env = Envelope::from_bytes(&payload)?;
        let mut nonce = [0u8; aead::NONCE_LEN];
        nonce.copy_from_slice(env.nonce);
        let nonce = aead::Nonce::assume_unique_for_key(nonce);
        let aad = self.make_aad(version_id);
        let mut payload = env.payload.to_vec();
        let plaintext = self
            .key
            .open_in_place(nonce, aad, payload.as_mut())
            .map_err(opaque_anyhow)?;
        Ok(Unsealed {
            version_id,
            payload: plaintext.to_vec(),
        })
    }
//@end
//@extract src/server/encryption.rs :: impl Cryptor :: fn make_aad
    fn make_aad(&self, version_id: Uuid) -> (r: aead::Aad<[u8; AAD_LEN]>)
        ensures
            //@ob C13 make_aad.app-id-byte-1-followed-by-the-16-bytes-of-the-version-id
            r.a@ == aad_spec(version_id),
{
        let mut aad = [0u8; AAD_LEN];
        aad[0] = TASK_APP_ID;
        aad[1..].copy_from_slice(version_id.as_bytes());
        aead::Aad::from(aad)
    }
//@end
}
// the body of `impl AsRef<[u8]> for Secret` verified as an inherent method (method resolution prefers it), so that
// callers see its contract; the external trait AsRef itself cannot carry one
impl Secret {
//@extract src/server/encryption.rs :: impl AsRef<[u8]> for Secret :: fn as_ref
    fn as_ref(&self) -> (r: &[u8])
        ensures r@ == self.0@,
{
        &self.0
    }
//@end
}
impl<'a> Envelope<'a> {
//@extract src/server/encryption.rs :: impl<'a> Envelope<'a> :: fn from_bytes
    fn from_bytes(buf: &'a [u8]) -> (r: Result<Envelope<'a>>)
        ensures
            //@ob C13 Envelope::from_bytes.accepts-exactly-format-byte-1-with-a-12-byte-nonce-and-a-non-empty-payload
            r is Ok <==> (buf@.len() > 13 && buf@[0] == 1),
            r matches Ok(e) ==> e.nonce@ == buf@.subrange(1, 13) && e.payload@ == buf@.subrange(13, buf@.len() as int),
{
        if buf.len() <= 1 + aead::NONCE_LEN {
            return Err(Error::Server(String::from("envelope is too small")));
        }
        let version = buf[0];
        if version != ENVELOPE_VERSION {
            return Err(Error::Server(opaque_string()));
        }
        Ok(Envelope {
            nonce: &buf[1..1 + aead::NONCE_LEN],
            payload: &buf[1 + aead::NONCE_LEN..],
        })
    }
//@end
//@extract src/server/encryption.rs :: impl<'a> Envelope<'a> :: fn to_bytes
    fn to_bytes(&self) -> (r: Vec<u8>)
        requires self.nonce@.len() == 12, self.payload@.len() < usize::MAX - 13,
        ensures
            //@ob C13 Envelope::to_bytes.format-byte-1-then-nonce-then-payload
            r@ == envelope_bytes(self.nonce@, self.payload@),
{
        let mut buf = Vec::with_capacity(1 + self.nonce.len() + self.payload.len());
        buf.push(ENVELOPE_VERSION);
        buf.extend_from_slice(self.nonce);
        buf.extend_from_slice(self.payload);
        buf
    }
//@end
}

//@props C13
/// the envelope round trip: what to_bytes writes, from_bytes splits back into the same nonce and payload
pub proof fn lemma_envelope_roundtrip(nonce: Seq<u8>, payload: Seq<u8>)
    requires nonce.len() == 12, payload.len() > 0
    ensures ({
        let b = envelope_bytes(nonce, payload);
        b.len() > 13 && b[0] == 1 && b.subrange(1, 13) == nonce && b.subrange(13, b.len() as int) == payload
    })
{
    let b = envelope_bytes(nonce, payload);
    assert(b.subrange(1, 13) =~= nonce);
    assert(b.subrange(13, b.len() as int) =~= payload);
}
/// C13: opening what was sealed under the same key and version id yields the original bytes
pub proof fn lemma_seal_unseal_roundtrip(key: Seq<u8>, nonce: Seq<u8>, v: Uuid, pt: Seq<u8>)
    requires nonce.len() == 12
    ensures ({
        let b = sealed_bytes(key, nonce, v, pt);
        b.len() > 13 && b[0] == 1
        && ringspec::open_spec(key, ringspec::ALG_CHACHA20_POLY1305(), b.subrange(1, 13), aad_spec(v), b.subrange(13, b.len() as int)) == Some(pt)
    })
{
    let ct = ringspec::seal_spec(key, ringspec::ALG_CHACHA20_POLY1305(), nonce, aad_spec(v), pt);
    lemma_envelope_roundtrip(nonce, ct);
}
/// C13: data sealed for one version id, key or nonce does not open under another (idealised AEAD, A7)
pub proof fn lemma_relabelled_or_foreign_data_is_rejected(key: Seq<u8>, key2: Seq<u8>, nonce: Seq<u8>, v: Uuid, v2: Uuid, ct: Seq<u8>, pt: Seq<u8>)
    requires
        ringspec::open_spec(key2, ringspec::ALG_CHACHA20_POLY1305(), nonce, aad_spec(v2), ct) == Some(pt),
    ensures
        // then ct is exactly what sealing pt under (key2, nonce, v2) gives: nothing else is accepted
        ct == ringspec::seal_spec(key2, ringspec::ALG_CHACHA20_POLY1305(), nonce, aad_spec(v2), pt),
{
}
// the body of `impl AsRef<[u8]> for Sealed` verified as an inherent method (as for Secret above): what is handed to a store is the payload
impl Sealed {
//@extract src/server/encryption.rs :: impl AsRef<[u8]> for Sealed :: fn as_ref
    fn as_ref(&self) -> (r: &[u8])
        ensures r@ == self.payload@,
{
        self.payload.as_ref()
    }
//@end
}
/// `impl From<Unsealed> for Vec<u8>`: the plaintext payload
impl vstd::std_specs::convert::FromSpecImpl<Unsealed> for Vec<u8> {
    open spec fn obeys_from_spec() -> bool { true }
    open spec fn from_spec(val: Unsealed) -> Vec<u8> { val.payload }
}
impl From<Unsealed> for Vec<u8> {
//@extract src/server/encryption.rs :: impl From<Unsealed> for Vec<u8> :: fn from
    fn from(val: Unsealed) -> (r: Self)
{
        val.payload
    }
//@end
}
/// `impl From<Vec<u8>> for Secret`
impl vstd::std_specs::convert::FromSpecImpl<Vec<u8>> for Secret {
    open spec fn obeys_from_spec() -> bool { true }
    open spec fn from_spec(bytes: Vec<u8>) -> Secret { Secret(bytes) }
}
impl From<Vec<u8>> for Secret {
//@extract src/server/encryption.rs :: impl From<Vec<u8>> for Secret :: fn from
    fn from(bytes: Vec<u8>) -> (r: Self)
{
        Self(bytes)
    }
//@end
}
