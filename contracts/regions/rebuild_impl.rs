// ================================================================================================
// src/taskdb/working_set.rs :: rebuild   (C15)
// ================================================================================================
//@props C15
//@extract src/taskdb/working_set.rs :: fn rebuild | R9 rename=old:old_
pub fn rebuild<F>(
    txn: &mut dyn StorageTxn,
    in_working_set: F,
    renumber: bool,
) -> (r: Result<()>)
where
    F: Fn(&TaskMap) -> bool,
    requires
        old(txn).inv(), pure_pred(in_working_set),
        // storage invariant assumed of the stored working set: index 0 blank, no task listed twice, no trailing blanks
        ws_wf2(old(txn).st().ws), ws_trim(old(txn).st().ws) == old(txn).st().ws,
        old(txn).st().ws.len() + old(txn).st().tasks.dom().len() < usize::MAX,
    ensures
        final(txn).inv(),
        // only the working set (and the commit flag) change
        final(txn).st() == (TxnView { ws: final(txn).st().ws, ..old(txn).st() }),
        //@ob C15 rebuild.stored-working-set-afterwards: index 0 empty; a task is listed iff it exists and satisfies the predicate, exactly once; without renumbering survivors keep their number; with renumbering no gaps; committed
        r is Ok ==> final(txn).stored() == final(txn).st() && rebuild_post(in_working_set, renumber, old(txn).st().ws, old(txn).st().tasks, final(txn).st().ws),
        //@ob C15 C02 rebuild.fails-only-with-a-storage-error (never OutOfSync)
        r matches Err(e) ==> storage_err(e),
        //@ob C15 rebuild.no-trailing-blanks-are-stored
        r is Ok ==> ws_trim(final(txn).st().ws) == final(txn).st().ws,
        //@ob C15 C04 rebuild.an-error-leaves-the-stored-working-set-untouched
        r is Err ==> final(txn).stored() == old(txn).stored(),
{
    let ghost s0 = txn.st();
    let old_ws = txn.get_working_set()?;
    let mut new_ws = vec![None];
    let mut seen = HashSet::new();

    let ghost w = old_ws@;
    let ghost t = txn.st().tasks;
    proof { reveal(pairs_upto); assert(pairs_upto(w, new_ws@, 0)); }
    for elt in it_elt: &old_ws[1..]
        invariant
            txn.inv(), s0 == old(txn).st(), txn.st() == (TxnView { ws: txn.st().ws, ..s0 }),
            w == old_ws@, w == old(txn).st().ws, ws_wf2(w), ws_trim(w) == w, pure_pred(in_working_set),
            txn.st().tasks == t, t == old(txn).st().tasks, txn.st().ws == w, txn.stored() == old(txn).stored(),
            it_elt.seq().len() == w.len() - 1, forall|i: int| 0 <= i < it_elt.seq().len() ==> *(#[trigger] it_elt.seq()[i]) == w[i + 1],
            new_ws@.len() >= 1, new_ws@[0] is None,
            forall|i: int, j: int| 0 <= i < j < new_ws@.len() && new_ws@[i] is Some ==> new_ws@[i] != new_ws@[j],
            forall|u: Uuid| #![trigger ws_has(new_ws@, u)] #![trigger kept_upto(in_working_set, w, t, it_elt.index() as int, u)] ws_has(new_ws@, u) <==> kept_upto(in_working_set, w, t, it_elt.index() as int, u),
            forall|u: Uuid| #![trigger seen@.contains(u)] #![trigger ws_has(new_ws@, u)] seen@.contains(u) <==> ws_has(new_ws@, u),
            !renumber ==> new_ws@.len() == it_elt.index() + 1 && (forall|i: int| 1 <= i <= it_elt.index() ==>
                #[trigger] new_ws@[i] == (if w[i] is Some && want(in_working_set, t, w[i]->Some_0) { w[i] } else { None::<Uuid> })),
            renumber ==> forall|i: int| 1 <= i < new_ws@.len() ==> (#[trigger] new_ws@[i]) is Some,
            //@ob C15 rebuild.scan-keeps-the-old-relative-order
            pairs_upto(w, new_ws@, it_elt.index() as int),
    {
        // Determine whether this item names a task that should still be in the working set.
        let ghost k = it_elt.index() as int;
        let ghost nw0 = new_ws@;
        let ghost seen0 = seen@;
        let mut keep = None;
        if let Some(uuid) = elt {
            if let Some(task) = txn.get_task(*uuid)? {
                if in_working_set(&task) {
                    keep = Some(*uuid);
                    proof { assert(sat(in_working_set, t[*uuid])); }
                }
                else {
                    proof {
                        // purity: no task with this content satisfies the predicate
                        if sat(in_working_set, t[*uuid]) {
                            let t2 = choose|t2: &TaskMap| t2@ == t[*uuid] && in_working_set.ensures((t2,), true);
                            assert(in_working_set.ensures((&task,), false));
                }
            }
        }
            }
        }
        proof {
            assert(*elt == w[k + 1]);
            assert(keep matches Some(u) ==> w[k + 1] == Some(u) && want(in_working_set, t, u));
            assert(keep is None ==> !(w[k + 1] is Some && want(in_working_set, t, w[k + 1]->Some_0)));
        }
        if let Some(uuid) = keep {
            new_ws.push(Some(uuid));
            seen.insert(uuid);
            proof {
                // uuid was not yet present: the old working set has no duplicates
                if ws_has(nw0, uuid) {
                    let i = choose|i: int| 1 <= i <= k && #[trigger] w[i] == Some(uuid) && want(in_working_set, t, uuid);
                    assert(w[i] != w[k + 1]);
                }
                assert(new_ws@[nw0.len() as int] == Some(uuid));
                assert forall|u: Uuid| ws_has(new_ws@, u) <==> kept_upto(in_working_set, w, t, k + 1, u) by {
                    if ws_has(new_ws@, u) {
                        let j = choose|j: int| 0 <= j < new_ws@.len() && new_ws@[j] == Some(u);
                        if j < nw0.len() { assert(nw0[j] == Some(u)); assert(ws_has(nw0, u)); let i = choose|i: int| 1 <= i <= k && #[trigger] w[i] == Some(u) && want(in_working_set, t, u); assert(w[i] == Some(u)); } else { assert(w[k + 1] == Some(u)); }
                    }
                    if kept_upto(in_working_set, w, t, k + 1, u) {
                        let i = choose|i: int| 1 <= i <= k + 1 && #[trigger] w[i] == Some(u) && want(in_working_set, t, u);
                        if i <= k { assert(kept_upto(in_working_set, w, t, k, u)); assert(ws_has(nw0, u)); let j = choose|j: int| 0 <= j < nw0.len() && nw0[j] == Some(u); assert(new_ws@[j] == Some(u)); }
                        else { assert(u == uuid); }
                    }
                }
                assert forall|u: Uuid| seen@.contains(u) <==> ws_has(new_ws@, u) by {
                    if ws_has(new_ws@, u) {
                        let j = choose|j: int| 0 <= j < new_ws@.len() && new_ws@[j] == Some(u);
                        if j < nw0.len() { assert(nw0[j] == Some(u)); assert(ws_has(nw0, u)); }
                    }
                    if ws_has(nw0, u) { let j = choose|j: int| 0 <= j < nw0.len() && nw0[j] == Some(u); assert(new_ws@[j] == Some(u)); }
                }
            }
        } else if !renumber {
            new_ws.push(None);
            proof {
                assert forall|u: Uuid| #![trigger ws_has(new_ws@, u)] #![trigger ws_has(nw0, u)] ws_has(new_ws@, u) <==> ws_has(nw0, u) by {
                    if ws_has(new_ws@, u) { let j = choose|j: int| 0 <= j < new_ws@.len() && new_ws@[j] == Some(u); assert(j < nw0.len()); assert(nw0[j] == Some(u)); }
                    if ws_has(nw0, u) { let j = choose|j: int| 0 <= j < nw0.len() && nw0[j] == Some(u); assert(new_ws@[j] == Some(u)); }
        }
    }
        }
        proof {
            if keep is None {
                assert(seen@ == seen0);
                if renumber { assert(new_ws@ == nw0); } else { assert(new_ws@ == nw0.push(None)); }
                assert forall|u: Uuid| #![trigger ws_has(new_ws@, u)] #![trigger ws_has(nw0, u)] ws_has(new_ws@, u) <==> ws_has(nw0, u) by {
                    if ws_has(new_ws@, u) { let j = choose|j: int| 0 <= j < new_ws@.len() && new_ws@[j] == Some(u); assert(j < nw0.len()); assert(nw0[j] == Some(u)); }
                    if ws_has(nw0, u) { let j = choose|j: int| 0 <= j < nw0.len() && nw0[j] == Some(u); assert(new_ws@[j] == Some(u)); }
                }
                assert forall|u: Uuid| #![trigger kept_upto(in_working_set, w, t, k + 1, u)] #![trigger kept_upto(in_working_set, w, t, k, u)] kept_upto(in_working_set, w, t, k + 1, u) <==> kept_upto(in_working_set, w, t, k, u) by {
                    if kept_upto(in_working_set, w, t, k + 1, u) {
                        let i = choose|i: int| 1 <= i <= k + 1 && #[trigger] w[i] == Some(u) && want(in_working_set, t, u);
                        assert(i <= k);
                        assert(w[i] == Some(u));
                    }
                    if kept_upto(in_working_set, w, t, k, u) {
                        let i = choose|i: int| 1 <= i <= k && #[trigger] w[i] == Some(u) && want(in_working_set, t, u);
                        assert(w[i] == Some(u));
                    }
                }
            }
            if keep is Some { assert(forall|u: Uuid| ws_has(new_ws@, u) <==> kept_upto(in_working_set, w, t, k + 1, u)); }
            if keep is None && renumber { assert(new_ws@ == nw0); assert(forall|u: Uuid| ws_has(new_ws@, u) <==> kept_upto(in_working_set, w, t, k + 1, u)); }
            if keep is None && !renumber { assert(forall|u: Uuid| ws_has(new_ws@, u) <==> kept_upto(in_working_set, w, t, k + 1, u)); }
            assert(forall|u: Uuid| seen@.contains(u) <==> ws_has(new_ws@, u));
            assert(pairs_upto(w, new_ws@, k + 1)) by {
                reveal(pairs_upto);
                assert forall|a: int, b: int| #![trigger new_ws@[a], new_ws@[b]] 0 <= a < b < new_ws@.len() && new_ws@[a] is Some && new_ws@[b] is Some
                    implies exists|i: int, j: int| j <= k + 1 && #[trigger] pair_at(w, i, j, new_ws@[a], new_ws@[b]) by {
                    if b < nw0.len() {
                        assert(new_ws@[a] == nw0[a] && new_ws@[b] == nw0[b]);
                        let (i, j) = choose|i: int, j: int| j <= k && #[trigger] pair_at(w, i, j, nw0[a], nw0[b]);
                        assert(j <= k + 1 && pair_at(w, i, j, new_ws@[a], new_ws@[b]));
                    } else {
                        // the entry just pushed is w[k + 1]; every earlier entry was kept from a position <= k
                        assert(new_ws@[a] == nw0[a]);
                        let ua = nw0[a]->Some_0;
                        assert(ws_has(nw0, ua));
                        assert(kept_upto(in_working_set, w, t, k, ua));
                        let i = choose|i: int| 1 <= i <= k && #[trigger] w[i] == Some(ua) && want(in_working_set, t, ua);
                        assert(new_ws@[b] == w[k + 1]);
                        assert(pair_at(w, i, k + 1, new_ws@[a], new_ws@[b]));
                    }
                }
            }
        }
    }

    let ghost nw1 = new_ws@;
    proof {
        assert(forall|u: Uuid| #![trigger ws_has(nw1, u)] ws_has(nw1, u) <==> kept_upto(in_working_set, w, t, w.len() - 1, u));
    }
    let ghost mut processed: Set<Uuid> = Set::empty();
    for (uuid, task) in it_uuid: txn.all_tasks()?
        invariant
            txn.inv(), s0 == old(txn).st(), txn.st() == (TxnView { ws: txn.st().ws, ..s0 }),
            pure_pred(in_working_set), t == old(txn).st().tasks, txn.st().tasks == t, txn.st().ws == w, txn.stored() == old(txn).stored(), w == old_ws@, w == old(txn).st().ws, ws_wf2(w), ws_trim(w) == w,
            // what all_tasks returned
            forall|i: int| 0 <= i < it_uuid.seq().len() ==> t.dom().contains(#[trigger] it_uuid.seq()[i].0) && it_uuid.seq()[i].1@ == t[it_uuid.seq()[i].0],
            forall|i: int, j: int| 0 <= i < j < it_uuid.seq().len() ==> it_uuid.seq()[i].0 != it_uuid.seq()[j].0,
            forall|u: Uuid| #![trigger t.dom().contains(u)] t.dom().contains(u) ==> in_seq(it_uuid.seq(), u),
            forall|u: Uuid| #![trigger processed.contains(u)] processed.contains(u) <==> seq_upto(it_uuid.seq(), it_uuid.index() as int, u),
            it_uuid.index() == it_uuid.seq().len() ==> (forall|u: Uuid| t.dom().contains(u) ==> #[trigger] processed.contains(u)),
            // phase-1 result is an untouched prefix, everything after it_elt is a newcomer
            nw1.len() <= new_ws@.len(), new_ws@.take(nw1.len() as int) == nw1, nw1.len() >= 1,
            pairs_upto(w, nw1, w.len() - 1),
            forall|u: Uuid| #![trigger ws_has(nw1, u)] ws_has(nw1, u) <==> kept_upto(in_working_set, w, t, w.len() - 1, u),
            forall|i: int| nw1.len() <= i < new_ws@.len() ==> (#[trigger] new_ws@[i]) is Some,
            forall|i: int, j: int| 0 <= i < j < new_ws@.len() && new_ws@[i] is Some ==> new_ws@[i] != new_ws@[j],
            forall|u: Uuid| #![trigger seen@.contains(u)] #![trigger ws_has(nw1, u)] seen@.contains(u) <==> ws_has(nw1, u),
            forall|u: Uuid| #![trigger ws_has(new_ws@, u)] ws_has(new_ws@, u) <==> (ws_has(nw1, u) || (processed.contains(u) && !ws_has(nw1, u) && want(in_working_set, t, u))),
    {
        let ghost k = it_uuid.index() as int;
        let ghost nw0 = new_ws@;
        let ghost proc0 = processed;
        proof { processed = processed.insert(uuid); }
        proof {
            assert(it_uuid.seq()[k].0 == uuid && it_uuid.seq()[k].1 == task);
            // processed tracks the prefix of the iteration
            assert forall|u: Uuid| #![trigger processed.contains(u)] processed.contains(u) <==> seq_upto(it_uuid.seq(), k + 1, u) by {
                if seq_upto(it_uuid.seq(), k + 1, u) {
                    let i = choose|i: int| 0 <= i < k + 1 && #[trigger] it_uuid.seq()[i].0 == u;
                    if i < k { assert(seq_upto(it_uuid.seq(), k, u)); }
                }
                if proc0.contains(u) { let i = choose|i: int| 0 <= i < k && #[trigger] it_uuid.seq()[i].0 == u; assert(it_uuid.seq()[i].0 == u); }
                if u == uuid { assert(it_uuid.seq()[k].0 == u); }
            }
            // this uuid was not processed before: all_tasks has no duplicates
            assert(!proc0.contains(uuid)) by {
                if proc0.contains(uuid) { let i = choose|i: int| 0 <= i < k && #[trigger] it_uuid.seq()[i].0 == uuid; assert(it_uuid.seq()[i].0 != it_uuid.seq()[k].0); }
            }
            assert(k + 1 == it_uuid.seq().len() ==> (forall|u: Uuid| t.dom().contains(u) ==> #[trigger] processed.contains(u))) by {
                if k + 1 == it_uuid.seq().len() {
                    assert forall|u: Uuid| t.dom().contains(u) implies #[trigger] processed.contains(u) by {
                        assert(in_seq(it_uuid.seq(), u));
                        let i = choose|i: int| 0 <= i < it_uuid.seq().len() && #[trigger] it_uuid.seq()[i].0 == u;
                        assert(seq_upto(it_uuid.seq(), k + 1, u));
                    }
                }
            }
        }
        if !seen.contains(&uuid) && in_working_set(&task) {
            new_ws.push(Some(uuid));
            proof {
                assert(sat(in_working_set, t[uuid]));
                assert(!ws_has(nw1, uuid));
                assert(!ws_has(nw0, uuid));
                assert(new_ws@[nw0.len() as int] == Some(uuid));
                assert(new_ws@.take(nw1.len() as int) =~= nw0.take(nw1.len() as int));
                assert forall|u: Uuid| #![trigger ws_has(new_ws@, u)] ws_has(new_ws@, u) <==> (ws_has(nw1, u) || (processed.contains(u) && !ws_has(nw1, u) && want(in_working_set, t, u))) by {
                    if ws_has(new_ws@, u) {
                        let j = choose|j: int| 0 <= j < new_ws@.len() && new_ws@[j] == Some(u);
                        if j < nw0.len() { assert(nw0[j] == Some(u)); assert(ws_has(nw0, u)); } else { assert(u == uuid); }
        }
                    if ws_has(nw0, u) { let j = choose|j: int| 0 <= j < nw0.len() && nw0[j] == Some(u); assert(new_ws@[j] == Some(u)); }
    }
            }
        }
        else {
            proof {
                // this task is either already kept by phase 1 or not wanted
                if !seen@.contains(uuid) {
                    if sat(in_working_set, t[uuid]) {
                        let t2 = choose|t2: &TaskMap| t2@ == t[uuid] && in_working_set.ensures((t2,), true);
                        assert(in_working_set.ensures((&task,), false));
                    }
                }
            }
        }
    }
    proof {
        let n = new_ws@;
        assert forall|u: Uuid| ws_has(n, u) <==> want(in_working_set, t, u) by {
            if ws_has(nw1, u) {
                let i = choose|i: int| 1 <= i <= w.len() - 1 && #[trigger] w[i] == Some(u) && want(in_working_set, t, u);
            }
        }
        if !renumber {
            assert forall|i: int| 1 <= i < w.len() implies
                #[trigger] n[i] == (if w[i] is Some && want(in_working_set, t, w[i]->Some_0) { w[i] } else { None::<Uuid> }) by {
                assert(n.take(nw1.len() as int)[i] == n[i]);
            }
        }
        else {
            assert forall|i: int| 1 <= i < n.len() implies (#[trigger] n[i]) is Some by {
                if i < nw1.len() { assert(n.take(nw1.len() as int)[i] == n[i]); }
            }
        }
        assert(n.take(nw1.len() as int)[0] == n[0]);
        //@ob C15 rebuild.survivors-keep-their-relative-order-and-newcomers-come-after-them
        assert(order_ok(w, n)) by {
            reveal(order_ok); reveal(pairs_upto);
            assert forall|a: int, b: int| #![trigger n[a], n[b]] 0 <= a < b < n.len() && n[a] is Some && n[b] is Some && ws_has(w, n[b]->Some_0)
                implies exists|i: int, j: int| #[trigger] pair_at(w, i, j, n[a], n[b]) by {
                let ub = n[b]->Some_0;
                if b < nw1.len() {
                    assert(n.take(nw1.len() as int)[a] == n[a] && n.take(nw1.len() as int)[b] == n[b]);
                    let (i, j) = choose|i: int, j: int| j <= w.len() - 1 && #[trigger] pair_at(w, i, j, nw1[a], nw1[b]);
                    assert(pair_at(w, i, j, n[a], n[b]));
                } else {
                    // a newcomer is not in the old set: otherwise the scan would have kept it
                    assert(ws_has(n, ub));
                    assert(want(in_working_set, t, ub));
                    let i = choose|i: int| 0 <= i < w.len() && #[trigger] w[i] == Some(ub);
                    assert(i >= 1);
                    assert(kept_upto(in_working_set, w, t, w.len() - 1, ub));
                    assert(ws_has(nw1, ub));
                    let c = choose|c: int| 0 <= c < nw1.len() && #[trigger] nw1[c] == Some(ub);
                    assert(n.take(nw1.len() as int)[c] == n[c]);
                    assert(n[c] == n[b] && c < b);
                    assert(false);
                }
            }
        }
        reveal(phase12_post);
        assert(phase12_post(in_working_set, renumber, old_ws@, txn.st().tasks, new_ws@));
    }
    let ghost nn = new_ws@;
    proof { reveal(phase12_post); assert(nn.len() >= 1); assert(nn.take(0) + w.skip(0) =~= w); }
    {
        let mut i: usize = 0;
        for (old_, new) in it_old: old_ws.iter().zip(new_ws.iter())
            invariant
                txn.inv(), s0 == old(txn).st(), txn.st() == (TxnView { ws: txn.st().ws, ..s0 }),
                w == old_ws@, nn == new_ws@, w.len() >= 1, nn.len() >= 1, t == old(txn).st().tasks, txn.st().tasks == t, txn.stored() == old(txn).stored(), w == old(txn).st().ws,
                    phase12_post(in_working_set, renumber, w, t, nn), ws_wf2(w),
                i == it_old.index(),
                it_old.seq().len() == (if w.len() <= nn.len() { w.len() } else { nn.len() }),
                forall|j: int| 0 <= j < it_old.seq().len() ==> *(#[trigger] it_old.seq()[j]).0 == w[j] && *it_old.seq()[j].1 == nn[j],
                txn.st().ws == ws_trim(nn.take(i as int) + w.skip(i as int)),
        {
            let ghost x = nn.take(i as int) + w.skip(i as int);
            let ghost x2 = nn.take(i as int + 1) + w.skip(i as int + 1);
            proof {
                assert(i < it_old.seq().len()); assert(i < w.len() && i < nn.len());
                assert(*old_ == w[i as int] && *new == nn[i as int]);
                assert(x2 =~= x.update(i as int, nn[i as int]));
            }
            if old_ != new {
                proof { reveal(phase12_post); lemma_trim_prefix(x); }
                txn.set_working_set_item(i, *new)?;
                proof { lemma_trim_update(x, i as int, nn[i as int]); }
            }
            else {
                proof { assert(x2 =~= x); }
            }
            i += 1;
        }
    }
    let ghost mm = if w.len() <= nn.len() { w.len() as int } else { nn.len() as int };
    proof { assert(txn.st().ws == ws_trim(nn.take(mm) + w.skip(mm))); }
    proof {
        if nn.len() == w.len() {
            assert(nn.take(mm) + w.skip(mm) =~= nn);
            assert(txn.st().ws == final_ws(nn, w.len() as int));
        }
    }
    match new_ws.len().cmp(&old_ws.len()) {
        std::cmp::Ordering::Less => {
            proof { assert(less_state(nn, w, 0) =~= nn.take(mm) + w.skip(mm)); }
            {
                let mut i: usize = 0;
                for item in it_item: old_ws.iter()
                    invariant
                        w == old_ws@, nn == new_ws@, nn.len() < w.len(), nn.len() >= 1, t == s0.tasks, s0 == old(txn).st(), txn.stored() == old(txn).stored(), w == s0.ws,
                        txn.inv(), txn.st() == (TxnView { ws: txn.st().ws, ..s0 }),
                        phase12_post(in_working_set, renumber, w, t, nn), ws_wf2(w),
                        i == it_item.index(), it_item.seq().len() == w.len(),
                        forall|j: int| 0 <= j < it_item.seq().len() ==> *(#[trigger] it_item.seq()[j]) == w[j],
                        txn.st().ws == ws_trim(less_state(nn, w, i as int)),
                {
                    let ghost z = less_state(nn, w, i as int);
                    let ghost z2 = less_state(nn, w, i as int + 1);
                    proof { assert(i < it_item.seq().len()); assert(i < w.len()); assert(*item == w[i as int]); }
                    if i >= new_ws.len() {
                        if item.is_some() {
                            proof { lemma_trim_prefix(z); }
                            txn.set_working_set_item(i, None)?;
                            proof { assert(z2 =~= z.update(i as int, None)); lemma_trim_update(z, i as int, None); }
                        }
                        else {
                            proof { assert(z2 =~= z); }
                        }
                    }
                    else {
                        proof { assert(z2 =~= z); }
                    }
                    i += 1;
                }
            }
            proof {
                lemma_trim_eq(nn, less_state(nn, w, w.len() as int));
                assert(txn.st().ws == final_ws(nn, w.len() as int));
            }
        }
        std::cmp::Ordering::Equal => {}
        std::cmp::Ordering::Greater => {
            proof { reveal(phase12_post); assert(nn.take(mm) + w.skip(mm) =~= nn.take(w.len() as int)); }
            for uuid in it_uuid2: &new_ws[old_ws.len()..]
                invariant
                    w == old_ws@, nn == new_ws@, nn.len() > w.len(), w.len() >= 1, t == s0.tasks, s0 == old(txn).st(), txn.stored() == old(txn).stored(), w == s0.ws,
                    txn.inv(), txn.st() == (TxnView { ws: txn.st().ws, ..s0 }),
                    phase12_post(in_working_set, renumber, w, t, nn), ws_wf2(w),
                    it_uuid2.seq().len() == nn.len() - w.len(),
                    forall|j: int| 0 <= j < it_uuid2.seq().len() ==> *(#[trigger] it_uuid2.seq()[j]) == nn[w.len() + j],
                    forall|j: int| w.len() <= j < nn.len() ==> (#[trigger] nn[j]) is Some,
                    txn.st().ws == ws_trim(nn.take(w.len() as int)) + nn.subrange(w.len() as int, w.len() + it_uuid2.index()),
            {
                let ghost k = it_uuid2.index() as int;
                proof { assert(*uuid == nn[w.len() + k]); }
                txn.add_to_working_set(uuid.expect("new ws items should not be None"))?;
                proof {
                    assert(nn.subrange(w.len() as int, w.len() + k + 1) =~= nn.subrange(w.len() as int, w.len() + k).push(nn[w.len() + k]));
                    assert(txn.st().ws =~= ws_trim(nn.take(w.len() as int)) + nn.subrange(w.len() as int, w.len() + k + 1));
                }
            }
            proof {
                assert(nn.subrange(w.len() as int, nn.len() as int) =~= nn.skip(w.len() as int));
                assert(txn.st().ws == final_ws(nn, w.len() as int));
            }
        }
    }
    proof {
        assert(txn.st().ws == final_ws(nn, w.len() as int));
        lemma_final_ws_props(in_working_set, renumber, w, t, nn);
        assert(forall|j: int| w.len() <= j < nn.len() ==> (#[trigger] nn[j]) is Some) by { reveal(phase12_post); }
        lemma_final_ws_trimmed(nn, w.len() as int);
    }
    txn.commit()?;
    Ok(())
}

//@end
