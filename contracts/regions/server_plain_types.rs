// ---- src/server/types.rs ---------------------------------------------------------------------------
//@extract src/server/types.rs :: type VersionId
pub type VersionId = Uuid;
//@end
//@extract src/server/types.rs :: type HistorySegment
pub type HistorySegment = Vec<u8>;
//@end
//@extract src/server/types.rs :: type Snapshot
pub type Snapshot = Vec<u8>;
//@end
//@extract src/server/types.rs :: enum AddVersionResult
pub enum AddVersionResult {
    Ok(VersionId),
    ExpectedParentVersion(VersionId),
}
//@end
#[derive(PartialEq, Eq, Clone, Copy, Debug)] //@ the source derives PartialEq, Debug, Clone, Copy, Eq, PartialOrd, Ord
//@extract src/server/types.rs :: enum SnapshotUrgency
pub enum SnapshotUrgency {
    None,
    Low,
    High,
}
//@end
// derived PartialOrd/Ord on a fieldless enum orders the variants by declaration order (Rust reference); trusted
pub open spec fn urgency_rank(u: SnapshotUrgency) -> int {
    match u { SnapshotUrgency::None => 0, SnapshotUrgency::Low => 1, SnapshotUrgency::High => 2 }
}
impl PartialOrd for SnapshotUrgency {
    #[verifier::external_body]
    fn partial_cmp(&self, other: &Self) -> (r: Option<core::cmp::Ordering>) { unimplemented!() }
}
impl vstd::std_specs::cmp::PartialOrdSpecImpl for SnapshotUrgency {
    open spec fn obeys_partial_cmp_spec() -> bool { true }
    open spec fn partial_cmp_spec(&self, other: &Self) -> Option<core::cmp::Ordering> {
        if urgency_rank(*self) < urgency_rank(*other) { Some(core::cmp::Ordering::Less) }
        else if urgency_rank(*self) == urgency_rank(*other) { Some(core::cmp::Ordering::Equal) }
        else { Some(core::cmp::Ordering::Greater) }
    }
}
//@extract src/server/types.rs :: enum GetVersionResult
pub enum GetVersionResult {
    NoSuchVersion,
    Version {
        version_id: VersionId,
        parent_version_id: VersionId,
        history_segment: HistorySegment,
    },
}
//@end
