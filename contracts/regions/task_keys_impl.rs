// ================================================================================================
// src/task/task.rs, src/task/tag.rs, src/task/annotation.rs : tags, annotations, dependencies, user-defined attributes   (C19, C18)
// ================================================================================================
//@props C19
//@extract src/task/tag.rs :: enum SyntheticTag
pub enum SyntheticTag {
    Waiting,
    Active,
    Pending,
    Completed,
    Deleted,
    Blocked,
    Unblocked,
    Blocking,
}
//@end
//@extract src/task/tag.rs :: enum TagInner
pub enum TagInner {
    User(String),
    Synthetic(SyntheticTag),
}
//@end
//@extract src/task/tag.rs :: struct Tag
pub struct Tag(pub TagInner);
//@end
//@extract src/task/annotation.rs :: struct Annotation
pub struct Annotation {
    pub entry: Timestamp,
    pub description: String,
}
//@end
/// strum's `AsRefStr`/Display names of the synthetic tags (TRUSTED; only used to say what `Display for Tag` prints)
pub uninterp spec fn synth_name(st: SyntheticTag) -> Seq<char>;
/// `impl Display for Tag` (src/task/tag.rs, hashed): a user tag prints its string, a synthetic tag its name
impl DisplayText for Tag {
    open spec fn display_text(&self) -> Seq<char> { match self.0 { TagInner::User(s) => s@, TagInner::Synthetic(st) => synth_name(st) } }
}
impl Tag {
//@extract src/task/tag.rs :: impl Tag :: fn is_synthetic
    pub fn is_synthetic(&self) -> (r: bool)
        ensures r == (self.0 is Synthetic),
{
        matches!(self.0, TagInner::Synthetic(_))
    }
//@end
//@extract src/task/tag.rs :: impl Tag :: fn is_user
    pub fn is_user(&self) -> (r: bool)
        ensures r == (self.0 is User),
{
        matches!(self.0, TagInner::User(_))
    }
//@end
//@extract src/task/tag.rs :: impl Tag :: fn inner
    pub fn inner(&self) -> (r: &TagInner)
        ensures *r == self.0,
{
        &self.0
    }
//@end
}
/// strum's `EnumString` on `Prop` (TRUSTED): parses exactly the nine documented property names
pub struct PropParseError { pub e: u8 }
impl Prop {
    #[verifier::external_body]
    pub fn from_str(s: &str) -> (r: core::result::Result<Prop, PropParseError>)
        ensures r is Ok <==> is_prop_name(s@), r matches Ok(p) ==> prop_name(p) == s@,
    { unimplemented!() }
}
pub open spec fn is_prop_name(k: Seq<char>) -> bool {
    k == "description"@ || k == "due"@ || k == "modified"@ || k == "start"@ || k == "status"@ || k == "priority"@ || k == "wait"@ || k == "end"@ || k == "entry"@
}
/// "reject reserved names": the keys the task model gives a meaning to
pub open spec fn known_key(k: Seq<char>) -> bool {
    is_prop_name(k) || has_prefix(k, "tag_"@) || has_prefix(k, "annotation_"@) || has_prefix(k, "dep_"@)
}
pub open spec fn tag_key(s: Seq<char>) -> Seq<char> { "tag_"@ + s }
pub open spec fn ann_key(ts: int) -> Seq<char> { "annotation_"@ + int_text(ts) }
pub open spec fn dep_key(u: Uuid) -> Seq<char> { "dep_"@ + uuid_text(u) }
/// what every keyed mutator does through `set_value`: accurate Updates of this task that reproduce the object; afterwards the key holds
/// exactly `value` (absent for None) and no other key but `modified` changed
pub open spec fn keyed_post(t0: Task, ops0: Seq<Operation>, p: Seq<char>, value: Option<Seq<char>>, t1: Task, ops1: Seq<Operation>) -> bool {
    &&& t1.data.uuid == t0.data.uuid && ops1.len() >= ops0.len() && ops1.take(ops0.len() as int) == ops0
    &&& run_ok(t0.data.uuid, t0.data.taskmap@, ops1.skip(ops0.len() as int), t1.data.taskmap@)
    &&& t1.data.taskmap@.dom().contains(p) == (value is Some)
    &&& value matches Some(x) ==> t1.data.taskmap@[p] == x
    &&& forall|q: Seq<char>| q != p && q != "modified"@ ==> mget(t1.data.taskmap@, q) == mget(t0.data.taskmap@, q)
}
pub open spec fn untouched(t0: Task, ops0: Seq<Operation>, t1: Task, ops1: Seq<Operation>) -> bool { t1 == t0 && ops1 == ops0 }

impl Task {
//@extract src/task/task.rs :: impl Task :: fn is_known_key
    fn is_known_key(key: &str) -> (r: bool)
        ensures
            //@ob C19 Task::is_known_key.the-nine-property-names-and-the-tag_-annotation_-dep_-prefixes
            r == known_key(key@),
{
        proof { axiom_str_pat(key@, "tag_"); axiom_str_pat(key@, "annotation_"); axiom_str_pat(key@, "dep_"); }
        Prop::from_str(key).is_ok()
            || key.starts_with("tag_")
            || key.starts_with("annotation_")
            || key.starts_with("dep_")
    }
//@end

//@props C18 C19
//@extract src/task/task.rs :: impl Task :: fn get_status | R29map
    pub fn get_status(&self) -> (r: Status)
        ensures
            //@ob C19 C18 Task::get_status.the-stored-status,-pending-when-there-is-none
            match mget(self.data.taskmap@, "status"@) { Some(s) => status_name(r) == s, None => r == Status::Pending },
{
        (match self.data.get(Prop::Status.as_ref()) {
            Some(r29_v) => Some(Status::from_taskmap(r29_v)),
            None => None,
        })
            .unwrap_or(Status::Pending)
    }
//@end
//@extract src/task/task.rs :: impl Task :: fn get_description
    pub fn get_description(&self) -> (r: &str)
        ensures r@ == (match mget(self.data.taskmap@, "description"@) { Some(s) => s, None => ""@ }),
{
        self.data.get(Prop::Description.as_ref()).unwrap_or("")
    }
//@end
//@extract src/task/task.rs :: impl Task :: fn get_priority
    pub fn get_priority(&self) -> (r: &str)
        ensures r@ == (match mget(self.data.taskmap@, "priority"@) { Some(s) => s, None => ""@ }),
{
        self.data.get(Prop::Priority.as_ref()).unwrap_or("")
    }
//@end
//@extract src/task/task.rs :: impl Task :: fn get_value
    pub fn get_value<S: Into<String>>(&self, property: S) -> (r: Option<&str>)
        requires S::obeys_into_spec(),
        ensures (match r { Some(v) => Some(v@), None => None }) == mget(self.data.taskmap@, property.into_spec()@),
{
        let property = property.into();
        self.data.get(property)
    }
//@end
//@extract src/task/task.rs :: impl Task :: fn get_user_defined_attribute
    pub fn get_user_defined_attribute(&self, key: &str) -> (r: Option<&str>)
        ensures
            //@ob C19 Task::get_user_defined_attribute.None-for-every-key-of-the-task-model,-the-stored-value-otherwise
            (match r { Some(v) => Some(v@), None => None }) == (if known_key(key@) { None } else { mget(self.data.taskmap@, key@) }),
{
        if Task::is_known_key(key) {
            return None;
        }
        self.data.get(key)
    }
//@end
//@extract src/task/task.rs :: impl Task :: fn get_legacy_uda
    pub fn get_legacy_uda(&self, key: &str) -> (r: Option<&str>)
        ensures (match r { Some(v) => Some(v@), None => None }) == (if known_key(key@) { None } else { mget(self.data.taskmap@, key@) }),
    {
        self.get_user_defined_attribute(key)
    }
//@end
//@extract src/task/task.rs :: impl Task :: fn has_tag | R32
    pub fn has_tag(&self, tag: &Tag) -> (r: bool)
        ensures
            //@ob C19 Task::has_tag.a-user-tag-is-present-iff-its-tag_-key-is-stored
            tag.0 matches TagInner::User(s) ==> r == self.data.taskmap@.dom().contains(tag_key(s@)),
{
        match tag.inner() {
            TagInner::User(s) => self.data.has(fmt_prefixed("tag_", &s)),
            TagInner::Synthetic(st) => self.has_synthetic_tag(st),
        }
    }
//@end
    // the synthetic tags consult the dependency map through lazy iterators (outside reach): TRUSTED, hashed
    #[verifier::external_body]
    fn has_synthetic_tag(&self, synth: &SyntheticTag) -> (r: bool) { unimplemented!() }

//@props C19
//@extract src/task/task.rs :: impl Task :: fn delete
    pub fn delete(&mut self, ops: &mut Operations) -> (r: Result<()>)
        ensures r is Ok, final(self).data.uuid == old(self).data.uuid,
            run_ok(old(self).data.uuid, old(self).data.taskmap@, final(ops)@.skip(old(ops)@.len() as int), final(self).data.taskmap@),
            //@ob C19 Task::delete.sets-the-status-to-deleted
            mget(final(self).data.taskmap@, "status"@) == Some("deleted"@),
    {
        self.set_status(Status::Deleted, ops)
    }
//@end
//@extract src/task/task.rs :: impl Task :: fn add_tag | R32
    pub fn add_tag(&mut self, tag: &Tag, ops: &mut Operations) -> (r: Result<()>)
        ensures
            //@ob C19 Task::add_tag.a-user-tag-is-stored-under-tag_NAME-with-an-empty-value;-synthetic-tags-are-refused-and-nothing-changes
            match tag.0 {
                TagInner::User(s) => r is Ok && keyed_post(*old(self), old(ops)@, tag_key(s@), Some(""@), *final(self), final(ops)@),
                TagInner::Synthetic(_) => r is Err && untouched(*old(self), old(ops)@, *final(self), final(ops)@),
            },
{
        if tag.is_synthetic() {
            return Err(Error::Usage(String::from(
                "Synthetic tags cannot be modified",
            )));
        }
        self.set_value(fmt_prefixed("tag_", &tag), Some("".to_owned()), ops)
    }
//@end
//@extract src/task/task.rs :: impl Task :: fn remove_tag | R32
    pub fn remove_tag(&mut self, tag: &Tag, ops: &mut Operations) -> (r: Result<()>)
        ensures
            //@ob C19 Task::remove_tag.removes-the-tag_NAME-key;-synthetic-tags-are-refused-and-nothing-changes
            match tag.0 {
                TagInner::User(s) => r is Ok && keyed_post(*old(self), old(ops)@, tag_key(s@), None, *final(self), final(ops)@),
                TagInner::Synthetic(_) => r is Err && untouched(*old(self), old(ops)@, *final(self), final(ops)@),
            },
{
        if tag.is_synthetic() {
            return Err(Error::Usage(String::from(
                "Synthetic tags cannot be modified",
            )));
        }
        self.set_value(fmt_prefixed("tag_", &tag), None, ops)
    }
//@end
//@extract src/task/task.rs :: impl Task :: fn add_annotation | R32
    pub fn add_annotation(&mut self, ann: Annotation, ops: &mut Operations) -> (r: Result<()>)
        ensures
            //@ob C19 Task::add_annotation.stored-under-annotation_ENTRY-SECONDS-with-the-description-as-value
            r is Ok && keyed_post(*old(self), old(ops)@, ann_key(ann.entry.t as int / 1_000_000_000), Some(ann.description@), *final(self), final(ops)@),
{
        self.set_value(
            fmt_prefixed("annotation_", &(ann.entry.timestamp())),
            Some(ann.description),
            ops,
        )
    }
//@end
//@extract src/task/task.rs :: impl Task :: fn remove_annotation | R32
    pub fn remove_annotation(&mut self, entry: Timestamp, ops: &mut Operations) -> (r: Result<()>)
        ensures r is Ok && keyed_post(*old(self), old(ops)@, ann_key(entry.t as int / 1_000_000_000), None, *final(self), final(ops)@),
{
        self.set_value(fmt_prefixed("annotation_", &(entry.timestamp())), None, ops)
    }
//@end
//@extract src/task/task.rs :: impl Task :: fn add_dependency | R32
    pub fn add_dependency(&mut self, dep: Uuid, ops: &mut Operations) -> (r: Result<()>)
        ensures
            //@ob C19 Task::add_dependency.stored-under-dep_UUID-with-an-empty-value (the key Replica::dependency_map reads back)
            r is Ok && keyed_post(*old(self), old(ops)@, dep_key(dep), Some(""@), *final(self), final(ops)@),
{
        let key = fmt_prefixed("dep_", &dep);
        self.set_value(key, Some("".to_string()), ops)
    }
//@end
//@extract src/task/task.rs :: impl Task :: fn remove_dependency | R32
    pub fn remove_dependency(&mut self, dep: Uuid, ops: &mut Operations) -> (r: Result<()>)
        ensures r is Ok && keyed_post(*old(self), old(ops)@, dep_key(dep), None, *final(self), final(ops)@),
{
        let key = fmt_prefixed("dep_", &dep);
        self.set_value(key, None, ops)
    }
//@end
//@extract src/task/task.rs :: impl Task :: fn set_user_defined_attribute | R15
    pub fn set_user_defined_attribute<P1: Into<String>, P2: Into<String>>(
        &mut self,
        key: P1,
        value: P2,
        ops: &mut Operations,
    ) -> (r: Result<()>)
        requires P1::obeys_into_spec(), P2::obeys_into_spec(),
        ensures
            //@ob C19 Task::set_user_defined_attribute.reserved-names-are-refused-and-nothing-changes;-otherwise-the-key-holds-the-value
            if known_key(key.into_spec()@) { r is Err && untouched(*old(self), old(ops)@, *final(self), final(ops)@) }
            else { r is Ok && keyed_post(*old(self), old(ops)@, key.into_spec()@, Some(value.into_spec()@), *final(self), final(ops)@) },
{
        let key = key.into();
        if Task::is_known_key(&key) {
            return Err(Error::Usage(opaque_string()));
        }
        self.set_value(key, Some(value.into()), ops)
    }
//@end
//@extract src/task/task.rs :: impl Task :: fn remove_user_defined_attribute | R15
    pub fn remove_user_defined_attribute<P1: Into<String>>(
        &mut self,
        key: P1,
        ops: &mut Operations,
    ) -> (r: Result<()>)
        requires P1::obeys_into_spec(),
        ensures
            if known_key(key.into_spec()@) { r is Err && untouched(*old(self), old(ops)@, *final(self), final(ops)@) }
            else { r is Ok && keyed_post(*old(self), old(ops)@, key.into_spec()@, None, *final(self), final(ops)@) },
{
        let key = key.into();
        if Task::is_known_key(&key) {
            return Err(Error::Usage(opaque_string()));
        }
        self.set_value(key, None, ops)
    }
//@end
}
