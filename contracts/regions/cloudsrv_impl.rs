// ================================================================================================
// src/server/cloud/server.rs : the object-store server, sequentially   (C08, C11, C13 for this backend)
// ================================================================================================
//@props C08 C11 C13
pub open spec fn has_child_obj(s: Store, p: Uuid, c: Uuid) -> bool { s.dom().contains(vname(p, c)) }
pub open spec fn has_children(s: Store, v: Uuid) -> bool { exists|c: Uuid| #[trigger] has_child_obj(s, v, c) }
/// "only one such object will be contained in the chain of parent-child relationships beginning with the value in latest.
/// All other objects are invalid and not visible outside this type": a child is served if it is the latest version or has children itself
pub open spec fn true_child(s: Store, p: Uuid, c: Uuid) -> bool { has_child_obj(s, p, c) && (latest_of(s) == Some(c) || has_children(s, c)) }
/// what cleanup may do (its own correctness is C10, not decided here): only deletions; `latest` and the object of the latest version stay
pub open spec fn cleanup_rel(a: Store, b: Store) -> bool {
    &&& forall|n: Seq<char>| b.dom().contains(n) ==> a.dom().contains(n) && #[trigger] b[n] == a[n]
    &&& a.dom().contains(latest_name()) ==> b.dom().contains(latest_name())
    &&& forall|p: Uuid, c: Uuid| a.dom().contains(#[trigger] vname(p, c)) && latest_of(a) == Some(c) ==> b.dom().contains(vname(p, c))
}
/// add_version accepted `v`: the parent was the latest version (or there was none); the store gained the sealed segment, bound to `v`,
/// under v-PARENT-v and `latest` names `v` (then cleanup may have run)
pub open spec fn accepted(s0: Store, key: Seq<u8>, parent: Uuid, hs: Seq<u8>, v: Uuid, s1: Store) -> bool {
    (latest_of(s0) is None || latest_of(s0) == Some(parent))
    && exists|nonce: Seq<u8>| nonce.len() == 12 && ringspec::rng_drawn(nonce)
        && cleanup_rel(s0.insert(vname(parent, v), #[trigger] sealed_bytes(key, nonce, v, hs)).insert(latest_name(), vbytes(v)), s1)
}
pub open spec fn accepted_post(s0: Store, key: Seq<u8>, parent: Uuid, hs: Seq<u8>, r: Result<(AddVersionResult, SnapshotUrgency)>, s1: Store) -> bool {
    match r {
        Ok(p) => (match p.0 { AddVersionResult::Ok(v) => accepted(s0, key, parent, hs, v, s1), _ => true }),
        _ => true,
    }
}
pub open spec fn same_uuid_refs(r: Seq<&Uuid>, o: Seq<Uuid>) -> bool { r.len() == o.len() && forall|i: int| 0 <= i < r.len() ==> *(#[trigger] r[i]) == o[i] }
/// what get_child_version may answer (C08; C11: an uploaded-but-uncommitted object is not a true child; C13: opened under the child's own id)
pub open spec fn child_post(s: Store, key: Seq<u8>, parent: Uuid, r: Result<GetVersionResult>) -> bool {
    match r {
        Ok(res) => (match res {
            GetVersionResult::Version { version_id, parent_version_id, history_segment } => parent_version_id == parent && true_child(s, parent, version_id)
                && opens_to(s[vname(parent, version_id)], key, version_id, history_segment@),
            GetVersionResult::NoSuchVersion => forall|c: Uuid| !#[trigger] true_child(s, parent, c),
        }),
        Err(_) => true,
    }
}
/// every object but `salt` is as before
pub open spec fn only_salt_differs(a: Store, b: Store) -> bool {
    forall|n: Seq<char>| n != "salt"@ ==> (#[trigger] b.dom().contains(n)) == a.dom().contains(n) && (b.dom().contains(n) ==> b[n] == a[n])
}
/// (a marker naming the witnesses of the existential below)
pub open spec fn wit(v: Uuid, bytes: Seq<u8>) -> bool { true }
/// the states a failed or interrupted add_version can leave behind (C11): nothing, the not-yet-committed version object, or the accepted version
pub open spec fn add_version_partial(s0: Store, parent: Uuid, v: Uuid, bytes: Seq<u8>, s1: Store) -> bool {
    ||| s1 == s0
    ||| s1 == s0.insert(vname(parent, v), bytes)
    ||| s1 == s0.insert(vname(parent, v), bytes).remove(vname(parent, v))
    ||| s1 == s0.insert(vname(parent, v), bytes).insert(latest_name(), vbytes(v))
    ||| cleanup_rel(s0.insert(vname(parent, v), bytes).insert(latest_name(), vbytes(v)), s1)
}

//@extract src/server/cloud/server.rs :: struct CloudServer
pub struct CloudServer<SVC: Service> {
    pub service: SVC,
    pub cryptor: Cryptor,
    pub cleanup_probability: u8,
}
//@end
//@extract src/server/cloud/server.rs :: const DEFAULT_CLEANUP_PROBABILITY
const DEFAULT_CLEANUP_PROBABILITY: u8 = 13;
//@end
//@extract src/server/cloud/server.rs :: const LATEST
const LATEST: &'static str = "latest";
//@end
//@watch C08 C11 :: src/server/cloud/server.rs :: fn version_to_bytes
#[verifier::external_body]
fn version_to_bytes(v: VersionId) -> (r: Vec<u8>) ensures r@ == vbytes(v) { unimplemented!() }

impl<SVC: Service> CloudServer<SVC> {
    pub open spec fn key(&self) -> Seq<u8> { self.cryptor.key.bytes@ }
    pub open spec fn wf(&self) -> bool { self.cryptor.key.alg@ == ringspec::ALG_CHACHA20_POLY1305() }
    pub open spec fn objs(&self) -> Store { self.service.objs() }

    // ---- name helpers and list-based helpers: format!/hex slicing and boxed async iterators, outside the verifier's reach.
    // ---- TRUSTED by contract; their texts are hashed: a change makes the checks UNDECIDED
//@watch C08 C11 C13 :: src/server/cloud/server.rs :: impl<SVC: Service> CloudServer<SVC> :: fn version_name
    #[verifier::external_body]
    fn version_name(parent_version_id: &VersionId, child_version_id: &VersionId) -> (r: String)
        ensures r@ == vname(*parent_version_id, *child_version_id)
    { unimplemented!() }
//@watch C08 C13 :: src/server/cloud/server.rs :: impl<SVC: Service> CloudServer<SVC> :: fn snapshot_name
    #[verifier::external_body]
    fn snapshot_name(version_id: &VersionId) -> (r: String)
        ensures r@ == sname(*version_id)
    { unimplemented!() }
//@watch C08 C11 :: src/server/cloud/server.rs :: impl<SVC: Service> CloudServer<SVC> :: fn parse_version_name
//@watch C08 C11 :: src/server/cloud/server.rs :: impl<SVC: Service> CloudServer<SVC> :: fn get_child_versions
    #[verifier::external_body]
    fn get_child_versions(&mut self, parent_version_id: &VersionId) -> (r: Result<Vec<VersionId>>)
        ensures final(self).objs() == old(self).objs(), final(self).cryptor == old(self).cryptor, final(self).cleanup_probability == old(self).cleanup_probability,
            r matches Ok(v) ==> (v@.len() > 0) == has_children(old(self).objs(), *parent_version_id),
            r matches Ok(v) ==> forall|c: Uuid| #![trigger v@.contains(c)] #![trigger has_child_obj(old(self).objs(), *parent_version_id, c)] v@.contains(c) <==> has_child_obj(old(self).objs(), *parent_version_id, c),
    { unimplemented!() }
//@watch C08 C13 :: src/server/cloud/server.rs :: impl<SVC: Service> CloudServer<SVC> :: fn parse_snapshot_name
//@watch C08 C13 :: src/server/cloud/server.rs :: impl<SVC: Service> CloudServer<SVC> :: fn snapshot_info
    #[verifier::external_body]
    fn snapshot_info(&mut self) -> (r: Result<Option<(VersionId, String)>>)
        ensures final(self).objs() == old(self).objs(), final(self).cryptor == old(self).cryptor,
            r matches Ok(Some((v, name))) ==> name@ == sname(v) && old(self).objs().dom().contains(name@),
            r matches Ok(None) ==> forall|v: Uuid| !old(self).objs().dom().contains(#[trigger] sname(v)),
    { unimplemented!() }
//@watch C08 :: src/server/cloud/server.rs :: impl<SVC: Service> CloudServer<SVC> :: fn snapshot_urgency
    #[verifier::external_body]
    fn snapshot_urgency(&mut self) -> (r: Result<SnapshotUrgency>)
        ensures final(self).objs() == old(self).objs(), final(self).cryptor == old(self).cryptor,
    { unimplemented!() }
//@watch C08 C11 :: src/server/cloud/server.rs :: impl<SVC: Service> CloudServer<SVC> :: fn maybe_cleanup
//@watch C08 C11 :: src/server/cloud/server.rs :: impl<SVC: Service> CloudServer<SVC> :: fn cleanup
    #[verifier::external_body]
    fn maybe_cleanup(&mut self) -> (r: Result<()>)
        ensures cleanup_rel(old(self).objs(), final(self).objs()), final(self).cryptor == old(self).cryptor,
    { unimplemented!() }

//@props C13
//@extract src/server/cloud/server.rs :: impl<SVC: Service> CloudServer<SVC> :: fn new | R16
    pub fn new(
        mut service: SVC,
        encryption_secret: Vec<u8>,
    ) -> (r: Result<Self>)
        ensures
            //@ob C13 CloudServer::new.the-key-is-the-protocol-key-of-the-secret-with-the-salt-stored-in-the-bucket-(created-once,-at-random)
            r matches Ok(s) ==> s.wf() && s.objs().dom().contains("salt"@) && s.key() == protocol_key(s.objs()["salt"@], encryption_secret@)
                && (service.objs().dom().contains("salt"@) ==> s.objs() == service.objs()),
{
        let salt = Self::get_salt(&mut service)?;
        proof { axiom_vec_as_ref_bytes(&salt); }
        let cryptor = Cryptor::new(salt, &into_conv(encryption_secret))?;
        Ok(Self {
            service,
            cryptor,
            cleanup_probability: DEFAULT_CLEANUP_PROBABILITY,
        })
    }
//@end
//@extract src/server/cloud/server.rs :: impl<SVC: Service> CloudServer<SVC> :: fn get_salt
    #[verifier::exec_allows_no_decreases_clause]
    fn get_salt(service: &mut SVC) -> (r: Result<Vec<u8>>)
        ensures
            //@ob C13 get_salt.an-existing-salt-is-used-as-it-is;-otherwise-a-random-one-is-stored-with-compare-and-swap-and-read-back
            r matches Ok(salt) ==> final(service).objs().dom().contains("salt"@) && final(service).objs()["salt"@] == salt@,
            old(service).objs().dom().contains("salt"@) ==> final(service).objs() == old(service).objs(),
            only_salt_differs(old(service).objs(), final(service).objs()),
{
        const SALT_NAME: &'static str = "salt";
        loop
            invariant
                old(service).objs().dom().contains("salt"@) ==> service.objs() == old(service).objs(),
                only_salt_differs(old(service).objs(), service.objs()),
        {
            if let Some(salt) = service.get(SALT_NAME)? {
                return Ok(salt);
            }
            service
                .compare_and_swap(SALT_NAME, None, Cryptor::gen_salt()?)?;
        }
    }
//@end
//@props C08 C11 C13
//@extract src/server/cloud/server.rs :: impl<SVC: Service> CloudServer<SVC> :: fn get_latest | R16
    fn get_latest(&mut self) -> (r: Result<Option<VersionId>>)
        ensures final(self).objs() == old(self).objs(), final(self).cryptor == old(self).cryptor, final(self).cleanup_probability == old(self).cleanup_probability,
            //@ob C08 get_latest.the-committed-latest-version-as-stored
            r matches Ok(l) ==> l == latest_of(old(self).objs()) && (l is None ==> !old(self).objs().dom().contains(latest_name())),
{
        let Some(latest) = self.service.get(LATEST)? else {
            return Ok(None);
        };
        let latest = (match VersionId::try_parse_ascii(&latest) {
            Ok(r29_v) => Ok(r29_v),
            Err(_) => Err(Error::Server(into_conv("'latest' object contains invalid data"))),
        })?;
        Ok(Some(latest))
    }
//@end

//@extract src/server/cloud/server.rs :: impl<SVC: Service + Send> Server for CloudServer<SVC> :: fn add_version | R29map
    fn add_version(
        &mut self,
        parent_version_id: VersionId,
        history_segment: HistorySegment,
    ) -> (r: Result<(AddVersionResult, SnapshotUrgency)>)
        requires old(self).wf(), history_segment@.len() < usize::MAX - 64,
        ensures final(self).cryptor == old(self).cryptor,
            //@ob C08 CloudServer::add_version.a-parent-that-is-not-the-latest-version-is-rejected-naming-the-latest-and-nothing-changes
            latest_of(old(self).objs()) is Some && latest_of(old(self).objs()) != Some(parent_version_id) ==>
                (r matches Ok((AddVersionResult::ExpectedParentVersion(l2), u)) && Some(l2) == latest_of(old(self).objs()) && u == SnapshotUrgency::None && final(self).objs() == old(self).objs()) || r is Err,
            //@ob C08 C13 CloudServer::add_version.accepted:-the-sealed-segment-bound-to-the-new-version-id-is-stored-under-v-PARENT-VERSION-and-latest-is-swapped-to-it
            accepted_post(old(self).objs(), old(self).key(), parent_version_id, history_segment@, r, final(self).objs()),
            //@ob C08 C11 CloudServer::add_version.a-lost-compare-and-swap-removes-the-uploaded-object-again
            r matches Ok((AddVersionResult::ExpectedParentVersion(_), _)) ==> final(self).objs() == old(self).objs()
                || exists|v: Uuid| final(self).objs() == #[trigger] old(self).objs().remove(vname(parent_version_id, v)),
            //@ob C11 CloudServer::add_version.a-failure-at-any-step-leaves-nothing,-the-uncommitted-object,-or-the-accepted-version
            r is Err ==> exists|v: Uuid, bytes: Seq<u8>| #[trigger] wit(v, bytes) && add_version_partial(old(self).objs(), parent_version_id, v, bytes, final(self).objs()),
{
        let ghost s0 = self.service.objs();
        let ghost hs0 = history_segment@;
        proof { assert(wit(Uuid::nil_spec(), Seq::<u8>::empty())); }
        let latest = self.get_latest()?;
        if let Some(l) = latest {
            if l != parent_version_id {
                return Ok((
                    AddVersionResult::ExpectedParentVersion(l),
                    SnapshotUrgency::None,
                ));
            }
        }
        let version_id = VersionId::new_v4();
        let new_name = Self::version_name(&parent_version_id, &version_id);
        let sealed = self.cryptor.seal(Unsealed {
            version_id,
            payload: history_segment,
        })?;
        let ghost bytes = sealed.payload@;
        let ghost nonce = choose|nonce: Seq<u8>| nonce.len() == 12 && ringspec::rng_drawn(nonce) && sealed.payload@ == #[trigger] sealed_bytes(self.key(), nonce, version_id, hs0);
        proof {
            assert(bytes == sealed_bytes(self.key(), nonce, version_id, hs0) && old(self).objs() == s0 && self.key() == old(self).key());
            axiom_names(parent_version_id, version_id, parent_version_id, version_id);
            let nm = vname(parent_version_id, version_id);
            // the witness for the states a failure from here on can leave behind (C11)
            assert(wit(version_id, bytes));
        }
        self.service.put(&new_name, sealed.as_ref())?;
        let ghost s1 = self.service.objs();
        proof { assert(s1 == s0.insert(vname(parent_version_id, version_id), bytes)); }
        let old_value = match latest {
            Some(r29_v) => Some(version_to_bytes(r29_v)),
            None => None,
        };
        let new_value = version_to_bytes(version_id);
        if !self
            .service
            .compare_and_swap(LATEST, old_value, new_value)?
        {
            self.service.del(&new_name)?;
            proof { assert(self.service.objs() =~= s0.remove(vname(parent_version_id, version_id))); }
            let latest = self.get_latest()?;
            let latest = latest.unwrap_or(Uuid::nil());
            return Ok((
                AddVersionResult::ExpectedParentVersion(latest),
                SnapshotUrgency::None,
            ));
        }
        let ghost s2 = self.service.objs();
        proof { assert(s2 == s1.insert(latest_name(), vbytes(version_id))); }
        let _ = self.maybe_cleanup();
        Ok((
            AddVersionResult::Ok(version_id),
            self.snapshot_urgency()?,
        ))
    }
//@end

//@extract src/server/cloud/server.rs :: impl<SVC: Service + Send> Server for CloudServer<SVC> :: fn get_child_version | R16
    fn get_child_version(
        &mut self,
        parent_version_id: VersionId,
    ) -> (r: Result<GetVersionResult>)
        requires old(self).wf(),
        ensures final(self).objs() == old(self).objs(), final(self).cryptor == old(self).cryptor,
            //@ob C08 C11 C13 CloudServer::get_child_version.serves-only-the-child-that-is-the-latest-version-or-has-children-itself,-opened-under-its-own-version-id;-leftovers-are-never-served
            child_post(old(self).objs(), old(self).key(), parent_version_id, r),
{
        let ghost s0 = self.service.objs();
        let version_id = {
            let children_v = (self.get_child_versions(&parent_version_id)?);
            let children = &children_v[..];
            proof { assert(children@ == children_v@); assert(forall|c: Uuid| children@.contains(c) <==> has_child_obj(s0, parent_version_id, c)); }
            if children.is_empty() {
                proof { assert forall|c: Uuid| !true_child(s0, parent_version_id, c) by { if has_child_obj(s0, parent_version_id, c) { assert(children@.contains(c)); } } }
                return Ok(GetVersionResult::NoSuchVersion)
            } else {
                self.cleanup_probability = 255;
                let latest = self.get_latest()?;
                let mut true_child = None;
                for child in it_child: children
                    invariant_except_break
                        true_child is None,
                        forall|j: int| 0 <= j < it_child.index() ==> Some(#[trigger] children@[j]) != latest,
                    invariant self.service.objs() == s0, same_uuid_refs(it_child.seq(), children@),
                        latest == latest_of(s0),
                    ensures true_child matches Some(c) ==> children@.contains(c) && latest == Some(c),
                        true_child is None ==> forall|j: int| 0 <= j < children@.len() ==> Some(#[trigger] children@[j]) != latest,
                {
                    proof { let k = it_child.index() as int; assert(*child == children@[k] && children@.contains(children@[k])); }
                    if Some(*child) == latest {
                        true_child = Some(*child);
                        break;
                    }
                }
                if true_child.is_none() {
                    for child in it_child2: children
                        invariant self.service.objs() == s0, s0 == old(self).objs(), self.cryptor == old(self).cryptor, same_uuid_refs(it_child2.seq(), children@),
                            true_child matches Some(c) ==> children@.contains(c) && has_children(s0, c),
                            true_child is None ==> forall|j: int| 0 <= j < it_child2.index() ==> !has_children(s0, #[trigger] children@[j]),
                    {
                        proof { let k = it_child2.index() as int; assert(*child == children@[k] && children@.contains(children@[k])); }
                        if !self.get_child_versions(child)?.is_empty() {
                            true_child = Some(*child)
                        }
                    }
                }
                match true_child {
                    Some(true_child) => true_child,
                    None => return Ok(GetVersionResult::NoSuchVersion),
                }
            }
        };
        let Some(sealed) = self
            .service
            .get(&Self::version_name(&parent_version_id, &version_id))?
        else {
            return Ok(GetVersionResult::NoSuchVersion);
        };
        let unsealed = self.cryptor.unseal(Sealed {
            version_id,
            payload: sealed,
        })?;
        Ok(GetVersionResult::Version {
            version_id,
            parent_version_id,
            history_segment: into_conv(unsealed),
        })
    }
//@end

//@extract src/server/cloud/server.rs :: impl<SVC: Service + Send> Server for CloudServer<SVC> :: fn add_snapshot
    fn add_snapshot(&mut self, version_id: VersionId, snapshot: Snapshot) -> (r: Result<()>)
        requires old(self).wf(), snapshot@.len() < usize::MAX - 64,
        ensures final(self).cryptor == old(self).cryptor,
            //@ob C13 C08 CloudServer::add_snapshot.the-sealed-snapshot-bound-to-its-version-id-is-stored-under-s-VERSION
            r is Ok ==> exists|nonce: Seq<u8>| nonce.len() == 12 && ringspec::rng_drawn(nonce)
                && final(self).objs() == old(self).objs().insert(sname(version_id), #[trigger] sealed_bytes(old(self).key(), nonce, version_id, snapshot@)),
{
        let ghost snap0 = snapshot@;
        let name = Self::snapshot_name(&version_id);
        let sealed = self.cryptor.seal(Unsealed {
            version_id,
            payload: snapshot,
        })?;
        proof {
            let nonce = choose|nonce: Seq<u8>| nonce.len() == 12 && ringspec::rng_drawn(nonce) && sealed.payload@ == #[trigger] sealed_bytes(self.key(), nonce, version_id, snap0);
            assert(sealed.payload@ == sealed_bytes(self.key(), nonce, version_id, snap0));
        }
        self.service.put(&name, sealed.as_ref())?;
        Ok(())
    }
//@end

//@extract src/server/cloud/server.rs :: impl<SVC: Service + Send> Server for CloudServer<SVC> :: fn get_snapshot
    fn get_snapshot(&mut self) -> (r: Result<Option<(VersionId, Snapshot)>>)
        requires old(self).wf(),
        ensures final(self).objs() == old(self).objs(), final(self).cryptor == old(self).cryptor,
            //@ob C13 C08 CloudServer::get_snapshot.a-stored-snapshot-is-returned-only-if-it-opens-under-the-key-and-the-version-id-in-its-name
            r matches Ok(Some((v, snap))) ==> old(self).objs().dom().contains(sname(v)) && opens_to(old(self).objs()[sname(v)], old(self).key(), v, snap@),
            r matches Ok(None) ==> forall|v: Uuid| !old(self).objs().dom().contains(#[trigger] sname(v)),
{
        let Some((version_id, name)) = self.snapshot_info()? else {
            return Ok(None);
        };
        let Some(payload) = self.service.get(&name)? else {
            return Ok(None);
        };
        let unsealed = self.cryptor.unseal(Sealed {
            version_id,
            payload,
        })?;
        Ok(Some((version_id, unsealed.payload)))
    }
//@end
}
/// C13: `bytes` opens to `plain` under the key and the given version id (and only then)
pub open spec fn opens_to(bytes: Seq<u8>, key: Seq<u8>, version: Uuid, plain: Seq<u8>) -> bool {
    bytes.len() > 13 && bytes[0] == 1
    && ringspec::open_spec(key, ringspec::ALG_CHACHA20_POLY1305(), bytes.subrange(1, 13), aad_spec(version), bytes.subrange(13, bytes.len() as int)) == Some(plain)
}

/// C11 (object store): what an add_version that stopped between `put` and the compare-and-swap leaves behind -- the object
/// v-LATEST-v for a version id `v` that names nothing else (A12: Uuid::new_v4 is fresh) -- is not a true child, so get_child_version
/// (verified above to serve true children only) never serves it, and `latest` and every other object are as before
pub proof fn lemma_orphan_not_served(s: Store, parent: Uuid, v: Uuid, bytes: Seq<u8>)
    requires latest_of(s) == Some(parent), v != parent, !has_children(s, v),
    ensures
        latest_of(s.insert(vname(parent, v), bytes)) == latest_of(s),
        !true_child(s.insert(vname(parent, v), bytes), parent, v),
{
    let s1 = s.insert(vname(parent, v), bytes);
    axiom_names(parent, v, parent, v);
    assert(s1[latest_name()] == s[latest_name()]);
    assert forall|c: Uuid| !has_child_obj(s1, v, c) by {
        axiom_names(v, c, parent, v);
        if has_child_obj(s1, v, c) { assert(has_child_obj(s, v, c)); }
    }
}
