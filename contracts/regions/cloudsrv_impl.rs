// ================================================================================================
// src/server/cloud/server.rs : the object-store server, sequentially   (C08, C11, C13 for this backend)
// ================================================================================================
//@props C08 C11 C13
pub open spec fn has_child_obj(s: Store, p: Uuid, c: Uuid) -> bool { s.dom().contains(vname(p, c)) }
pub open spec fn has_children(s: Store, v: Uuid) -> bool { exists|c: Uuid| #[trigger] has_child_obj(s, v, c) }
/// "only one such object will be contained in the chain of parent-child relationships beginning with the value in latest.
/// All other objects are invalid and not visible outside this type": a child is served if it is the latest version or has children itself
pub open spec fn true_child(s: Store, p: Uuid, c: Uuid) -> bool { has_child_obj(s, p, c) && (latest_of(s) == Some(c) || has_children(s, c)) }
/// what cleanup may do as far as add_version is concerned: only deletions, and everything that is neither a version nor a snapshot
/// object (`latest`, `salt`) stays.  What it may delete among versions and snapshots is C10: `cleanup_post` below.
pub open spec fn sub_store(b: Store, a: Store) -> bool { forall|n: Seq<char>| #![trigger b.dom().contains(n)] b.dom().contains(n) ==> a.dom().contains(n) && b[n] == a[n] }
pub open spec fn is_vs_name(n: Seq<char>) -> bool { (exists|p: Uuid, c: Uuid| n == #[trigger] vname(p, c)) || (exists|v: Uuid| n == #[trigger] sname(v)) }
pub open spec fn kept_other(a: Store, b: Store) -> bool { forall|n: Seq<char>| #![trigger b.dom().contains(n)] a.dom().contains(n) && !is_vs_name(n) ==> b.dom().contains(n) }
pub open spec fn cleanup_rel(a: Store, b: Store) -> bool {
    &&& sub_store(b, a)
    &&& kept_other(a, b)
    &&& a.dom().contains(latest_name()) ==> b.dom().contains(latest_name())
}
// ---- C10: which objects cleanup may delete (sequentially: no request of another client in between) ----
//@props C10
/// every version has one parent (ids are fresh, A12): the chain from `latest` is then a function of the stored objects
pub open spec fn unique_parent(s: Store) -> bool {
    forall|p1: Uuid, p2: Uuid, c: Uuid| #![trigger has_child_obj(s, p1, c), has_child_obj(s, p2, c)] has_child_obj(s, p1, c) && has_child_obj(s, p2, c) ==> p1 == p2
}
pub open spec fn parent_in(s: Store, c: Uuid) -> Option<Uuid> {
    if exists|p: Uuid| has_child_obj(s, p, c) { Some(choose|p: Uuid| has_child_obj(s, p, c)) } else { None }
}
/// the k-th version back from `l` (the latest version) along the parent links of the stored version objects
pub open spec fn anc(s: Store, l: Option<Uuid>, k: nat) -> Option<Uuid>
    decreases k
{
    if k == 0 { l } else { match anc(s, l, (k - 1) as nat) { Some(x) => parent_in(s, x), None => None } }
}
/// v-P-C is the k-th link of the chain that starts at the latest version
pub open spec fn chain_link(s: Store, l: Option<Uuid>, k: nat, p: Uuid, c: Uuid) -> bool { anc(s, l, k) == Some(c) && anc(s, l, k + 1) == Some(p) }
pub open spec fn on_chain(s: Store, l: Option<Uuid>, p: Uuid, c: Uuid) -> bool { exists|k: nat| #[trigger] chain_link(s, l, k, p, c) }
/// "versions older than MAX_VERSION_AGE_SECS": 180 days before the one clock reading of this call (nothing is old if the clock is before 1970)
pub open spec fn retention_threshold() -> u64 {
    if clock_before_epoch() { 0 } else if clock_secs() >= 15552000 { (clock_secs() - 15552000) as u64 } else { 0 }
}
/// no version nearer to the latest one than the m-th has a snapshot
pub open spec fn no_snap_before(s0: Store, l: Option<Uuid>, m: nat) -> bool {
    forall|j: nat| j < m ==> (match #[trigger] anc(s0, l, j) { Some(x) => !s0.dom().contains(sname(x)), None => true })
}
/// a version object may go if it is not on the chain and cannot join it (its parent is not the latest version), or if it is on the
/// chain at or before the retained snapshot `ls` and older than the retention age
pub open spec fn ver_deleted_ok(s0: Store, ct0: Map<Seq<char>, u64>, ls: Option<(Uuid, nat)>, p: Uuid, c: Uuid) -> bool {
    ||| (!on_chain(s0, latest_of(s0), p, c) && Some(p) != latest_of(s0))
    ||| (match ls { Some(sm) => exists|k: nat| k >= sm.1 && #[trigger] chain_link(s0, latest_of(s0), k, p, c) && ct0[vname(p, c)] < retention_threshold(), None => false })
}
#[verifier::opaque]
pub open spec fn cleanup_shape(s0: Store, ct0: Map<Seq<char>, u64>, cur: Store, ls: Option<(Uuid, nat)>) -> bool {
    &&& forall|p: Uuid, c: Uuid| #![trigger has_child_obj(cur, p, c)] has_child_obj(s0, p, c) && !has_child_obj(cur, p, c) ==> ver_deleted_ok(s0, ct0, ls, p, c)
    &&& forall|v: Uuid| #![trigger cur.dom().contains(sname(v))] s0.dom().contains(sname(v)) && !cur.dom().contains(sname(v)) ==> (match ls { Some(sm) => sm.0 != v, None => false })
    &&& match ls { Some(sm) => anc(s0, latest_of(s0), sm.1) == Some(sm.0) && cur.dom().contains(sname(sm.0)) && no_snap_before(s0, latest_of(s0), sm.1)
            && (exists|n: nat| anc(s0, latest_of(s0), n) is None), None => true }
}
/// C10, sequentially: a deleted snapshot is made redundant by a retained snapshot of a version on the chain that is nearer to the latest
/// version than any other snapshot; a deleted version is off the chain and unable to join it, or at/before that retained snapshot and old
pub open spec fn cleanup_post(s0: Store, ct0: Map<Seq<char>, u64>, cur: Store) -> bool { exists|ls: Option<(Uuid, nat)>| #[trigger] cleanup_shape(s0, ct0, cur, ls) }

pub open spec fn vers_ok(vs: Seq<(Uuid, Uuid, u64)>, s0: Store, ct0: Map<Seq<char>, u64>) -> bool {
    &&& forall|c: Uuid, p: Uuid, t: u64| #![trigger vs.contains((c, p, t))] vs.contains((c, p, t)) ==> has_child_obj(s0, p, c) && t == ct0[vname(p, c)]
    &&& forall|c: Uuid, p: Uuid| #![trigger has_child_obj(s0, p, c)] has_child_obj(s0, p, c) ==> vs.contains((c, p, ct0[vname(p, c)]))
}
#[verifier::opaque]
pub open spec fn listed(vs: Seq<(Uuid, Uuid, u64)>, all: Seq<Seq<char>>, allct: Seq<u64>, k: int) -> bool {
    forall|c: Uuid, p: Uuid, t: u64| #![trigger vs.contains((c, p, t))] vs.contains((c, p, t)) <==> exists|j: int| 0 <= j < k && #[trigger] all[j] == vname(p, c) && allct[j] == t
}
#[verifier::opaque]
pub open spec fn snaps_listed(ss: Set<Uuid>, all: Seq<Seq<char>>, k: int) -> bool {
    forall|v: Uuid| #![trigger ss.contains(v)] ss.contains(v) <==> exists|j: int| 0 <= j < k && #[trigger] all[j] == sname(v)
}
/// the reverse chain built by walking back from the latest version for n steps
#[verifier::opaque]
pub open spec fn chain_map(rc: Map<Uuid, Uuid>, s0: Store, l: Option<Uuid>, n: nat) -> bool {
    &&& forall|k: nat| k < n ==> (match #[trigger] anc(s0, l, k) { Some(x) => rc.dom().contains(x) && anc(s0, l, k + 1) == Some(rc[x]), None => false })
    &&& forall|x: Uuid| #![trigger rc.dom().contains(x)] rc.dom().contains(x) ==> exists|k: nat| k < n && #[trigger] anc(s0, l, k) == Some(x)
}
pub open spec fn walk_done(rc: Map<Uuid, Uuid>, s0: Store, l: Option<Uuid>, n: nat) -> bool { chain_map(rc, s0, l, n) && anc(s0, l, n + 1) is None }

pub proof fn lemma_anc_none_after(s: Store, l: Option<Uuid>, j: nat, k: nat)
    requires anc(s, l, j) is None, j <= k,
    ensures anc(s, l, k) is None,
    decreases k
{
    if k > j { lemma_anc_none_after(s, l, j, (k - 1) as nat); }
}
/// the walk is complete: v-P-C is a link of the chain exactly if the reverse chain maps C to P
pub proof fn lemma_walk_links(rc: Map<Uuid, Uuid>, s0: Store, l: Option<Uuid>, n: nat, p: Uuid, c: Uuid)
    requires walk_done(rc, s0, l, n),
    ensures on_chain(s0, l, p, c) <==> (rc.dom().contains(c) && rc[c] == p),
{
    reveal(chain_map);
    if on_chain(s0, l, p, c) {
        let k = choose|k: nat| #[trigger] chain_link(s0, l, k, p, c);
        if k >= n { lemma_anc_none_after(s0, l, n + 1, k + 1); }
    }
    if rc.dom().contains(c) && rc[c] == p {
        let k = choose|k: nat| k < n && #[trigger] anc(s0, l, k) == Some(c);
        assert(chain_link(s0, l, k, p, c));
    }
}
/// a link found in the reverse chain while standing at the j-th version is the j-th link
pub proof fn lemma_link_at(rc: Map<Uuid, Uuid>, s0: Store, l: Option<Uuid>, n: nat, j: nat, x: Uuid)
    requires walk_done(rc, s0, l, n), anc(s0, l, j) == Some(x), rc.dom().contains(x),
    ensures chain_link(s0, l, j, rc[x], x), has_child_obj(s0, rc[x], x),
{
    reveal(chain_map);
    let k = choose|k: nat| k < n && #[trigger] anc(s0, l, k) == Some(x);
    assert(anc(s0, l, k + 1) == parent_in(s0, x));
    assert(anc(s0, l, j + 1) == parent_in(s0, x));
}
/// one step of listing the version objects: the name at position k parses to (p, c) and was pushed, or does not parse and was skipped
pub open spec fn listed_step(before: Seq<(Uuid, Uuid, u64)>, after: Seq<(Uuid, Uuid, u64)>, nm: Seq<char>, t: u64) -> bool {
    ||| (exists|p: Uuid, c: Uuid| nm == #[trigger] vname(p, c) && after == before.push((c, p, t)))
    ||| ((forall|p: Uuid, c: Uuid| nm != #[trigger] vname(p, c)) && after == before)
}
pub proof fn lemma_listed_step(before: Seq<(Uuid, Uuid, u64)>, after: Seq<(Uuid, Uuid, u64)>, all: Seq<Seq<char>>, allct: Seq<u64>, k: int)
    requires listed(before, all, allct, k), 0 <= k < all.len(), allct.len() == all.len(), listed_step(before, after, all[k], allct[k]),
    ensures listed(after, all, allct, k + 1),
{
    reveal(listed);
    assert forall|c2: Uuid, p2: Uuid, t2: u64| after.contains((c2, p2, t2)) <==> (exists|j: int| 0 <= j < k + 1 && #[trigger] all[j] == vname(p2, c2) && allct[j] == t2) by {
        if exists|p: Uuid, c: Uuid| all[k] == #[trigger] vname(p, c) && after == before.push((c, p, allct[k])) {
            let (p, c) = choose|p: Uuid, c: Uuid| all[k] == #[trigger] vname(p, c) && after == before.push((c, p, allct[k]));
            axiom_names(p2, c2, p, c);
            if after.contains((c2, p2, t2)) {
                let i = choose|i: int| 0 <= i < after.len() && after[i] == (c2, p2, t2);
                if i < before.len() { assert(before[i] == (c2, p2, t2)); assert(before.contains((c2, p2, t2))); } else { assert(all[k] == vname(p2, c2)); }
            }
            if exists|j: int| 0 <= j < k + 1 && #[trigger] all[j] == vname(p2, c2) && allct[j] == t2 {
                let j = choose|j: int| 0 <= j < k + 1 && #[trigger] all[j] == vname(p2, c2) && allct[j] == t2;
                if j < k { assert(before.contains((c2, p2, t2))); let i = choose|i: int| 0 <= i < before.len() && before[i] == (c2, p2, t2); assert(after[i] == (c2, p2, t2)); }
                else { assert(after[before.len() as int] == (c2, p2, t2)); }
            }
        } else {
            if exists|j: int| 0 <= j < k + 1 && #[trigger] all[j] == vname(p2, c2) && allct[j] == t2 {
                let j = choose|j: int| 0 <= j < k + 1 && #[trigger] all[j] == vname(p2, c2) && allct[j] == t2;
                assert(j < k);
            }
        }
    }
}
/// everything listed: the vector holds exactly the stored version objects with their creation times
pub proof fn lemma_listed_done(vs: Seq<(Uuid, Uuid, u64)>, all: Seq<Seq<char>>, allct: Seq<u64>, s0: Store, ct0: Map<Seq<char>, u64>)
    requires listed(vs, all, allct, all.len() as int), allct.len() == all.len(),
        forall|n: Seq<char>| #![trigger all.contains(n)] all.contains(n) <==> s0.dom().contains(n) && "v-"@.is_prefix_of(n),
        forall|i: int| 0 <= i < all.len() ==> #[trigger] allct[i] == ct0[all[i]],
    ensures vers_ok(vs, s0, ct0),
{
    reveal(listed);
    assert forall|c2: Uuid, p2: Uuid, t2: u64| vs.contains((c2, p2, t2)) <==> (has_child_obj(s0, p2, c2) && t2 == ct0[vname(p2, c2)]) by {
        axiom_name_prefixes(p2, c2);
        if has_child_obj(s0, p2, c2) && t2 == ct0[vname(p2, c2)] {
            assert(all.contains(vname(p2, c2)));
            let j = choose|j: int| 0 <= j < all.len() && all[j] == vname(p2, c2);
            assert(allct[j] == ct0[all[j]]);
        }
        if vs.contains((c2, p2, t2)) {
            let j = choose|j: int| 0 <= j < all.len() && #[trigger] all[j] == vname(p2, c2) && allct[j] == t2;
            assert(all.contains(all[j]));
            assert(allct[j] == ct0[all[j]]);
        }
    }
}
pub open spec fn snaps_step(before: Set<Uuid>, after: Set<Uuid>, nm: Seq<char>) -> bool {
    ||| (exists|v: Uuid| nm == #[trigger] sname(v) && after == before.insert(v))
    ||| ((forall|v: Uuid| nm != #[trigger] sname(v)) && after == before)
}
pub proof fn lemma_snaps_step(before: Set<Uuid>, after: Set<Uuid>, all: Seq<Seq<char>>, k: int)
    requires snaps_listed(before, all, k), 0 <= k < all.len(), snaps_step(before, after, all[k]),
    ensures snaps_listed(after, all, k + 1),
{
    reveal(snaps_listed);
    assert forall|v: Uuid| after.contains(v) <==> (exists|j: int| 0 <= j < k + 1 && #[trigger] all[j] == sname(v)) by {
        if exists|w: Uuid| all[k] == #[trigger] sname(w) && after == before.insert(w) {
            let w = choose|w: Uuid| all[k] == #[trigger] sname(w) && after == before.insert(w);
            axiom_names(v, v, w, w);
            if exists|j: int| 0 <= j < k + 1 && #[trigger] all[j] == sname(v) {
                let j = choose|j: int| 0 <= j < k + 1 && #[trigger] all[j] == sname(v);
                if j < k { assert(before.contains(v)); }
            }
            if before.contains(v) { let j = choose|j: int| 0 <= j < k && #[trigger] all[j] == sname(v); assert(0 <= j < k + 1 && all[j] == sname(v)); }
            if v == w { assert(all[k] == sname(v)); }
        } else {
            if exists|j: int| 0 <= j < k + 1 && #[trigger] all[j] == sname(v) {
                let j = choose|j: int| 0 <= j < k + 1 && #[trigger] all[j] == sname(v);
                assert(j < k);
            }
            if before.contains(v) { let j = choose|j: int| 0 <= j < k && #[trigger] all[j] == sname(v); assert(0 <= j < k + 1 && all[j] == sname(v)); }
        }
    }
}
/// the set holds exactly the versions that have a snapshot object in the store that was listed
pub proof fn lemma_snaps_done(ss: Set<Uuid>, all: Seq<Seq<char>>, cur: Store)
    requires snaps_listed(ss, all, all.len() as int),
        forall|n: Seq<char>| #![trigger all.contains(n)] all.contains(n) <==> cur.dom().contains(n) && "s-"@.is_prefix_of(n),
    ensures forall|v: Uuid| #![trigger ss.contains(v)] ss.contains(v) <==> cur.dom().contains(sname(v)),
{
    reveal(snaps_listed);
    assert forall|v: Uuid| ss.contains(v) <==> cur.dom().contains(sname(v)) by {
        axiom_name_prefixes(v, v);
        if ss.contains(v) { let j = choose|j: int| 0 <= j < all.len() && #[trigger] all[j] == sname(v); assert(all.contains(all[j])); }
        if cur.dom().contains(sname(v)) { assert(all.contains(sname(v))); let j = choose|j: int| 0 <= j < all.len() && all[j] == sname(v); }
    }
}
pub proof fn lemma_inits(s0: Store, ct0: Map<Seq<char>, u64>, all: Seq<Seq<char>>, allct: Seq<u64>, l: Option<Uuid>)
    ensures cleanup_shape(s0, ct0, s0, None), listed(Seq::<(Uuid, Uuid, u64)>::empty(), all, allct, 0), snaps_listed(Set::<Uuid>::empty(), all, 0),
        chain_map(Map::<Uuid, Uuid>::empty(), s0, l, 0),
{
    reveal(cleanup_shape); reveal(listed); reveal(snaps_listed); reveal(chain_map);
}
/// one step of the walk back from the latest version
pub proof fn lemma_chain_step(rc: Map<Uuid, Uuid>, s0: Store, l: Option<Uuid>, n: nat, c: Uuid, p: Uuid)
    requires chain_map(rc, s0, l, n), anc(s0, l, n) == Some(c), has_child_obj(s0, p, c), unique_parent(s0),
    ensures chain_map(rc.insert(c, p), s0, l, n + 1), anc(s0, l, n + 1) == Some(p),
{
    reveal(chain_map);
    assert(parent_in(s0, c) == Some(p));
    assert(anc(s0, l, n + 1) == Some(p));
    let rc2 = rc.insert(c, p);
    assert forall|k: nat| k < n + 1 implies (match #[trigger] anc(s0, l, k) { Some(x) => rc2.dom().contains(x) && anc(s0, l, k + 1) == Some(rc2[x]), None => false }) by {
        if k < n {
            let x = anc(s0, l, k)->Some_0;
            if x == c { assert(anc(s0, l, k + 1) == parent_in(s0, c)); }
        }
    }
    assert forall|x: Uuid| #![trigger rc2.dom().contains(x)] rc2.dom().contains(x) implies exists|k: nat| k < n + 1 && #[trigger] anc(s0, l, k) == Some(x) by {
        if x == c { assert(anc(s0, l, n) == Some(x)); } else { let k = choose|k: nat| k < n && #[trigger] anc(s0, l, k) == Some(x); assert(k < n + 1 && anc(s0, l, k) == Some(x)); }
    }
}
/// as long as no snapshot is retained, none has been deleted
pub proof fn lemma_no_snapshot_deleted(s0: Store, ct0: Map<Seq<char>, u64>, cur: Store, v: Uuid)
    requires cleanup_shape(s0, ct0, cur, None), s0.dom().contains(sname(v)),
    ensures cur.dom().contains(sname(v)),
{
    reveal(cleanup_shape);
}
/// the retained snapshot is fixed: everything deleted so far stays justified
pub proof fn lemma_set_ls(s0: Store, ct0: Map<Seq<char>, u64>, cur: Store, sv: Uuid, m: nat, nend: nat)
    requires cleanup_shape(s0, ct0, cur, None), anc(s0, latest_of(s0), m) == Some(sv), cur.dom().contains(sname(sv)), no_snap_before(s0, latest_of(s0), m),
        anc(s0, latest_of(s0), nend) is None,
    ensures cleanup_shape(s0, ct0, cur, Some((sv, m))),
{
    reveal(cleanup_shape);
}
pub open spec fn nm_is(all: Seq<Seq<char>>, j: int, p: Uuid, c: Uuid) -> bool { all[j] == vname(p, c) }
#[verifier::opaque]
pub open spec fn children_listed(vs: Seq<Uuid>, all: Seq<Seq<char>>, k: int) -> bool {
    forall|c: Uuid| #![trigger vs.contains(c)] vs.contains(c) <==> exists|j: int, p: Uuid| 0 <= j < k && #[trigger] nm_is(all, j, p, c)
}
pub open spec fn children_step(before: Seq<Uuid>, after: Seq<Uuid>, nm: Seq<char>) -> bool {
    ||| (exists|p: Uuid, c: Uuid| nm == #[trigger] vname(p, c) && after == before.push(c))
    ||| ((forall|p: Uuid, c: Uuid| nm != #[trigger] vname(p, c)) && after == before)
}
pub proof fn lemma_children_init(all: Seq<Seq<char>>)
    ensures children_listed(Seq::<Uuid>::empty(), all, 0),
{ reveal(children_listed); }
pub proof fn lemma_children_step(before: Seq<Uuid>, after: Seq<Uuid>, all: Seq<Seq<char>>, k: int)
    requires children_listed(before, all, k), 0 <= k < all.len(), children_step(before, after, all[k]),
    ensures children_listed(after, all, k + 1),
{
    reveal(children_listed);
    assert forall|c2: Uuid| after.contains(c2) <==> (exists|j: int, p2: Uuid| 0 <= j < k + 1 && #[trigger] nm_is(all, j, p2, c2)) by {
        if exists|p: Uuid, c: Uuid| all[k] == #[trigger] vname(p, c) && after == before.push(c) {
            let (p, c) = choose|p: Uuid, c: Uuid| all[k] == #[trigger] vname(p, c) && after == before.push(c);
            if after.contains(c2) {
                let i = choose|i: int| 0 <= i < after.len() && after[i] == c2;
                if i < before.len() { assert(before[i] == c2); assert(before.contains(c2)); let (j, p2) = choose|j: int, p2: Uuid| 0 <= j < k && #[trigger] nm_is(all, j, p2, c2); assert(0 <= j < k + 1 && nm_is(all, j, p2, c2)); }
                else { assert(c2 == c); assert(0 <= k < k + 1 && nm_is(all, k, p, c2)); }
            }
            if exists|j: int, p2: Uuid| 0 <= j < k + 1 && #[trigger] nm_is(all, j, p2, c2) {
                let (j, p2) = choose|j: int, p2: Uuid| 0 <= j < k + 1 && #[trigger] nm_is(all, j, p2, c2);
                if j < k { assert(before.contains(c2)); let i = choose|i: int| 0 <= i < before.len() && before[i] == c2; assert(after[i] == c2); }
                else { axiom_names(p2, c2, p, c); assert(after[before.len() as int] == c2); }
            }
        } else {
            if exists|j: int, p2: Uuid| 0 <= j < k + 1 && #[trigger] nm_is(all, j, p2, c2) {
                let (j, p2) = choose|j: int, p2: Uuid| 0 <= j < k + 1 && #[trigger] nm_is(all, j, p2, c2);
                assert(j < k);
            }
            if before.contains(c2) { let (j, p2) = choose|j: int, p2: Uuid| 0 <= j < k && #[trigger] nm_is(all, j, p2, c2); assert(0 <= j < k + 1 && nm_is(all, j, p2, c2)); }
        }
    }
}
pub proof fn lemma_children_done(vs: Seq<Uuid>, all: Seq<Seq<char>>, s0: Store, par: Uuid, prefix: Seq<char>)
    requires children_listed(vs, all, all.len() as int), prefix == "v-"@ + simple_text(par) + "-"@,
        forall|n: Seq<char>| #![trigger all.contains(n)] all.contains(n) <==> s0.dom().contains(n) && prefix.is_prefix_of(n),
    ensures (vs.len() > 0) == has_children(s0, par),
        forall|c: Uuid| #![trigger vs.contains(c)] #![trigger has_child_obj(s0, par, c)] vs.contains(c) <==> has_child_obj(s0, par, c),
{
    reveal(children_listed);
    assert forall|c: Uuid| vs.contains(c) <==> has_child_obj(s0, par, c) by {
        if vs.contains(c) {
            let (j, p) = choose|j: int, p: Uuid| 0 <= j < all.len() && #[trigger] nm_is(all, j, p, c);
            assert(all.contains(all[j]));
            axiom_version_prefix(par, p, c);
        }
        if has_child_obj(s0, par, c) {
            axiom_version_prefix(par, par, c);
            assert(all.contains(vname(par, c)));
            let j = choose|j: int| 0 <= j < all.len() && all[j] == vname(par, c);
            assert(0 <= j < all.len() && nm_is(all, j, par, c));
        }
    }
    if vs.len() > 0 { assert(vs.contains(vs[0])); assert(has_child_obj(s0, par, vs[0])); }
    if has_children(s0, par) { let c = choose|c: Uuid| #[trigger] has_child_obj(s0, par, c); assert(vs.contains(c)); }
}
pub proof fn lemma_names_other()
    ensures !is_vs_name(latest_name()), !is_vs_name("salt"@),
{
    assert forall|p: Uuid, c: Uuid| latest_name() != #[trigger] vname(p, c) && "salt"@ != vname(p, c) by { axiom_names(p, c, p, c); }
    assert forall|v: Uuid| latest_name() != #[trigger] sname(v) && "salt"@ != sname(v) by { axiom_names(v, v, v, v); }
}
/// deleting a version object that may go keeps the shape
pub proof fn lemma_del_version(s0: Store, ct0: Map<Seq<char>, u64>, cur: Store, ls: Option<(Uuid, nat)>, p: Uuid, c: Uuid, up: bool)
    requires sub_store(cur, s0), kept_other(s0, cur), up ==> cleanup_shape(s0, ct0, cur, ls), up ==> ver_deleted_ok(s0, ct0, ls, p, c),
    ensures sub_store(cur.remove(vname(p, c)), s0), kept_other(s0, cur.remove(vname(p, c))), up ==> cleanup_shape(s0, ct0, cur.remove(vname(p, c)), ls),
{
    reveal(cleanup_shape);
    let nxt = cur.remove(vname(p, c));
    assert(is_vs_name(vname(p, c)));
    assert forall|p2: Uuid, c2: Uuid| has_child_obj(s0, p2, c2) && !has_child_obj(nxt, p2, c2) implies !has_child_obj(cur, p2, c2) || (p2 == p && c2 == c) by { axiom_names(p2, c2, p, c); }
    assert forall|v: Uuid| nxt.dom().contains(sname(v)) == cur.dom().contains(sname(v)) by { axiom_names(p, c, v, v); }
}
/// deleting a snapshot other than the retained one keeps the shape
pub proof fn lemma_del_snapshot(s0: Store, ct0: Map<Seq<char>, u64>, cur: Store, sm: (Uuid, nat), v: Uuid, up: bool)
    requires sub_store(cur, s0), kept_other(s0, cur), up ==> cleanup_shape(s0, ct0, cur, Some(sm)), v != sm.0,
    ensures sub_store(cur.remove(sname(v)), s0), kept_other(s0, cur.remove(sname(v))), up ==> cleanup_shape(s0, ct0, cur.remove(sname(v)), Some(sm)),
{
    reveal(cleanup_shape);
    let nxt = cur.remove(sname(v));
    assert(is_vs_name(sname(v)));
    assert forall|p2: Uuid, c2: Uuid| has_child_obj(nxt, p2, c2) == has_child_obj(cur, p2, c2) by { axiom_names(p2, c2, v, v); }
    assert forall|v2: Uuid| s0.dom().contains(sname(v2)) && !nxt.dom().contains(sname(v2)) implies !cur.dom().contains(sname(v2)) || v2 == v by { axiom_names(v2, v2, v, v); }
    axiom_names(sm.0, sm.0, v, v);
}
pub proof fn lemma_anc_shift(s: Store, l: Option<Uuid>, a: nat, b: nat, d: nat)
    requires anc(s, l, a) == anc(s, l, b),
    ensures anc(s, l, a + d) == anc(s, l, b + d),
    decreases d
{
    if d > 0 { lemma_anc_shift(s, l, a, b, (d - 1) as nat); }
}
/// a version seen twice on the walk back makes the walk go round for ever
pub proof fn lemma_anc_periodic(s: Store, l: Option<Uuid>, k: nat, q: nat, j: nat)
    requires anc(s, l, k) == anc(s, l, k + q), anc(s, l, k) is Some, q > 0,
    ensures anc(s, l, j) is Some,
    decreases j
{
    if j <= k + q {
        if anc(s, l, j) is None { lemma_anc_none_after(s, l, j, k + q); }
    } else {
        lemma_anc_periodic(s, l, k, q, (j - q) as nat);
        lemma_anc_shift(s, l, k, k + q, (j - q - k) as nat);
    }
}
/// C10, what remains: every link of the chain that is nearer to the latest version than the newest snapshot on the chain (all links
/// if the chain has no snapshot) is still there, with its bytes -- a fresh replica can start from the retained snapshot (or from the
/// first version) and every replica based on a retained version can go on
pub proof fn lemma_cleanup_keeps_history(s0: Store, ct0: Map<Seq<char>, u64>, cur: Store, k: nat, p: Uuid, c: Uuid)
    requires sub_store(cur, s0), cleanup_post(s0, ct0, cur), chain_link(s0, latest_of(s0), k, p, c), has_child_obj(s0, p, c),
        no_snap_before(s0, latest_of(s0), k + 1),
    ensures has_child_obj(cur, p, c) && cur[vname(p, c)] == s0[vname(p, c)],
{
    reveal(cleanup_shape);
    let l = latest_of(s0);
    let ls = choose|ls: Option<(Uuid, nat)>| #[trigger] cleanup_shape(s0, ct0, cur, ls);
    if !has_child_obj(cur, p, c) {
        assert(ver_deleted_ok(s0, ct0, ls, p, c));
        assert(on_chain(s0, l, p, c));
        let sm = ls->Some_0;
        let k2 = choose|k2: nat| k2 >= sm.1 && #[trigger] chain_link(s0, l, k2, p, c) && ct0[vname(p, c)] < retention_threshold();
        assert(anc(s0, l, sm.1) == Some(sm.0) && s0.dom().contains(sname(sm.0)));
        if sm.1 > k {
            // the same version at position k and at position k2 >= sm.1 > k: the walk would never end, but it did
            let n = choose|n: nat| anc(s0, l, n) is None;
            lemma_anc_periodic(s0, l, k, (k2 - k) as nat, n);
        }
    }
}
/// add_version accepted `v`: the parent was the latest version (or there was none); the store gained the sealed segment, bound to `v`,
/// under v-PARENT-v and `latest` names `v` (then cleanup may have run)
pub open spec fn accepted(s0: Store, key: Seq<u8>, parent: Uuid, hs: Seq<u8>, v: Uuid, s1: Store) -> bool {
    (latest_of(s0) is None || latest_of(s0) == Some(parent))
    && exists|nonce: Seq<u8>| nonce.len() == 12 && ringspec::rng_drawn(nonce)
        && cleanup_rel(s0.insert(vname(parent, v), #[trigger] sealed_bytes(key, nonce, v, hs)).insert(latest_name(), vbytes(v)), s1)
}
pub open spec fn accepted_post(s0: Store, key: Seq<u8>, parent: Uuid, hs: Seq<u8>, r: Result<(AddVersionResult, SnapshotUrgency)>, s1: Store) -> bool {
    match r {
        Ok(p) => (match p.0 { AddVersionResult::Ok(v) => accepted(s0, key, parent, hs, v, s1), _ => true }),
        _ => true,
    }
}
pub open spec fn same_uuid_refs(r: Seq<&Uuid>, o: Seq<Uuid>) -> bool { r.len() == o.len() && forall|i: int| 0 <= i < r.len() ==> *(#[trigger] r[i]) == o[i] }
/// what get_child_version may answer (C08; C11: an uploaded-but-uncommitted object is not a true child; C13: opened under the child's own id)
pub open spec fn child_post(s: Store, key: Seq<u8>, parent: Uuid, r: Result<GetVersionResult>) -> bool {
    match r {
        Ok(res) => (match res {
            GetVersionResult::Version { version_id, parent_version_id, history_segment } => parent_version_id == parent && true_child(s, parent, version_id)
                && opens_to(s[vname(parent, version_id)], key, version_id, history_segment@),
            GetVersionResult::NoSuchVersion => forall|c: Uuid| !#[trigger] true_child(s, parent, c),
        }),
        Err(_) => true,
    }
}
/// every object but `salt` is as before
pub open spec fn only_salt_differs(a: Store, b: Store) -> bool {
    forall|n: Seq<char>| n != "salt"@ ==> (#[trigger] b.dom().contains(n)) == a.dom().contains(n) && (b.dom().contains(n) ==> b[n] == a[n])
}
/// (a marker naming the witnesses of the existential below)
pub open spec fn wit(v: Uuid, bytes: Seq<u8>) -> bool { true }
/// the states a failed or interrupted add_version can leave behind (C11): nothing, the not-yet-committed version object, or the accepted version
pub open spec fn add_version_partial(s0: Store, parent: Uuid, v: Uuid, bytes: Seq<u8>, s1: Store) -> bool {
    ||| s1 == s0
    ||| s1 == s0.insert(vname(parent, v), bytes)
    ||| s1 == s0.insert(vname(parent, v), bytes).remove(vname(parent, v))
    ||| s1 == s0.insert(vname(parent, v), bytes).insert(latest_name(), vbytes(v))
    ||| cleanup_rel(s0.insert(vname(parent, v), bytes).insert(latest_name(), vbytes(v)), s1)
}

//@extract src/server/cloud/server.rs :: struct CloudServer
pub struct CloudServer<SVC: Service> {
    pub service: SVC,
    pub cryptor: Cryptor,
    pub cleanup_probability: u8,
}
//@end
//@extract src/server/cloud/server.rs :: const DEFAULT_CLEANUP_PROBABILITY
const DEFAULT_CLEANUP_PROBABILITY: u8 = 13;
//@end
//@extract src/server/cloud/server.rs :: const MAX_VERSION_AGE_SECS
const MAX_VERSION_AGE_SECS: u64 = 3600 * 24 * 180;
//@end
//@extract src/server/cloud/server.rs :: const LATEST
const LATEST: &'static str = "latest";
//@end
//@watch C08 C11 :: src/server/cloud/server.rs :: fn version_to_bytes
#[verifier::external_body]
fn version_to_bytes(v: VersionId) -> (r: Vec<u8>) ensures r@ == vbytes(v) { unimplemented!() }

impl<SVC: Service> CloudServer<SVC> {
    pub open spec fn key(&self) -> Seq<u8> { self.cryptor.key.bytes@ }
    pub open spec fn wf(&self) -> bool { self.cryptor.key.alg@ == ringspec::ALG_CHACHA20_POLY1305() }
    pub open spec fn objs(&self) -> Store { self.service.objs() }

    // ---- name helpers and list-based helpers: format!/hex slicing and boxed async iterators, outside the verifier's reach.
    // ---- TRUSTED by contract; their texts are hashed: a change makes the checks UNDECIDED
//@watch C08 C11 C13 :: src/server/cloud/server.rs :: impl<SVC: Service> CloudServer<SVC> :: fn version_name
    #[verifier::external_body]
    fn version_name(parent_version_id: &VersionId, child_version_id: &VersionId) -> (r: String)
        ensures r@ == vname(*parent_version_id, *child_version_id)
    { unimplemented!() }
//@watch C08 C13 :: src/server/cloud/server.rs :: impl<SVC: Service> CloudServer<SVC> :: fn snapshot_name
    #[verifier::external_body]
    fn snapshot_name(version_id: &VersionId) -> (r: String)
        ensures r@ == sname(*version_id)
    { unimplemented!() }
//@props C08 C11
//@extract src/server/cloud/server.rs :: impl<SVC: Service> CloudServer<SVC> :: fn get_child_versions | R32i
    #[verifier::exec_allows_no_decreases_clause]
    fn get_child_versions(
        &mut self,
        parent_version_id: &VersionId,
    ) -> (r: Result<Vec<VersionId>>)
        ensures final(self).objs() == old(self).objs(), final(self).cryptor == old(self).cryptor, final(self).cleanup_probability == old(self).cleanup_probability,
            //@ob C08 C11 get_child_versions.exactly-the-children-named-by-the-objects-v-PARENT-*
            r matches Ok(v) ==> (v@.len() > 0) == has_children(old(self).objs(), *parent_version_id),
            r matches Ok(v) ==> forall|c: Uuid| #![trigger v@.contains(c)] #![trigger has_child_obj(old(self).objs(), *parent_version_id, c)] v@.contains(c) <==> has_child_obj(old(self).objs(), *parent_version_id, c),
{
        let ghost s0 = self.service.objs();
        let ghost par = *parent_version_id;
        let mut versions = Vec::new();
        let prefix = &fmt_infixed("v-", &(parent_version_id.as_simple()), "-");
        let mut iterator = self.service.list(prefix);
        let ghost all = iterator.names();
        let ghost mut kk: int = 0;
        proof { lemma_children_init(all); }
        while let Some(res) = iterator.next()
            invariant self.service.objs() == s0, s0 == old(self).objs(), self.cryptor == old(self).cryptor, self.cleanup_probability == old(self).cleanup_probability,
                0 <= kk <= all.len(), iterator.names() == all.skip(kk), children_listed(versions@, all, kk),
            ensures kk == all.len(),
        {
            let ghost before = versions@;
            match res {
                Ok(ObjectInfo { name, .. }) => {
                    proof { assert(name@ == all[kk]); }
                    if let Some((_, c)) = Self::parse_version_name(&name) {
                        versions.push(c);
                    }
                    proof {
                        assert(children_step(before, versions@, all[kk]));
                        lemma_children_step(before, versions@, all, kk);
                        kk = kk + 1;
                    }
                }
                Err(e) => {
                    return Err(e);
                }
            }
        }
        proof { lemma_children_done(versions@, all, s0, par, prefix@); }
        Ok(versions)
    }
//@end
//@watch C08 C13 :: src/server/cloud/server.rs :: impl<SVC: Service> CloudServer<SVC> :: fn snapshot_info
    /// TRUSTED (a method call on the temporary iterator, which no contract line can name; hashed): "pick the first snapshot we find" --
    /// none is reported only if none is listed, or if the first listed `s-` object is not a snapshot (excluded by `own_s_names`)
    #[verifier::external_body]
    fn snapshot_info(&mut self) -> (r: Result<Option<(VersionId, String)>>)
        ensures final(self).objs() == old(self).objs(), final(self).cryptor == old(self).cryptor, final(self).cleanup_probability == old(self).cleanup_probability,
            r matches Ok(Some((v, name))) ==> name@ == sname(v) && old(self).objs().dom().contains(name@),
            r matches Ok(None) && own_s_names(old(self).objs()) ==> forall|v: Uuid| !old(self).objs().dom().contains(#[trigger] sname(v)),
    { unimplemented!() }
//@props C08
//@extract src/server/cloud/server.rs :: impl<SVC: Service> CloudServer<SVC> :: fn snapshot_urgency
    fn snapshot_urgency(&mut self) -> (r: Result<SnapshotUrgency>)
        ensures final(self).objs() == old(self).objs(), final(self).cryptor == old(self).cryptor,
            //@ob C08 snapshot_urgency.a-bucket-without-a-snapshot-asks-for-one-urgently
            r matches Ok(u) && own_s_names(old(self).objs()) && u != SnapshotUrgency::High ==> exists|v: Uuid| old(self).objs().dom().contains(#[trigger] sname(v)),
{
        if self.snapshot_info()?.is_none() {
            return Ok(SnapshotUrgency::High);
        }
        let r = self.randint()?;
        if r < 2 {
            Ok(SnapshotUrgency::High)
        } else if r < 25 {
            Ok(SnapshotUrgency::Low)
        } else {
            Ok(SnapshotUrgency::None)
        }
    }
//@end
//@props C08 C11 C13
//@watch C08 C10 C11 :: src/server/cloud/server.rs :: impl<SVC: Service> CloudServer<SVC> :: fn parse_version_name
    /// TRUSTED (hex/slice code outside the verifier's reach, hashed): the inverse of version_name, None for every other name
    #[verifier::external_body]
    fn parse_version_name(name: &str) -> (r: Option<(VersionId, VersionId)>)
        ensures match r { Some((p, c)) => name@ == vname(p, c), None => forall|p: Uuid, c: Uuid| name@ != #[trigger] vname(p, c) }
    { unimplemented!() }
//@watch C08 C10 C13 :: src/server/cloud/server.rs :: impl<SVC: Service> CloudServer<SVC> :: fn parse_snapshot_name
    #[verifier::external_body]
    fn parse_snapshot_name(name: &str) -> (r: Option<VersionId>)
        ensures match r { Some(v) => name@ == sname(v), None => forall|v: Uuid| name@ != #[trigger] sname(v) }
    { unimplemented!() }
//@watch C10 :: src/server/cloud/server.rs :: impl<SVC: Service> CloudServer<SVC> :: fn randint
    #[verifier::external_body]
    fn randint(&self) -> (r: Result<u8>)
    { unimplemented!() }

//@props C10 C08 C11
//@extract src/server/cloud/server.rs :: impl<SVC: Service> CloudServer<SVC> :: fn maybe_cleanup
    fn maybe_cleanup(&mut self) -> (r: Result<()>)
        ensures cleanup_rel(old(self).objs(), final(self).objs()), final(self).cryptor == old(self).cryptor,
{
        if self.randint()? < self.cleanup_probability {
            self.cleanup_probability = DEFAULT_CLEANUP_PROBABILITY;
            self.cleanup()
        } else {
            Ok(())
        }
    }
//@end

//@extract src/server/cloud/server.rs :: impl<SVC: Service> CloudServer<SVC> :: fn cleanup | R16 R34 R35 R36=snapshots R29res R28=Uuid->Option<Uuid>
    #[verifier::exec_allows_no_decreases_clause]
    #[verifier::loop_isolation(false)]
    #[verifier::allow_complex_invariants]
    #[verifier::rlimit(60)]
    fn cleanup(&mut self) -> (r: Result<()>)
        ensures final(self).cryptor == old(self).cryptor, final(self).cleanup_probability == old(self).cleanup_probability,
            //@ob C10 C08 C11 cleanup.only-deletes;-latest,-salt-and-every-object-that-is-neither-a-version-nor-a-snapshot-stay
            cleanup_rel(old(self).objs(), final(self).objs()),
            //@ob C10 cleanup.a-deleted-version-is-off-the-chain-and-unable-to-join-it,-or-old-and-at/before-the-retained-snapshot;-a-deleted-snapshot-is-made-redundant-by-the-retained-newest-one-on-the-chain
            unique_parent(old(self).objs()) ==> cleanup_post(old(self).objs(), old(self).service.ctimes(), final(self).objs()),
{
        let ghost s0 = self.service.objs();
        let ghost ct0 = self.service.ctimes();
        let ghost up = unique_parent(s0);
        let ghost mut ls: Option<(Uuid, nat)> = None;
        proof {
            lemma_names_other();
            lemma_inits(s0, ct0, Seq::empty(), Seq::empty(), None);
        }
        let mut versions = {
            let mut versions = Vec::new();
            let mut iterator = self.service.list("v-");
            let ghost all = iterator.names();
            let ghost allct = iterator.ctimes();
            let ghost mut kk: int = 0;
            proof { lemma_inits(s0, ct0, all, allct, None); }
            while let Some(res) = iterator.next()
                invariant self.service.objs() == s0, self.cryptor == old(self).cryptor, self.cleanup_probability == old(self).cleanup_probability,
                    0 <= kk <= all.len(), allct.len() == all.len(), iterator.names() == all.skip(kk), iterator.ctimes() == allct.skip(kk),
                    listed(versions@, all, allct, kk),
                ensures kk == all.len(),
            {
                let ghost before = versions@;
                match res {
                    Ok(ObjectInfo { name, creation }) => {
                        proof { assert(name@ == all[kk] && creation == allct[kk]); }
                        if let Some((p, c)) = Self::parse_version_name(&name) {
                            versions.push((c, p, creation));
                        }
                        proof {
                            assert(listed_step(before, versions@, all[kk], allct[kk]));
                            lemma_listed_step(before, versions@, all, allct, kk);
                            kk = kk + 1;
                        }
                    }
                    Err(e) => return Err(e),
                }
            }
            proof { lemma_listed_done(versions@, all, allct, s0, ct0); axiom_version_list_len(&versions); }
            versions
        };
        vec_sort(&mut versions);
        let ghost vs = versions@;
        proof { assert(vers_ok(vs, s0, ct0)); }
        let parent_of = |c: Uuid| -> (c1_r: Option<Uuid>)
            requires sorted_by_first(versions@),
            ensures match c1_r { Some(p) => exists|x: (Uuid, Uuid, u64)| #[trigger] versions@.contains(x) && x.0 == c && x.1 == p, None => forall|x: (Uuid, Uuid, u64)| #[trigger] versions@.contains(x) ==> x.0 != c },
        {
            match bsearch_by_first(&versions, &c) {
                Ok(idx) => Some(versions[idx].1),
                Err(_) => None,
            }
        };
        let mut rev_chain = HashMap::new();
        let mut iterations = versions.len() + 1;
        let latest = self.get_latest()?;
        let ghost mut n: nat = 0;
        proof { assert(latest == latest_of(s0)); lemma_inits(s0, ct0, Seq::empty(), Seq::empty(), latest); }
        if let Some(mut c) = latest {
            while let Some(p) = parent_of(c)
                invariant self.service.objs() == s0, versions@ == vs, sorted_by_first(vs), vers_ok(vs, s0, ct0),
                    1 <= iterations, iterations + n == vs.len() + 1,
                    up ==> anc(s0, latest, n) == Some(c) && chain_map(rev_chain@, s0, latest, n),
                ensures up ==> walk_done(rev_chain@, s0, latest, n),
            {
                proof {
                    if up {
                        let x = choose|x: (Uuid, Uuid, u64)| #[trigger] versions@.contains(x) && x.0 == c && x.1 == p;
                        assert(vs.contains((c, p, x.2)));
                        assert(has_child_obj(s0, p, c));
                        lemma_chain_step(rev_chain@, s0, latest, n, c, p);
                    }
                }
                rev_chain.insert(c, p);
                c = p;
                iterations -= 1;
                if iterations == 0 {
                    return Err(Error::Server(into_conv("Version cycle detected")));
                }
                proof { n = n + 1; }
            }
        }
        proof {
            if up {
                if latest is None { assert(anc(s0, latest, 1) is None); }
                assert(walk_done(rev_chain@, s0, latest, n));
            }
        }
        let age_threshold = {
            let now = (match SystemTime::now().duration_since(UNIX_EPOCH) {
                Ok(t) => Ok(t.as_secs()),
                Err(r29_e) => Err(r29_e),
            })
                .unwrap_or(0);
            now.saturating_sub(MAX_VERSION_AGE_SECS)
        };
        proof { assert(age_threshold == retention_threshold()); }
        let old_versions: HashSet<Uuid> = {
            let mut it1_acc = HashSet::new();
            for it1_x in it_it1_x: versions.iter()
                invariant forall|x: Uuid| #![trigger it1_acc@.contains(x)] it1_acc@.contains(x) ==> exists|p: Uuid, t: u64| #[trigger] vs.contains((x, p, t)) && t < age_threshold,
            {
                let (c, _, creation) = it1_x;
                proof { let k = it_it1_x.index() as int; assert(vs[k] == *it1_x); assert(vs.contains(vs[k])); assert(vs.contains((*c, vs[k].1, *creation))); }
                let it1_o1 = {
                    if *creation < age_threshold {
                        Some(*c)
                    } else {
                        None
                    }
                };
                if let Some(it1_y1) = it1_o1 {
                    it1_acc.insert(it1_y1);
                }
            }
            it1_acc
        };
        for (c, p, _) in it_c: versions
            invariant sub_store(self.service.objs(), s0), kept_other(s0, self.service.objs()), up ==> cleanup_shape(s0, ct0, self.service.objs(), None),
        {
            proof { let k = it_c.index() as int; assert(vs[k].0 == c && vs[k].1 == p); assert(vs.contains(vs[k])); assert(vs.contains((c, p, vs[k].2))); assert(has_child_obj(s0, p, c)); }
            if rev_chain.get(&c) != Some(&p) && Some(p) != latest {
                proof {
                    if up { lemma_walk_links(rev_chain@, s0, latest, n, p, c); assert(ver_deleted_ok(s0, ct0, None, p, c)); }
                    lemma_del_version(s0, ct0, self.service.objs(), None, p, c, up);
                }
                self.service.del(&Self::version_name(&p, &c))?;
            }
        }
        let ghost cur1 = self.service.objs();
        let snapshots = {
            let mut snapshots = HashSet::new();
            let mut iterator = self.service.list("s-");
            let ghost all = iterator.names();
            let ghost mut kk: int = 0;
            proof { lemma_inits(s0, ct0, all, Seq::empty(), None); }
            while let Some(res) = iterator.next()
                invariant self.service.objs() == cur1, 0 <= kk <= all.len(), iterator.names() == all.skip(kk),
                    snaps_listed(snapshots@, all, kk),
                ensures kk == all.len(),
            {
                let ghost before = snapshots@;
                match res {
                    Ok(ObjectInfo { name, .. }) => {
                        proof { assert(name@ == all[kk]); }
                        if let Some(parsed_name) = Self::parse_snapshot_name(&name) {
                            snapshots.insert(parsed_name);
                        }
                        proof {
                            assert(snaps_step(before, snapshots@, all[kk]));
                            lemma_snaps_step(before, snapshots@, all, kk);
                            kk = kk + 1;
                        }
                    }
                    Err(e) => return Err(e),
                }
            }
            proof { lemma_snaps_done(snapshots@, all, cur1); }
            snapshots
        };
        let mut latest_snapshot = None;
        let ghost mut m: nat = 0;
        if let Some(mut version) = latest {
            loop
                invariant_except_break latest_snapshot is None,
                invariant self.service.objs() == cur1,
                    up ==> anc(s0, latest, m) == Some(version) && no_snap_before(s0, latest, m),
                ensures up ==> (match latest_snapshot { Some(sv) => anc(s0, latest, m) == Some(sv) && snapshots@.contains(sv) && no_snap_before(s0, latest, m), None => true }),
            {
                if snapshots.contains(&version) {
                    latest_snapshot = Some(version);
                    break;
                }
                if let Some(v) = rev_chain.get(&version) {
                    proof { if up { lemma_link_at(rev_chain@, s0, latest, n, m, version); if s0.dom().contains(sname(version)) { lemma_no_snapshot_deleted(s0, ct0, cur1, version); } assert(!s0.dom().contains(sname(version))); } }
                    version = *v;
                    proof { m = m + 1; }
                } else {
                    break;
                }
            }
        }
        let Some(latest_snapshot) = latest_snapshot else {
            return Ok(());
        };
        proof {
            ls = Some((latest_snapshot, m));
            if up {
                assert(anc(s0, latest, n + 1) is None);
                assert(cur1.dom().contains(sname(latest_snapshot)));
                lemma_set_ls(s0, ct0, cur1, latest_snapshot, m, n + 1);
            }
        }
        for version in it_version: hashset_into_vec(snapshots)
            invariant sub_store(self.service.objs(), s0), kept_other(s0, self.service.objs()), up ==> cleanup_shape(s0, ct0, self.service.objs(), ls),
        {
            if version != latest_snapshot {
                proof { lemma_del_snapshot(s0, ct0, self.service.objs(), (latest_snapshot, m), version, up); }
                self.service.del(&Self::snapshot_name(&version))?;
            }
        }
        let mut version = latest_snapshot;
        let ghost mut kx: nat = m;
        while let Some(parent) = rev_chain.get(&version)
            invariant sub_store(self.service.objs(), s0), kept_other(s0, self.service.objs()), up ==> cleanup_shape(s0, ct0, self.service.objs(), ls),
                kx >= m, up ==> anc(s0, latest, kx) == Some(version),
        {
            proof { if up { lemma_link_at(rev_chain@, s0, latest, n, kx, version); } }
            if old_versions.contains(&version) {
                proof {
                    if up {
                        let (p0, t0) = choose|p0: Uuid, t0: u64| #[trigger] vs.contains((version, p0, t0)) && t0 < age_threshold;
                        assert(has_child_obj(s0, p0, version));
                        assert(has_child_obj(s0, *parent, version));
                        assert(p0 == *parent && t0 == ct0[vname(*parent, version)]);
                        assert(chain_link(s0, latest, kx, *parent, version));
                        assert(ver_deleted_ok(s0, ct0, ls, *parent, version));
                    }
                    lemma_del_version(s0, ct0, self.service.objs(), ls, *parent, version, up);
                }
                self.service
                    .del(&Self::version_name(parent, &version))?;
            }
            version = *parent;
            proof { kx = kx + 1; }
        }
        Ok(())
    }
//@end
//@props C13
//@extract src/server/cloud/server.rs :: impl<SVC: Service> CloudServer<SVC> :: fn new | R16
    pub fn new(
        mut service: SVC,
        encryption_secret: Vec<u8>,
    ) -> (r: Result<Self>)
        ensures
            //@ob C13 CloudServer::new.the-key-is-the-protocol-key-of-the-secret-with-the-salt-stored-in-the-bucket-(created-once,-at-random)
            r matches Ok(s) ==> s.wf() && s.objs().dom().contains("salt"@) && s.key() == protocol_key(s.objs()["salt"@], encryption_secret@)
                && (service.objs().dom().contains("salt"@) ==> s.objs() == service.objs()),
{
        let salt = Self::get_salt(&mut service)?;
        proof { axiom_vec_as_ref_bytes(&salt); }
        let cryptor = Cryptor::new(salt, &into_conv(encryption_secret))?;
        Ok(Self {
            service,
            cryptor,
            cleanup_probability: DEFAULT_CLEANUP_PROBABILITY,
        })
    }
//@end
//@extract src/server/cloud/server.rs :: impl<SVC: Service> CloudServer<SVC> :: fn get_salt
    #[verifier::exec_allows_no_decreases_clause]
    fn get_salt(service: &mut SVC) -> (r: Result<Vec<u8>>)
        ensures
            //@ob C13 get_salt.an-existing-salt-is-used-as-it-is;-otherwise-a-random-one-is-stored-with-compare-and-swap-and-read-back
            r matches Ok(salt) ==> final(service).objs().dom().contains("salt"@) && final(service).objs()["salt"@] == salt@,
            old(service).objs().dom().contains("salt"@) ==> final(service).objs() == old(service).objs(),
            only_salt_differs(old(service).objs(), final(service).objs()),
{
        const SALT_NAME: &'static str = "salt";
        loop
            invariant
                old(service).objs().dom().contains("salt"@) ==> service.objs() == old(service).objs(),
                only_salt_differs(old(service).objs(), service.objs()),
        {
            if let Some(salt) = service.get(SALT_NAME)? {
                return Ok(salt);
            }
            service
                .compare_and_swap(SALT_NAME, None, Cryptor::gen_salt()?)?;
        }
    }
//@end
//@props C08 C11 C13
//@extract src/server/cloud/server.rs :: impl<SVC: Service> CloudServer<SVC> :: fn get_latest | R16
    fn get_latest(&mut self) -> (r: Result<Option<VersionId>>)
        ensures final(self).objs() == old(self).objs(), final(self).cryptor == old(self).cryptor, final(self).cleanup_probability == old(self).cleanup_probability,
            //@ob C08 get_latest.the-committed-latest-version-as-stored
            r matches Ok(l) ==> l == latest_of(old(self).objs()) && (l is None ==> !old(self).objs().dom().contains(latest_name())),
{
        let Some(latest) = self.service.get(LATEST)? else {
            return Ok(None);
        };
        let latest = (match VersionId::try_parse_ascii(&latest) {
            Ok(r29_v) => Ok(r29_v),
            Err(_) => Err(Error::Server(into_conv("'latest' object contains invalid data"))),
        })?;
        Ok(Some(latest))
    }
//@end

//@extract src/server/cloud/server.rs :: impl<SVC: Service + Send> Server for CloudServer<SVC> :: fn add_version | R29map
    fn add_version(
        &mut self,
        parent_version_id: VersionId,
        history_segment: HistorySegment,
    ) -> (r: Result<(AddVersionResult, SnapshotUrgency)>)
        requires old(self).wf(), history_segment@.len() < usize::MAX - 64,
        ensures final(self).cryptor == old(self).cryptor,
            //@ob C08 CloudServer::add_version.a-parent-that-is-not-the-latest-version-is-rejected-naming-the-latest-and-nothing-changes
            latest_of(old(self).objs()) is Some && latest_of(old(self).objs()) != Some(parent_version_id) ==>
                (r matches Ok((AddVersionResult::ExpectedParentVersion(l2), u)) && Some(l2) == latest_of(old(self).objs()) && u == SnapshotUrgency::None && final(self).objs() == old(self).objs()) || r is Err,
            //@ob C08 C13 CloudServer::add_version.accepted:-the-sealed-segment-bound-to-the-new-version-id-is-stored-under-v-PARENT-VERSION-and-latest-is-swapped-to-it
            accepted_post(old(self).objs(), old(self).key(), parent_version_id, history_segment@, r, final(self).objs()),
            //@ob C08 C11 CloudServer::add_version.a-lost-compare-and-swap-removes-the-uploaded-object-again
            r matches Ok((AddVersionResult::ExpectedParentVersion(_), _)) ==> final(self).objs() == old(self).objs()
                || exists|v: Uuid| final(self).objs() == #[trigger] old(self).objs().remove(vname(parent_version_id, v)),
            //@ob C11 CloudServer::add_version.a-failure-at-any-step-leaves-nothing,-the-uncommitted-object,-or-the-accepted-version
            r is Err ==> exists|v: Uuid, bytes: Seq<u8>| #[trigger] wit(v, bytes) && add_version_partial(old(self).objs(), parent_version_id, v, bytes, final(self).objs()),
{
        let ghost s0 = self.service.objs();
        let ghost hs0 = history_segment@;
        proof { assert(wit(Uuid::nil_spec(), Seq::<u8>::empty())); }
        let latest = self.get_latest()?;
        if let Some(l) = latest {
            if l != parent_version_id {
                return Ok((
                    AddVersionResult::ExpectedParentVersion(l),
                    SnapshotUrgency::None,
                ));
            }
        }
        let version_id = VersionId::new_v4();
        let new_name = Self::version_name(&parent_version_id, &version_id);
        let sealed = self.cryptor.seal(Unsealed {
            version_id,
            payload: history_segment,
        })?;
        let ghost bytes = sealed.payload@;
        let ghost nonce = choose|nonce: Seq<u8>| nonce.len() == 12 && ringspec::rng_drawn(nonce) && sealed.payload@ == #[trigger] sealed_bytes(self.key(), nonce, version_id, hs0);
        proof {
            assert(bytes == sealed_bytes(self.key(), nonce, version_id, hs0) && old(self).objs() == s0 && self.key() == old(self).key());
            axiom_names(parent_version_id, version_id, parent_version_id, version_id);
            let nm = vname(parent_version_id, version_id);
            // the witness for the states a failure from here on can leave behind (C11)
            assert(wit(version_id, bytes));
        }
        self.service.put(&new_name, sealed.as_ref())?;
        let ghost s1 = self.service.objs();
        proof { assert(s1 == s0.insert(vname(parent_version_id, version_id), bytes)); }
        let old_value = match latest {
            Some(r29_v) => Some(version_to_bytes(r29_v)),
            None => None,
        };
        let new_value = version_to_bytes(version_id);
        if !self
            .service
            .compare_and_swap(LATEST, old_value, new_value)?
        {
            self.service.del(&new_name)?;
            proof { assert(self.service.objs() =~= s0.remove(vname(parent_version_id, version_id))); }
            let latest = self.get_latest()?;
            let latest = latest.unwrap_or(Uuid::nil());
            return Ok((
                AddVersionResult::ExpectedParentVersion(latest),
                SnapshotUrgency::None,
            ));
        }
        let ghost s2 = self.service.objs();
        proof { assert(s2 == s1.insert(latest_name(), vbytes(version_id))); }
        let _ = self.maybe_cleanup();
        Ok((
            AddVersionResult::Ok(version_id),
            self.snapshot_urgency()?,
        ))
    }
//@end

//@extract src/server/cloud/server.rs :: impl<SVC: Service + Send> Server for CloudServer<SVC> :: fn get_child_version | R16
    fn get_child_version(
        &mut self,
        parent_version_id: VersionId,
    ) -> (r: Result<GetVersionResult>)
        requires old(self).wf(),
        ensures final(self).objs() == old(self).objs(), final(self).cryptor == old(self).cryptor,
            //@ob C08 C11 C13 CloudServer::get_child_version.serves-only-the-child-that-is-the-latest-version-or-has-children-itself,-opened-under-its-own-version-id;-leftovers-are-never-served
            child_post(old(self).objs(), old(self).key(), parent_version_id, r),
{
        let ghost s0 = self.service.objs();
        let version_id = {
            let children_v = (self.get_child_versions(&parent_version_id)?);
            let children = &children_v[..];
            proof { assert(children@ == children_v@); assert(forall|c: Uuid| children@.contains(c) <==> has_child_obj(s0, parent_version_id, c)); }
            if children.is_empty() {
                proof { assert forall|c: Uuid| !true_child(s0, parent_version_id, c) by { if has_child_obj(s0, parent_version_id, c) { assert(children@.contains(c)); } } }
                return Ok(GetVersionResult::NoSuchVersion)
            } else {
                self.cleanup_probability = 255;
                let latest = self.get_latest()?;
                let mut true_child = None;
                for child in it_child: children
                    invariant_except_break
                        true_child is None,
                        forall|j: int| 0 <= j < it_child.index() ==> Some(#[trigger] children@[j]) != latest,
                    invariant self.service.objs() == s0, same_uuid_refs(it_child.seq(), children@),
                        latest == latest_of(s0),
                    ensures true_child matches Some(c) ==> children@.contains(c) && latest == Some(c),
                        true_child is None ==> forall|j: int| 0 <= j < children@.len() ==> Some(#[trigger] children@[j]) != latest,
                {
                    proof { let k = it_child.index() as int; assert(*child == children@[k] && children@.contains(children@[k])); }
                    if Some(*child) == latest {
                        true_child = Some(*child);
                        break;
                    }
                }
                if true_child.is_none() {
                    for child in it_child2: children
                        invariant self.service.objs() == s0, s0 == old(self).objs(), self.cryptor == old(self).cryptor, same_uuid_refs(it_child2.seq(), children@),
                            true_child matches Some(c) ==> children@.contains(c) && has_children(s0, c),
                            true_child is None ==> forall|j: int| 0 <= j < it_child2.index() ==> !has_children(s0, #[trigger] children@[j]),
                    {
                        proof { let k = it_child2.index() as int; assert(*child == children@[k] && children@.contains(children@[k])); }
                        if !self.get_child_versions(child)?.is_empty() {
                            true_child = Some(*child)
                        }
                    }
                }
                match true_child {
                    Some(true_child) => true_child,
                    None => return Ok(GetVersionResult::NoSuchVersion),
                }
            }
        };
        let Some(sealed) = self
            .service
            .get(&Self::version_name(&parent_version_id, &version_id))?
        else {
            return Ok(GetVersionResult::NoSuchVersion);
        };
        let unsealed = self.cryptor.unseal(Sealed {
            version_id,
            payload: sealed,
        })?;
        Ok(GetVersionResult::Version {
            version_id,
            parent_version_id,
            history_segment: into_conv(unsealed),
        })
    }
//@end

//@extract src/server/cloud/server.rs :: impl<SVC: Service + Send> Server for CloudServer<SVC> :: fn add_snapshot
    fn add_snapshot(&mut self, version_id: VersionId, snapshot: Snapshot) -> (r: Result<()>)
        requires old(self).wf(), snapshot@.len() < usize::MAX - 64,
        ensures final(self).cryptor == old(self).cryptor,
            //@ob C13 C08 CloudServer::add_snapshot.the-sealed-snapshot-bound-to-its-version-id-is-stored-under-s-VERSION
            r is Ok ==> exists|nonce: Seq<u8>| nonce.len() == 12 && ringspec::rng_drawn(nonce)
                && final(self).objs() == old(self).objs().insert(sname(version_id), #[trigger] sealed_bytes(old(self).key(), nonce, version_id, snapshot@)),
{
        let ghost snap0 = snapshot@;
        let name = Self::snapshot_name(&version_id);
        let sealed = self.cryptor.seal(Unsealed {
            version_id,
            payload: snapshot,
        })?;
        proof {
            let nonce = choose|nonce: Seq<u8>| nonce.len() == 12 && ringspec::rng_drawn(nonce) && sealed.payload@ == #[trigger] sealed_bytes(self.key(), nonce, version_id, snap0);
            assert(sealed.payload@ == sealed_bytes(self.key(), nonce, version_id, snap0));
        }
        self.service.put(&name, sealed.as_ref())?;
        Ok(())
    }
//@end

//@extract src/server/cloud/server.rs :: impl<SVC: Service + Send> Server for CloudServer<SVC> :: fn get_snapshot
    fn get_snapshot(&mut self) -> (r: Result<Option<(VersionId, Snapshot)>>)
        requires old(self).wf(),
        ensures final(self).objs() == old(self).objs(), final(self).cryptor == old(self).cryptor,
            //@ob C13 C08 CloudServer::get_snapshot.a-stored-snapshot-is-returned-only-if-it-opens-under-the-key-and-the-version-id-in-its-name
            r matches Ok(Some((v, snap))) ==> old(self).objs().dom().contains(sname(v)) && opens_to(old(self).objs()[sname(v)], old(self).key(), v, snap@),
            r matches Ok(None) && own_s_names(old(self).objs()) ==> forall|v: Uuid| !old(self).objs().dom().contains(#[trigger] sname(v)),
{
        let Some((version_id, name)) = self.snapshot_info()? else {
            return Ok(None);
        };
        let Some(payload) = self.service.get(&name)? else {
            return Ok(None);
        };
        let unsealed = self.cryptor.unseal(Sealed {
            version_id,
            payload,
        })?;
        Ok(Some((version_id, unsealed.payload)))
    }
//@end
}
/// C13: `bytes` opens to `plain` under the key and the given version id (and only then)
pub open spec fn opens_to(bytes: Seq<u8>, key: Seq<u8>, version: Uuid, plain: Seq<u8>) -> bool {
    bytes.len() > 13 && bytes[0] == 1
    && ringspec::open_spec(key, ringspec::ALG_CHACHA20_POLY1305(), bytes.subrange(1, 13), aad_spec(version), bytes.subrange(13, bytes.len() as int)) == Some(plain)
}

/// C11 (object store): what an add_version that stopped between `put` and the compare-and-swap leaves behind -- the object
/// v-LATEST-v for a version id `v` that names nothing else (A12: Uuid::new_v4 is fresh) -- is not a true child, so get_child_version
/// (verified above to serve true children only) never serves it, and `latest` and every other object are as before
pub proof fn lemma_orphan_not_served(s: Store, parent: Uuid, v: Uuid, bytes: Seq<u8>)
    requires latest_of(s) == Some(parent), v != parent, !has_children(s, v),
    ensures
        latest_of(s.insert(vname(parent, v), bytes)) == latest_of(s),
        !true_child(s.insert(vname(parent, v), bytes), parent, v),
{
    let s1 = s.insert(vname(parent, v), bytes);
    axiom_names(parent, v, parent, v);
    assert(s1[latest_name()] == s[latest_name()]);
    assert forall|c: Uuid| !has_child_obj(s1, v, c) by {
        axiom_names(v, c, parent, v);
        if has_child_obj(s1, v, c) { assert(has_child_obj(s, v, c)); }
    }
}
