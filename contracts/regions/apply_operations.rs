// ================================================================================================
// src/taskdb/apply.rs :: apply_operations  (C05)
// ================================================================================================
//@props C05
pub type Cache = Map<Uuid, Option<TaskMap>>;
/// the task set as it would be if every cached entry were written through
pub open spec fn eff(t: State, c: Cache) -> State {
    Map::new(
        t.dom().difference(c.dom()).union(c.dom().filter(|u: Uuid| c[u] is Some)),
        |u: Uuid| if c.dom().contains(u) { c[u]->Some_0@ } else { t[u] },
    )
}
/// a cached "absent" is really absent in storage
pub open spec fn cache_ok(t: State, c: Cache) -> bool {
    forall|u: Uuid| #![trigger c[u]] c.dom().contains(u) && c[u] is None ==> !t.dom().contains(u)
}
#[verifier::exec_allows_no_decreases_clause]
//@extract src/taskdb/apply.rs :: fn apply_operations
pub fn apply_operations(
    txn: &mut dyn StorageTxn,
    operations: &Operations,
) -> (r: Result<()>)
    requires old(txn).inv(),
    ensures final(txn).inv(), final(txn).stored() == old(txn).stored(),
        // only the task set changes, also on an error (the caller then drops the transaction)
        final(txn).st() == (TxnView { tasks: final(txn).st().tasks, ..old(txn).st() }),
        //@ob C05 apply_operations.equals-one-at-a-time-application-under-the-documented-rules
        r is Ok ==> final(txn).st().tasks =~~= apply_l_seq(old(txn).st().tasks, operations@),
        r matches Err(e) ==> storage_err(e),
{
    let mut tasks: HashMap<Uuid, Option<TaskMap>> = HashMap::new();
    fn get_cache<'t>(
        uuid: Uuid,
        tasks: &'t mut HashMap<Uuid, Option<TaskMap>>,
        txn: &mut dyn StorageTxn,
    ) -> (r: Result<Option<&'t mut TaskMap>>)
        requires old(txn).inv(), cache_ok(old(txn).st().tasks, old(tasks)@)
        ensures
            final(txn).inv(), final(txn).st() == old(txn).st(), final(txn).stored() == old(txn).stored(),
            //@ob C05 get_cache.returns-the-effective-task-and-caches-absence
            match r {
                Ok(Some(tm)) => {
                    &&& eff(old(txn).st().tasks, old(tasks)@).dom().contains(uuid)
                    &&& tm@ == eff(old(txn).st().tasks, old(tasks)@)[uuid]
                    &&& final(tasks)@ == old(tasks)@.insert(uuid, Some(*final(tm)))
                }
                Ok(None) => {
                    &&& !eff(old(txn).st().tasks, old(tasks)@).dom().contains(uuid)
                    &&& final(tasks)@ == old(tasks)@.insert(uuid, None)
                    &&& !old(txn).st().tasks.dom().contains(uuid)
                }
                Err(e) => storage_err(e),
            }
    {
        match tasks.entry(uuid) {
            Entry::Occupied(occupied_entry) => Ok(occupied_entry.into_mut().as_mut()),
            Entry::Vacant(vacant_entry) => {
                let task = txn.get_task(uuid)?;
                Ok(vacant_entry.insert(task).as_mut())
            }
        }
    }
    fn flush_cache(
        uuid: Uuid,
        tasks: &mut HashMap<Uuid, Option<TaskMap>>,
        txn: &mut dyn StorageTxn,
    ) -> (r: Result<()>)
        requires old(txn).inv(), cache_ok(old(txn).st().tasks, old(tasks)@)
        ensures
            final(txn).inv(), final(txn).stored() == old(txn).stored(),
            final(txn).st() == (TxnView { tasks: final(txn).st().tasks, ..old(txn).st() }),
            //@ob C05 flush_cache.writes-through-without-changing-the-effective-state
            r is Ok ==> {
                &&& final(tasks)@ == old(tasks)@.remove(uuid)
                &&& eff(final(txn).st().tasks, final(tasks)@) =~~= eff(old(txn).st().tasks, old(tasks)@)
                &&& cache_ok(final(txn).st().tasks, final(tasks)@)
            },
            r matches Err(e) ==> storage_err(e),
    {
        if let Entry::Occupied(occupied_entry) = tasks.entry(uuid) {
            let v = occupied_entry.remove();
            if let Some(taskmap) = v {
                txn.set_task(uuid, taskmap)?;
            }
        }
        Ok(())
    }
    let ghost s0 = txn.st();
    let ghost t0 = txn.st().tasks;
    for operation in it_operation: operations
        invariant
            s0 == old(txn).st(), t0 == s0.tasks, txn.inv(), txn.stored() == old(txn).stored(),
            txn.st() == (TxnView { tasks: txn.st().tasks, ..s0 }),
            cache_ok(txn.st().tasks, tasks@),
            //@ob C05 apply_operations.loop-invariant: storage overlaid by the cache equals the sequential result of the prefix
            eff(txn.st().tasks, tasks@) =~~= apply_l_seq(t0, operations@.take(it_operation.index() as int)),
    {
        let ghost i = it_operation.index() as int;
        proof { assert(operations@.take(i + 1).drop_last() =~= operations@.take(i)); }
        match operation {
            Operation::Create { uuid } => {
                flush_cache(*uuid, &mut tasks, txn)?;
                txn.create_task(*uuid)?;
            }
            Operation::Delete { uuid, .. } => {
                txn.delete_task(*uuid)?;
                tasks.insert(*uuid, None);
            }
            Operation::Update {
                uuid,
                property,
                value,
                ..
            } => {
                let task = get_cache(*uuid, &mut tasks, txn)?;
                if let Some(task) = task {
                    if let Some(v) = value {
                        task.insert(property.clone(), v.clone());
                    } else {
                        task.remove(property);
                    }
                }
            }
            Operation::UndoPoint => {}
        }
    }
    proof { assert(operations@.take(operations@.len() as int) =~= operations@); }
    while let Some((uuid, _)) = tasks.iter().next()
        invariant
            s0 == old(txn).st(), t0 == s0.tasks, txn.inv(), txn.stored() == old(txn).stored(),
            txn.st() == (TxnView { tasks: txn.st().tasks, ..s0 }),
            cache_ok(txn.st().tasks, tasks@),
            eff(txn.st().tasks, tasks@) =~~= apply_l_seq(t0, operations@),
        ensures
            tasks@.dom() =~= Set::<Uuid>::empty(),
    {
        flush_cache(*uuid, &mut tasks, txn)?;
    }
    Ok(())
}
//@end
