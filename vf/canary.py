"""Canary mutants: property-breaking edits applied to a scratch copy of /repo/src; each must make the checks of the
listed properties report VIOLATION, and must leave the other listed properties quiet.  Never touches /repo.

  python3 vf/canary.py [--only NAME] [--jobs N]
"""
import concurrent.futures
import json
import os
import shutil
import subprocess
import sys
import tempfile

VERIF = os.path.dirname(os.path.dirname(os.path.abspath(__file__)))
REPO = os.environ.get('VERIF_REPO', '/repo')


def run_canary(c):
    tmp = tempfile.mkdtemp(prefix='vf-canary-')
    try:
        shutil.copytree(os.path.join(REPO, 'src'), os.path.join(tmp, 'repo', 'src'))
        path = os.path.join(tmp, 'repo', c['file'])
        s = open(path).read()
        for ed in c['edits']:
            if ed.get('all'):
                # rename: every occurrence as a whole word
                import re
                pat = re.compile(r'\b' + re.escape(ed['old']) + r'\b')
                if not pat.search(s):
                    return dict(c, outcome='STALE', detail='pattern does not occur: %r' % ed['old'])
                s = pat.sub(ed['new'], s)
                continue
            if s.count(ed['old']) != 1:
                return dict(c, outcome='STALE', detail='pattern occurs %d times: %r' % (s.count(ed['old']), ed['old'][:60]))
            s = s.replace(ed['old'], ed['new'])
        open(path, 'w').write(s)
        env = dict(os.environ, VERIF_REPO=os.path.join(tmp, 'repo'), VERIF_OUT=os.path.join(tmp, 'out'), VERIF_DYN_LAZY='1')
        res = {}
        for prop in c.get('expect_violation', []) + c.get('expect_quiet', []):
            p = subprocess.run([sys.executable, os.path.join(VERIF, 'vf', 'main.py'), 'check', prop, '--tier', 'quick'],
                               env=env, stdout=subprocess.PIPE, stderr=subprocess.STDOUT, text=True, cwd=VERIF)
            res[prop] = (p.returncode, [l for l in p.stdout.split('\n') if l.startswith(('VIOLATION', 'UNDECIDED', 'KNOWN'))])
        ok = all(res[p][0] == 1 for p in c.get('expect_violation', [])) and all(res[p][0] == 0 for p in c.get('expect_quiet', []))
        return dict(c, outcome='OK' if ok else 'MISSED', detail={k: v for k, v in res.items()})
    finally:
        shutil.rmtree(tmp, ignore_errors=True)


def load():
    return json.load(open(os.path.join(VERIF, 'canaries', 'canaries.json')))


def main(argv):
    only = None
    jobs = 4
    if '--only' in argv:
        only = argv[argv.index('--only') + 1]
    if '--jobs' in argv:
        jobs = int(argv[argv.index('--jobs') + 1])
    cs = [c for c in load() if only is None or c['name'] == only or only in c.get('expect_violation', [])]
    bad = 0
    with concurrent.futures.ThreadPoolExecutor(max_workers=jobs) as ex:
        for r in ex.map(run_canary, cs):
            print('%-7s %-45s %s' % (r['outcome'], r['name'], {k: v[0] for k, v in r['detail'].items()} if isinstance(r['detail'], dict) else r['detail']))
            if r['outcome'] != 'OK':
                bad += 1
                if isinstance(r['detail'], dict):
                    for k, v in r['detail'].items():
                        for l in v[1]:
                            print('          ' + l[:220])
    return 1 if bad else 0


if __name__ == '__main__':
    sys.exit(main(sys.argv[1:]))
