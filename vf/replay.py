"""`./check ID --replay FILE`: re-run what a replay file records, on /repo's current working tree.

* a replay written by a bounded execution engine carries the failing call sequence: it is executed again on the real code
  (exit 1 if it still fails, 0 if not);
* a replay written for a failed Verus obligation carries no input (Verus produces no model): the unit is verified again and the
  answer is whether the named obligation still fails.
"""
import json
import os

from . import unit as U


def replay(prop, path):
    try:
        r = json.load(open(path))
    except (OSError, ValueError) as e:
        print('UNDECIDED replay: cannot read %s: %s' % (path, e))
        return 2
    if r.get('engine') in ('sqlite_equiv', 'server_conform', 'replica_exec', 'http_conform'):
        from . import dyn
        return dyn.replay(r['engine'], path)
    if r.get('engine') == 'kani':
        from . import kani
        out = kani.run({'harness': r.get('harness')}, prop)
        if out['violations']:
            print('replay: kani harness %s still fails' % r.get('harness'))
            return 1
        if out['undecided']:
            print('UNDECIDED replay: %s' % out['undecided'])
            return 2
        print('replay: kani harness %s verifies' % r.get('harness'))
        return 0
    fo = r.get('failed_obligation')
    if not fo:
        print('UNDECIDED replay: %s names no obligation' % path)
        return 2
    from . import check as C
    res = C.run_unit(fo['unit'], prop=prop)
    if res['status'] == 'undecided':
        print('UNDECIDED replay: %s' % res['reason'])
        return 2
    still = [f for f in res['analysis']['failures'] if f.function == fo['function'] and (f.labels == fo.get('labels') or f.message == fo.get('kind'))]
    if still:
        print('replay: obligation %s::%s %s still fails (no failing input: Verus gives no model)' % (fo['unit'], fo['function'], fo.get('labels') or fo.get('kind')))
        print(still[0].rendered)
        return 1
    print('replay: obligation %s::%s %s is discharged on this tree' % (fo['unit'], fo['function'], fo.get('labels') or fo.get('kind')))
    return 0
