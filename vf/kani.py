"""Kani (CBMC) harnesses over HashMap-free kernels, included from /repo by #[path] (DESIGN.md section 1, K1).

A loop-free harness over a full-domain symbolic input is a complete proof for that kernel, not a bounded stand-in;
harnesses with an unwinding bound are labelled `bounded` in the configuration and never counted as proved.
"""
import os
import re
import shutil
import subprocess
import time

from . import unit as U

HARNESS_SRC = os.path.join(U.VERIF, 'kani', 'harness')
TARGET = os.environ.get('VERIF_KANI_TARGET', os.path.join(U.VERIF, 'kani', 'target'))


def _prepare():
    work = os.path.join(U.BUILD, 'kani')
    if os.path.isdir(work):
        shutil.rmtree(work)
    os.makedirs(os.path.join(work, 'src'))
    os.makedirs(os.path.join(work, '.cargo'))
    for f in ('Cargo.toml', 'Cargo.lock'):
        if os.path.exists(os.path.join(HARNESS_SRC, f)):
            shutil.copy(os.path.join(HARNESS_SRC, f), os.path.join(work, f))
    shutil.copy(os.path.join(HARNESS_SRC, '.cargo', 'config.toml'), os.path.join(work, '.cargo', 'config.toml'))
    src = open(os.path.join(HARNESS_SRC, 'src', 'lib.rs.in')).read().replace('@REPO@', U.REPO)
    with open(os.path.join(work, 'src', 'lib.rs'), 'w') as f:
        f.write(src)
    return work


def run(h, prop):
    """h: {"harness": name, "bounded": false, "what": text}"""
    name = h['harness']
    out = {'engine': 'kani', 'harness': name, 'obligations': 1, 'discharged': 0, 'violations': [], 'undecided': [],
           'bounded': bool(h.get('bounded')), 'what': h.get('what', ''),
           'trusted': ['kani 0.68 / cbmc 6.11 (verifier)', 'chrono 0.4 source as compiled by Kani (not a stand-in: the real crate)'],
           'samples': [{'kani_harness': name, 'claim': h.get('what', '')}]}
    if shutil.which('cargo-kani') is None and shutil.which('kani') is None:
        out['undecided'].append('kani not installed')
        return out
    t0 = time.time()
    try:
        work = _prepare()
    except OSError as e:
        out['undecided'].append('kani harness preparation failed: %s' % e)
        return out
    # a private target directory per run: Kani's artifacts are keyed by crate name, so concurrent runs on different source
    # trees must not share one (a shared directory made one run verify the other's binary)
    env = dict(os.environ, CARGO_NET_OFFLINE='true', CARGO_TARGET_DIR=os.path.join(work, 'target'))
    cmd = ['cargo', 'kani', '--harness', name]
    out['cmd'] = 'cd kani/harness && CARGO_NET_OFFLINE=true ' + ' '.join(cmd)
    try:
        p = subprocess.run(cmd, cwd=work, env=env, stdout=subprocess.PIPE, stderr=subprocess.STDOUT, text=True, timeout=1500)
        txt = p.stdout
    except subprocess.TimeoutExpired:
        out['undecided'].append('kani timeout on %s' % name)
        return out
    out['wall_s'] = round(time.time() - t0, 2)
    m = re.search(r'\*\* (\d+) of (\d+) failed', txt)
    if m:
        out['cbmc_checks'] = int(m.group(2))
        out['cbmc_failed'] = int(m.group(1))
    m = re.search(r'Verification Time: ([0-9.]+)s', txt)
    if m:
        out['solver_s'] = float(m.group(1))
    if 'VERIFICATION:- SUCCESSFUL' in txt:
        out['discharged'] = 1
        return out
    if 'VERIFICATION:- FAILED' in txt:
        failed = re.findall(r'Failed Checks: (.*)', txt)
        cex = None
        try:
            p2 = subprocess.run(['cargo', 'kani', '--harness', name, '-Z', 'concrete-playback', '--concrete-playback=print'],
                                cwd=work, env=env, stdout=subprocess.PIPE, stderr=subprocess.STDOUT, text=True, timeout=1500)
            mm = re.search(r'Concrete playback unit test for `[^`]*`:\s*```(.*?)```', p2.stdout, re.S)
            if mm:
                cex = mm.group(1).strip()
        except subprocess.TimeoutExpired:
            pass
        out['violations'].append({'harness': name, 'engine': 'kani', 'failed_checks': failed[:10],
                                  'counterexample': cex, 'verifier_output': txt[-3000:],
                                  'replay_note': 'the playback test above calls the real function included from /repo by #[path]; '
                                                 'run it with `cargo kani playback` in kani/harness, or call the public function natively'})
        return out
    out['undecided'].append('kani gave no verdict for %s: %s' % (name, txt[-400:].replace('\n', ' ')))
    return out
