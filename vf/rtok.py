"""A small Rust tokenizer: enough to find items, match braces and apply syntactic rewrites
without being fooled by strings, chars, lifetimes and comments.

Token = (kind, text); kinds: ws, lc (line comment), bc (block comment), str, chr, life, id, num, p (one punctuation char).
Concatenating the texts of all tokens gives the input back byte for byte.
"""
import re

_ID = re.compile(r'[A-Za-z_][A-Za-z0-9_]*')
_NUM = re.compile(r'[0-9][0-9A-Za-z_]*(\.[0-9][0-9A-Za-z_]*)?')
_WS = re.compile(r'\s+')
_RAWSTR = re.compile(r'(?:b|c)?r(#*)"')
_CHR = re.compile(r"'(\\x[0-9a-fA-F]{2}|\\u\{[0-9a-fA-F_]+\}|\\.|[^\\'\n])'")
_LIFE = re.compile(r"'[A-Za-z_][A-Za-z0-9_]*")


class LexError(Exception):
    pass


def tokenize(src):
    toks = []
    i = 0
    n = len(src)
    while i < n:
        c = src[i]
        m = _WS.match(src, i)
        if m:
            toks.append(('ws', m.group(0)))
            i = m.end()
            continue
        if src.startswith('//', i):
            j = src.find('\n', i)
            if j < 0:
                j = n
            toks.append(('lc', src[i:j]))
            i = j
            continue
        if src.startswith('/*', i):
            depth = 1
            j = i + 2
            while j < n and depth:
                if src.startswith('/*', j):
                    depth += 1
                    j += 2
                elif src.startswith('*/', j):
                    depth -= 1
                    j += 2
                else:
                    j += 1
            toks.append(('bc', src[i:j]))
            i = j
            continue
        m = _RAWSTR.match(src, i)
        if m:
            close = '"' + m.group(1)
            j = src.find(close, m.end())
            if j < 0:
                raise LexError('unterminated raw string at %d' % i)
            j += len(close)
            toks.append(('str', src[i:j]))
            i = j
            continue
        if c == '"' or (c in 'bc' and i + 1 < n and src[i + 1] == '"'):
            j = i + (1 if c == '"' else 2)
            while j < n and src[j] != '"':
                if src[j] == '\\':
                    j += 1
                j += 1
            if j >= n:
                raise LexError('unterminated string at %d' % i)
            j += 1
            toks.append(('str', src[i:j]))
            i = j
            continue
        if c == "'" or (c == 'b' and i + 1 < n and src[i + 1] == "'"):
            k = i + (0 if c == "'" else 1)
            m = _CHR.match(src, k)
            if m:
                toks.append(('chr', src[i:m.end()]))
                i = m.end()
                continue
            m = _LIFE.match(src, k)
            if m and c == "'":
                toks.append(('life', m.group(0)))
                i = m.end()
                continue
        m = _ID.match(src, i)
        if m:
            # raw identifier r#name
            if m.group(0) == 'r' and src.startswith('#', m.end()):
                m2 = _ID.match(src, m.end() + 1)
                if m2:
                    toks.append(('id', src[i:m2.end()]))
                    i = m2.end()
                    continue
            toks.append(('id', m.group(0)))
            i = m.end()
            continue
        m = _NUM.match(src, i)
        if m:
            toks.append(('num', m.group(0)))
            i = m.end()
            continue
        toks.append(('p', c))
        i += 1
    return toks


def untok(toks):
    return ''.join(t[1] for t in toks)


TRIVIA = ('ws', 'lc', 'bc')
OPEN = {'(': ')', '[': ']', '{': '}'}
CLOSE = {')': '(', ']': '[', '}': '{'}


def is_p(t, ch):
    return t[0] == 'p' and t[1] == ch


def is_id(t, name=None):
    return t[0] == 'id' and (name is None or t[1] == name)


def next_sig(toks, i):
    """index of the next non-trivia token at or after i (len(toks) if none)"""
    n = len(toks)
    while i < n and toks[i][0] in TRIVIA:
        i += 1
    return i


def prev_sig(toks, i):
    """index of the previous non-trivia token at or before i (-1 if none)"""
    while i >= 0 and toks[i][0] in TRIVIA:
        i -= 1
    return i


def match_close(toks, i):
    """toks[i] is an opening bracket; return index of its matching close"""
    assert toks[i][0] == 'p' and toks[i][1] in OPEN, toks[i]
    stack = []
    n = len(toks)
    j = i
    while j < n:
        t = toks[j]
        if t[0] == 'p':
            if t[1] in OPEN:
                stack.append(t[1])
            elif t[1] in CLOSE:
                if not stack or stack[-1] != CLOSE[t[1]]:
                    raise LexError('bracket mismatch at token %d (%r)' % (j, t[1]))
                stack.pop()
                if not stack:
                    return j
        j += 1
    raise LexError('unclosed bracket from token %d' % i)
