"""Unit files: annotated Verus text = contract lines + regions whose code lines are the mechanical extraction
of items of /repo.  This module parses a unit file, keeps the golden extraction, and weaves the contract lines
into the extraction of the *current* tree (DESIGN.md 2.2 `weave`).

Directives (each on a line of its own, inside /verif/contracts/units/<unit>.rs):
  //@include FILE                      paste /verif/contracts/FILE
  //@props C01 C03                     default property tags for what follows
  //@ob C03 label words                tags for the following contract lines, up to the next code line or directive
  //@extract FILE :: item :: item | opt opt   start of a region; code lines must be the extraction, verbatim
  //@end                               end of the region
A contract line inside a region that could be mistaken for a code line carries a trailing `//@` marker.
"""
import difflib
import json
import os
import re
from . import extract

VERIF = os.path.dirname(os.path.dirname(os.path.abspath(__file__)))
CONTRACTS = os.path.join(VERIF, 'contracts')
UNITS_DIR = os.path.join(CONTRACTS, 'units')
GOLDEN_DIR = os.path.join(CONTRACTS, 'golden')
OUT = os.environ.get('VERIF_OUT', VERIF)
BUILD = os.path.join(OUT, 'build', str(os.getpid()))
REPO = os.environ.get('VERIF_REPO', '/repo')
# names of new helper functions to inline (rule R33), set by check.py for one run
INLINE = set()


class WeaveError(Exception):
    pass


def parse_opts(s):
    opts = {'rules': [], 'skip': [], 'rename': {}, 'opaque_macros': []}
    for w in s.split():
        if w.startswith('rename='):
            for pair in w[len('rename='):].split(','):
                a, b = pair.split(':')
                opts['rename'][a] = b
        elif w.startswith('skip='):
            opts['skip'] += w[len('skip='):].split(',')
        elif w.startswith('opaque='):
            opts['opaque_macros'] += w[len('opaque='):].split(',')
        elif w in ('R29map', 'R29res', 'R32i'):
            opts['rules'].append(w)
        elif re.match(r'^R\d+$', w):
            opts['rules'].append(w)
        elif w.startswith('drain='):
            opts['drain_fn'] = w[len('drain='):]
        elif w.startswith('R28='):
            opts['rules'].append('R28')
            opts['r28_sigs'] = w[len('R28='):].split(',')
        elif re.match(r'^R36=[\w,]+$', w):
            opts['rules'].append('R36')
            opts['r36_names'] = w.split('=')[1].split(',')
        elif re.match(r'^R20=\w+$', w):
            opts['rules'].append('R20')
            opts['r20_type'] = w.split('=')[1]
        else:
            raise WeaveError('unknown region option %r' % w)
    return opts


class Region:
    def __init__(self, file, path, opts_text, lines, start_line):
        self.file = file
        self.path = path
        self.opts_text = opts_text
        self.opts = parse_opts(opts_text)
        self.lines = lines            # annotated lines (code + contract)
        self.start_line = start_line  # line number in the expanded unit text (0-based)
        self.key = file + ' :: ' + ' :: '.join(path)

    def extract_current(self, repo=None):
        repo = repo or REPO
        p = os.path.join(repo, self.file)
        try:
            src = open(p).read()
        except OSError as e:
            raise extract.ExtractError('cannot read %s: %s' % (p, e))
        opts = self.opts
        if INLINE:
            # rule R33 (check.py asks for it after the front end reported unknown functions): only names that the golden
            # extraction of this unit does not define are ever inlined
            opts = dict(self.opts, inline=sorted(INLINE))
        return extract.extract_region(src, self.path, opts)


def expand_includes(path, seen=None):
    """returns list of (text, origin) with origin = (file, lineno)"""
    seen = seen or set()
    out = []
    with open(path) as f:
        for ln, line in enumerate(f.read().split('\n'), 1):
            m = re.match(r'^\s*//@include\s+(\S+)\s*$', line)
            if m:
                inc = os.path.join(CONTRACTS, m.group(1))
                if inc in seen:
                    raise WeaveError('recursive include ' + inc)
                out += expand_includes(inc, seen | {inc})
            else:
                out.append((line.rstrip(), (os.path.relpath(path, VERIF), ln)))
    return out


class Unit:
    def __init__(self, name):
        self.name = name
        self.path = os.path.join(UNITS_DIR, name + '.rs')
        self.items = []   # sequence of ('line', text, origin) | ('region', Region)
        self._parse()

    def _parse(self):
        exp = expand_includes(self.path)
        i = 0
        n = len(exp)
        while i < n:
            text, origin = exp[i]
            m = re.match(r'^\s*//@extract\s+(.*)$', text)
            if m:
                spec, _, opts = m.group(1).partition('|')
                comps = [c.strip() for c in re.split(r'\s::\s', spec)]
                file, path = comps[0], comps[1:]
                j = i + 1
                lines = []
                while j < n and not re.match(r'^\s*//@end\s*$', exp[j][0]):
                    lines.append(exp[j])
                    j += 1
                if j >= n:
                    raise WeaveError('%s:%d: //@extract without //@end' % origin)
                self.items.append(('region', Region(file, path, opts.strip(), lines, i)))
                i = j + 1
                continue
            m = re.match(r'^\s*//@(trusted|watch)\s+(.*)$', text)
            if m:
                comps = [c.strip() for c in re.split(r'\s::\s', m.group(2))]
                props = []
                if m.group(1) == 'watch':
                    # //@watch C20 C15 :: FILE :: item   -- an out-of-reach function these properties depend on
                    props = comps[0].split()
                    comps = comps[1:]
                self.items.append(('trusted', comps[0], comps[1:], origin, props))
                i += 1
                continue
            self.items.append(('line', text, origin))
            i += 1

    def regions(self):
        return [it[1] for it in self.items if it[0] == 'region']

    def trusted_items(self):
        return [(it[1], it[2]) for it in self.items if it[0] == 'trusted']

    def trusted_props(self):
        return {it[1] + ' :: ' + ' :: '.join(it[2]): it[4] for it in self.items if it[0] == 'trusted'}

    def trusted_hashes(self, repo=None):
        """sha256 of the raw text of each trusted (unverified, contract-only) item of /repo"""
        import hashlib
        from . import rtok
        repo = repo or REPO
        out = {}
        for (file, path) in self.trusted_items():
            src = open(os.path.join(repo, file)).read()
            toks = rtok.tokenize(src)
            s0, e0 = extract.find_item(toks, path)
            raw = rtok.untok([t for t in toks[s0:e0 + 1] if t[0] not in ('lc', 'bc', 'ws')])
            out[file + ' :: ' + ' :: '.join(path)] = hashlib.sha256(raw.encode()).hexdigest()
        return out

    # -- golden ------------------------------------------------------------------------------
    def golden_path(self):
        return os.path.join(GOLDEN_DIR, self.name + '.json')

    def load_golden(self):
        try:
            return json.load(open(self.golden_path()))
        except OSError:
            return {}

    def write_golden(self, repo=None):
        g = {}
        for r in self.regions():
            lines, counts, sha = r.extract_current(repo)
            g[r.key] = {'lines': lines, 'rewrites': counts, 'sha256': sha}
        th = self.trusted_hashes(repo)
        if th:
            g['@trusted'] = th
        os.makedirs(GOLDEN_DIR, exist_ok=True)
        with open(self.golden_path(), 'w') as f:
            json.dump(g, f, indent=1, sort_keys=True)
        return g


def _brace_profile(line):
    """(net, lowest prefix) of curly-brace depth over one line, ignoring strings and comments"""
    from . import rtok
    net = 0
    low = 0
    try:
        toks = rtok.tokenize(line)
    except rtok.LexError:
        return 0, 0
    for tk in toks:
        if tk[0] == 'p' and tk[1] == '{':
            net += 1
        elif tk[0] == 'p' and tk[1] == '}':
            net -= 1
            low = min(low, net)
    return net, low


def embed(golden, annotated, rightmost=False):
    """indices in `annotated` of the lines that are the golden (code) lines, or None.
    Among all order-preserving embeddings the one chosen makes every group of inserted lines brace-balanced
    (a contract `}` is never mistaken for a code `}`); ties are resolved leftmost."""
    import sys
    n, m = len(annotated), len(golden)
    prof = [_brace_profile(t) for t in annotated]
    dead = set()
    sys.setrecursionlimit(max(10000, 4 * (n + m) + 100))
    res = []

    def go(j, g, depth):
        if (j, g, depth) in dead:
            return False
        if j == n:
            if g == m and depth == 0:
                return True
            dead.add((j, g, depth))
            return False
        # as a code line
        if depth == 0 and g < m and annotated[j] == golden[g]:
            res.append(j)
            if go(j + 1, g + 1, 0):
                return True
            res.pop()
        # as an inserted line
        net, low = prof[j]
        if depth + low >= 0 and (n - j - 1) >= (m - g):
            if go(j + 1, g, depth + net):
                return True
        dead.add((j, g, depth))
        return False

    if go(0, 0, 0):
        return list(res)
    return None


def position_map(golden, current):
    """pos[k] for k in 0..len(golden): index in `current` before which contract group k is placed"""
    pos = [None] * (len(golden) + 1)
    # lines are aligned modulo indentation: code moved into or out of a block is the same code
    sm = difflib.SequenceMatcher(None, [l.strip() for l in golden], [l.strip() for l in current], autojunk=False)
    for tag, i1, i2, j1, j2 in sm.get_opcodes():
        if tag == 'equal':
            for k in range(i1, i2):
                pos[k] = j1 + (k - i1)
        elif tag == 'replace':
            same = (i2 - i1) == (j2 - j1)
            for k in range(i1, i2):
                pos[k] = j1 + (k - i1) if same else min(j1 + (k - i1), j2)
        elif tag == 'delete':
            for k in range(i1, i2):
                pos[k] = j1
    pos[len(golden)] = len(current)
    for k in range(len(golden)):
        if pos[k] is None:
            pos[k] = pos[k + 1] if k + 1 <= len(golden) and pos[k + 1] is not None else len(current)
    return pos


def _drop_dangling_else(group, prev_code_line):
    """an inserted `else { proof .. }` block only makes sense directly after the `}` of the `if` it was written for;
    when the code changed so that it no longer follows a closing brace, the hint is dropped (changed tree only)"""
    k = 0
    while k < len(group) and (group[k][0].strip() == '' or group[k][0].strip().startswith('//')):
        k += 1
    if k >= len(group) or not group[k][0].strip().startswith('else'):
        return group
    if prev_code_line.strip() == '}':
        return group
    depth = 0
    e = k
    seen_open = False
    while e < len(group):
        net, low = _brace_profile(group[e][0])
        depth += net
        if '{' in group[e][0]:
            seen_open = True
        e += 1
        if seen_open and depth <= 0:
            break
    return group[:k] + group[e:]


def detect_renames(golden_lines, current_lines):
    """local names that were consistently renamed between the golden and the current extraction: {old: new}.
    Evidence: lines replaced one-for-one whose token sequences differ only in identifier tokens; a name counts only if it always maps
    to the same new name, the new name does not occur in the golden text and the old name no longer occurs in the current text."""
    from . import rtok
    cand = {}
    sm = difflib.SequenceMatcher(None, golden_lines, current_lines, autojunk=False)
    for tag, i1, i2, j1, j2 in sm.get_opcodes():
        if tag != 'replace' or (i2 - i1) != (j2 - j1):
            continue
        for d in range(i2 - i1):
            try:
                tg = [t for t in rtok.tokenize(golden_lines[i1 + d]) if t[0] != 'ws']
                tc = [t for t in rtok.tokenize(current_lines[j1 + d]) if t[0] != 'ws']
            except Exception:
                continue
            if len(tg) != len(tc):
                continue
            pairs = [(a, b) for a, b in zip(tg, tc) if a != b]
            if not pairs or not all(a[0] == 'id' and b[0] == 'id' for a, b in pairs):
                continue
            for a, b in pairs:
                cand.setdefault(a[1], set()).add(b[1])

    def idents(lines):
        out = set()
        for l in lines:
            try:
                out |= {t[1] for t in rtok.tokenize(l) if t[0] == 'id'}
            except Exception:
                pass
        return out
    gid, cid = idents(golden_lines), idents(current_lines)
    gtext = '\n'.join(golden_lines)

    def is_local(name):
        # the old name must be *bound* in the golden text: `let [mut] x`, `for x in`, `for (.., x, ..) in`, a parameter `x:` or a closure parameter `|x|`
        n = re.escape(name)
        return bool(re.search(r'\blet\s+(?:mut\s+)?%s\b' % n, gtext) or re.search(r'\blet\s+\(?[^=;]*\b%s\b[^=;]*=' % n, gtext)
                    or re.search(r'\bfor\s+\(?[^{;]*\b%s\b[^{;]*\bin\b' % n, gtext)
                    or re.search(r'[(,]\s*(?:mut\s+)?%s\s*:' % n, gtext) or re.search(r'\|[^|]*\b%s\b[^|]*\|' % n, gtext))
    KEYWORDS = {'true', 'false', 'self', 'Self', 'super', 'crate', 'mut', 'ref', 'move', 'let', 'if', 'else', 'match', 'for', 'while', 'loop',
                'in', 'return', 'break', 'continue', 'fn', 'pub', 'as', 'dyn', 'impl', 'where', 'Some', 'None', 'Ok', 'Err'}
    out = {}
    for a, bs in cand.items():
        b = next(iter(bs))
        if len(bs) == 1 and b not in gid and a not in cid and a not in KEYWORDS and b not in KEYWORDS and a[:1].islower() and b[:1].islower() and is_local(a):
            out[a] = b
    # rule R13 names the ghost iterator of `for x in ..` after x: it follows the rename of x
    for a, b in list(out.items()):
        ia = [k for k in cand if re.match(r'^it_%s\d*$' % re.escape(a), k)]
        for k in ia:
            bs = cand[k]
            if len(bs) == 1 and k not in cid:
                out[k] = next(iter(bs))
    return out


def apply_renames(text, renames):
    from . import rtok
    try:
        toks = rtok.tokenize(text)
    except Exception:
        return text
    return ''.join(renames.get(t[1], t[1]) if t[0] == 'id' else t[1] for t in toks)


def _only_directives(group):
    """a group made only of //@props / //@ob marker lines (they attribute what follows to properties and are never dropped)"""
    return all(re.match(r'^\s*//@(props|ob)\b', t) for (t, _) in group)


def weave_region(region, golden_lines, current_lines, drop_level=0):
    """returns list of (text, kind, origin) with kind in {'code','contract'}.
    drop_level (changed regions only, used after a front-end rejection of the plain weave):
      1 = drop contract groups inside the fn body whose neighbouring code line changed (stale loop invariants / proof hints);
      2 = drop every contract group inside the fn body, keeping the function's requires/ensures."""
    ann = [t for t, _ in region.lines]
    idx = embed(golden_lines, ann)
    if idx is None:
        raise WeaveError('annotated region %s is not the golden extraction plus inserted lines '
                         '(run `vf golden` after a deliberate fix, or repair the unit file)' % region.key)
    code_at = set(idx)
    groups = [[] for _ in range(len(golden_lines) + 1)]
    k = 0
    for j, (t, origin) in enumerate(region.lines):
        if j in code_at:
            k += 1
        else:
            groups[k].append((t, origin))
    pos = position_map(golden_lines, current_lines)
    changed = current_lines != golden_lines
    eq_map = {}
    if changed:
        sm = difflib.SequenceMatcher(None, [l.strip() for l in golden_lines], [l.strip() for l in current_lines], autojunk=False)
        for tag, i1, i2, j1, j2 in sm.get_opcodes():
            if tag == 'equal':
                for d in range(i2 - i1):
                    eq_map[i1 + d] = j1 + d
    renames = detect_renames(golden_lines, current_lines) if changed else {}
    region.renames = renames
    if renames:
        # a consistently renamed local: the contract lines follow the rename (alpha-renaming of a local changes no behaviour)
        groups = [[(apply_renames(t, renames), origin) for (t, origin) in g] for g in groups]
    by_pos = {}
    # the fn body starts at the first golden line that is a lone `{` (rule R13)
    body_open = None
    for k0, gl in enumerate(golden_lines):
        if gl.strip() == '{':
            body_open = k0
            break
    dropped = 0
    if changed and drop_level == 1:
        # level 1 drops the groups next to changed lines -- and, transitively, every in-body group that uses a ghost name
        # declared in a dropped group (otherwise the kept group would not even type-check)
        def adjacent_changed(k):
            prev_ok = k > 0 and eq_map.get(k - 1) == pos[k] - 1
            next_ok = k < len(golden_lines) and eq_map.get(k) == pos[k]
            return not (prev_ok and next_ok)
        in_body_idx = [k for k, g in enumerate(groups) if g and body_open is not None and k > body_open]
        drop_set = {k for k in in_body_idx if adjacent_changed(k)}
        decl_re = re.compile(r'\blet\s+ghost\s+(?:mut\s+)?(\w+)')
        grew = True
        while grew:
            grew = False
            names = set()
            for k in drop_set:
                for (t, _) in groups[k]:
                    names |= set(decl_re.findall(t))
            for k in in_body_idx:
                if k in drop_set:
                    continue
                text = '\n'.join(t for (t, _) in groups[k])
                if any(re.search(r'\b%s\b' % re.escape(nm), text) for nm in names):
                    drop_set.add(k)
                    grew = True
        transitive_drop = drop_set
    else:
        transitive_drop = None
    for k, g in enumerate(groups):
        if g:
            if changed:
                # an inserted `else { .. }` must still directly follow the closing brace it was written after
                prev_ok = k > 0 and eq_map.get(k - 1) == pos[k] - 1
                next_ok = k < len(golden_lines) and eq_map.get(k) == pos[k]
                g = _drop_dangling_else(g, '}' if prev_ok else '')
                in_body = body_open is not None and k > body_open
                if in_body and not _only_directives(g) and (drop_level >= 2 or (drop_level == 1 and k in transitive_drop)):
                    dropped += 1
                    # the property markers of a dropped group stay: they say which property the code that follows belongs to
                    g = [(t, o) for (t, o) in g if re.match(r'^\s*//@props\b', t)]
                    if not g:
                        continue
            by_pos.setdefault(pos[k], []).extend(g)
    region.dropped_groups = dropped
    out = []
    for j, line in enumerate(current_lines):
        grp = by_pos.get(j, [])
        for (t, origin) in grp:
            out.append((t, 'contract', origin))
        out.append((line, 'code', (region.file, region.key, j)))
    for (t, origin) in by_pos.get(len(current_lines), []):
        out.append((t, 'contract', origin))
    return out


class Woven:
    """the generated Verus file for one unit on the current tree"""

    def __init__(self, unit, repo=None, drop_level=0):
        self.unit = unit
        self.drop_level = drop_level
        self.dropped_groups = 0
        self.lines = []      # text
        self.kind = []       # 'contract' | 'code' | 'directive'
        self.origin = []
        self.tags = []       # frozenset of property ids per line
        self.ob_label = []   # label of the enclosing //@ob group, or ''
        self.functions = []  # per region: dict for evidence
        golden = unit.load_golden()
        default = frozenset()
        cur = None
        cur_label = ''

        def emit(text, kind, origin):
            nonlocal default, cur, cur_label
            m = re.match(r'^\s*//@props\s*(.*)$', text)
            if m:
                default = frozenset(m.group(1).split())
                cur, cur_label = None, ''
                kind = 'directive'
            else:
                m = re.match(r'^\s*//@ob\s+(.*)$', text)
                if m:
                    words = m.group(1).split()
                    ids = [w.strip(',') for w in words if re.match(r'^C\d\d,?$', w)]
                    cur = frozenset(ids)
                    cur_label = ' '.join(w for w in words if not re.match(r'^C\d\d,?$', w))
                    kind = 'directive'
                elif kind == 'code':
                    cur, cur_label = None, ''
            self.lines.append(text)
            self.kind.append(kind)
            self.origin.append(origin)
            self.tags.append(cur if (cur is not None and kind != 'code') else default)
            self.ob_label.append(cur_label if kind != 'code' else '')

        self.trusted_changed = []
        if unit.trusted_items():
            cur_th = unit.trusted_hashes(repo)
            gold_th = golden.get('@trusted', {})
            tp = unit.trusted_props()
            for k, v in cur_th.items():
                if gold_th.get(k) != v:
                    self.trusted_changed.append((k, tp.get(k, [])))
        for it in unit.items:
            if it[0] == 'line':
                emit(it[1], 'contract', it[2])
                continue
            if it[0] == 'trusted':
                emit('// trusted by contract (body not verified, hashed): ' + it[1] + ' :: ' + ' :: '.join(it[2]), 'contract', it[3])
                continue
            region = it[1]
            cur_lines, counts, sha = region.extract_current(repo)
            g = golden.get(region.key)
            if g is None:
                raise WeaveError('no golden extraction for region %s (run `vf golden %s`)' % (region.key, unit.name))
            woven = weave_region(region, g['lines'], cur_lines, drop_level)
            self.dropped_groups += getattr(region, 'dropped_groups', 0)
            if getattr(region, 'renames', None):
                self.renames = getattr(self, 'renames', {})
                self.renames[region.key] = region.renames
            for (t, kind, origin) in woven:
                emit(t, kind, origin)
            cur, cur_label = None, ''
            self.functions.append({
                'file': region.file,
                'item': ' :: '.join(region.path),
                'sha256': sha,
                'identical_to_golden': cur_lines == g['lines'],
                'raw_identical_to_golden': sha == g['sha256'],
                'rewrites_fired': counts,
                'code_lines': len(cur_lines),
            })

    def text(self):
        return '\n'.join(self.lines) + '\n'

    def write(self, path=None):
        os.makedirs(BUILD, exist_ok=True)
        path = path or os.path.join(BUILD, self.unit.name + '.rs')
        with open(path, 'w') as f:
            f.write(self.text())
        return path


def lint_unit(unit, repo=None):
    """problems that would make weaving ambiguous or stale; returns list of strings"""
    problems = []
    golden = unit.load_golden()
    for r in unit.regions():
        g = golden.get(r.key)
        if g is None:
            problems.append('%s: no golden' % r.key)
            continue
        ann = [t for t, _ in r.lines]
        a = embed(g['lines'], ann)
        if a is None:
            problems.append('%s: annotated region is not golden + insertions' % r.key)
            # find first golden line that is missing
            j = 0
            for gl in g['lines']:
                while j < len(ann) and ann[j] != gl:
                    j += 1
                if j >= len(ann):
                    problems.append('   first golden line not found in order: %r' % gl)
                    break
                j += 1
            continue
    return problems
