"""`vf check ID --tier quick|thorough`: decide one property on /repo's current working tree.

exit 0: every obligation of the property was discharged (KNOWN-FINDING lines may be printed)
exit 1: `VIOLATION property=<id> replay=<path> [no-failing-input-found]`
exit 2: `UNDECIDED property=<id> reason=...` (front-end rejection, lost item, rlimit, missing tool) -- never an alarm
"""
import concurrent.futures
import difflib
import hashlib
import json
import os
import re
import sys
import time

from . import extract, unit as U, runner

VERIF = U.VERIF
CONFIG = os.path.join(VERIF, 'contracts', 'properties.json')
KNOWN = os.path.join(VERIF, 'known_findings.json')
EVIDENCE = os.path.join(U.OUT, 'evidence')
REPLAYS = os.path.join(U.OUT, 'replays')

TRUST_RE = re.compile(r'external_body|assume_specification|\baxiom\s+fn\b|external_type_specification|#\[verifier::external\]')
FORBIDDEN_RE = re.compile(r'\bassume\s*\(|\badmit\s*\(')
NAME_RE = re.compile(r'\b(?:fn|struct|enum|trait|type)\s+([A-Za-z_][A-Za-z0-9_]*)|assume_specification\s*(?:<[^\[]*>)?\s*\[\s*([^\]]+)\]')


def load_config():
    return json.load(open(CONFIG))


def scan_trusted(woven):
    """names of trusted items in the generated file; raises on assume/admit"""
    out = []
    n = len(woven.lines)
    for i, line in enumerate(woven.lines):
        code = line.split('//')[0]
        if FORBIDDEN_RE.search(code):
            raise U.WeaveError('forbidden assume/admit at generated line %d: %s' % (i + 1, line.strip()))
        if TRUST_RE.search(code):
            if woven.kind[i] == 'code':
                raise U.WeaveError('trusted-item marker inside extracted code at generated line %d' % (i + 1))
            name = None
            for k in range(i, min(n, i + 6)):
                m = NAME_RE.search(woven.lines[k].split('//')[0])
                if m:
                    name = m.group(1) or m.group(2)
                    break
            kind = TRUST_RE.search(code).group(0).replace('#[verifier::', '').replace(']', '')
            origin = woven.origin[i][0] if woven.origin[i] else '?'
            out.append('%s %s (%s)' % (kind.strip(), (name or '?').strip(), origin))
    return sorted(set(out))


def run_unit(name, rlimit=None, seed=None, timeout=900, prop=None):
    """weave + verify one unit.  If the plain weave is rejected by the front end AND the extracted code differs from golden,
    retry with contract lines attached to changed code dropped (levels 1, 2): the function contracts stay, stale loop
    invariants / proof hints go.  A unit verified that way is as good as any; one that then fails is reported as a
    violation of the obligations that no longer hold (DESIGN.md section 8, Brittleness)."""
    U.INLINE = set()
    r = _run_unit_level(name, 0, rlimit, seed, timeout, prop)
    if r['status'] == 'undecided' and r.get('frontend') and r.get('changed'):
        # rule R33: the changed code calls functions the unit does not know -- new helpers of the same file are inlined at their call sites
        inl = set()
        for _ in range(3):
            names = set(re.findall(r'cannot find function `(\w+)`', r['reason'] or '')) | set(re.findall(r'no method named `(\w+)` found', r['reason'] or '')) \
                | set(re.findall(r'no function or associated item named `(\w+)`', r['reason'] or ''))
            names -= inl
            if not names:
                break
            inl |= names
            U.INLINE = set(inl)
            r_in = _run_unit_level(name, 0, rlimit, seed, timeout, prop)
            r_in['inlined_helpers'] = sorted(inl)
            if r_in['status'] in ('ok', 'failed'):
                return r_in
            if not (r_in['status'] == 'undecided' and r_in.get('frontend')):
                # e.g. the helper has a shape that is not inlined: keep the original answer
                if r_in.get('reason'):
                    r['reason'] = '%s; inlining the new helper(s) %s: %s' % (r['reason'], ', '.join(sorted(inl)), r_in['reason'])
                U.INLINE = set()
                break
            r = dict(r_in, changed=True)
    if r['status'] == 'undecided' and r.get('frontend') and r.get('changed'):
        last = None
        for level in (1, 2):
            r2 = _run_unit_level(name, level, rlimit, seed, timeout, prop)
            if r2['status'] in ('ok', 'failed'):
                r2['fallback_level'] = level
                r2['fallback_reason'] = r['reason']
                return r2
            last = r2
        if last is not None and last.get('reason') and last['reason'] != r['reason']:
            # with every contract line inside the changed bodies dropped the front end still rejects the unit: that message names
            # the construct in the changed *code* that is outside the verifier's subset
            r['reason'] = '%s; with all in-body contract lines dropped: %s' % (r['reason'], last['reason'])
    return r


def _run_unit_level(name, drop_level, rlimit=None, seed=None, timeout=900, prop=None):
    r = {'unit': name, 'status': None, 'reason': None, 'woven': None, 'analysis': None, 'res': None, 'trusted': [],
         'fallback_level': 0}
    try:
        u = U.Unit(name)
        w = U.Woven(u, drop_level=drop_level)
        r['changed'] = any(not f['identical_to_golden'] for f in w.functions)
        r['woven'] = w
        r['trusted'] = scan_trusted(w)
        changed_here = [k for (k, props) in w.trusted_changed if not props or prop is None or prop in props]
        if changed_here:
            r['status'] = 'undecided'
            r['reason'] = ('a function that is NOT verified but whose behaviour this property assumes (trusted helper / out of reach) '
                           'changed: ' + '; '.join(changed_here))
            return r
        path = w.write()
    except (extract.ExtractError, U.WeaveError, extract.rtok.LexError) as e:
        r['status'] = 'undecided'
        r['reason'] = '%s: %s' % (type(e).__name__, e)
        return r
    except OSError as e:
        r['status'] = 'undecided'
        r['reason'] = 'OSError: %s' % e
        return r
    res = runner.run_verus(path, rlimit=rlimit, seed=seed, timeout=timeout)
    a = runner.analyse(res, w)
    r['res'] = res
    r['analysis'] = a
    # vacuity guard: the number of verified functions/lemmas and of tagged clauses must not fall below the committed baseline
    try:
        base = json.load(open(os.path.join(VERIF, 'contracts', 'baseline.json'))).get(name)
    except (OSError, ValueError):
        base = None
    if base and a['status'] in ('ok', 'failed'):
        tagged_now = sum(1 for l in w.lines if l.lstrip().startswith('//@ob'))
        if a['verified'] + a['errors'] < base['verified'] or (drop_level == 0 and tagged_now < base['tagged_clauses']):
            r['status'] = 'undecided'
            r['reason'] = 'fewer obligations than the committed baseline (%d functions, %d tagged clauses; baseline %d, %d)' % (
                a['verified'] + a['errors'], tagged_now, base['verified'], base['tagged_clauses'])
            return r
    if a['status'] == 'ok':
        r['status'] = 'ok'
    elif a['status'] == 'failed':
        r['status'] = 'failed'
    else:
        r['status'] = 'undecided'
        r['frontend'] = a['status'] == 'frontend'
        msgs = [f.message for f in a['frontend_errors'][:3]]
        r['reason'] = 'verus %s: %s' % (a['status'], '; '.join(msgs) or (res['raw_err'][-300:] if res else ''))
    return r


def load_known():
    try:
        return json.load(open(KNOWN)).get('findings', [])
    except OSError:
        return []


def match_known(prop, unit_name, f, known):
    for k in known:
        if k.get('property') != prop or k.get('status') != 'open':
            continue
        m = k.get('match', {})
        if m.get('engine') or not m.get('unit') or not m.get('function'):
            # a finding of another engine, or one that does not name the obligation: it never suppresses a Verus failure
            continue
        if m.get('unit') and m['unit'] != unit_name:
            continue
        if m.get('function') and m['function'] != f.function:
            continue
        if m.get('label') and m['label'] not in f.labels:
            continue
        if m.get('clause_contains') and m['clause_contains'] not in f.clause:
            continue
        if m.get('message') and m['message'] not in f.message:
            continue
        return k
    return None


def region_diffs(woven):
    """unified diffs golden -> current for regions whose extraction changed"""
    out = []
    if woven is None:
        return out
    golden = woven.unit.load_golden()
    for r in woven.unit.regions():
        try:
            cur, _, _ = r.extract_current()
        except Exception as e:   # noqa
            out.append({'region': r.key, 'error': str(e)})
            continue
        g = golden.get(r.key, {}).get('lines', [])
        if g != cur:
            d = list(difflib.unified_diff(g, cur, 'golden:' + r.key, 'current:' + r.key, lineterm='', n=2))
            out.append({'region': r.key, 'diff': d[:200]})
    return out


def slug(s):
    return re.sub(r'[^A-Za-z0-9]+', '-', s).strip('-')[:60]


def ob_samples(woven, prop, limit=6):
    """a few obligations of this property, written out: label + clause text"""
    out = []
    n = len(woven.lines)
    for i, line in enumerate(woven.lines):
        m = re.match(r'^\s*//@ob\s+(.*)$', line)
        if m and prop in m.group(1).replace(',', ' ').split():
            clause = []
            for k in range(i + 1, min(n, i + 4)):
                if woven.kind[k] != 'contract':
                    break
                clause.append(woven.lines[k].strip())
            out.append({'unit': woven.unit.name, 'label': m.group(1), 'clause': ' '.join(clause)[:300]})
    return out[:limit]


def count_tagged(woven, prop):
    c = 0
    for line in woven.lines:
        m = re.match(r'^\s*//@ob\s+(.*)$', line)
        if m and prop in m.group(1).replace(',', ' ').split():
            c += 1
    return c


def lemma_samples(woven, prop, limit=4):
    out = []
    for i, line in enumerate(woven.lines):
        m = re.match(r'^\s*pub\s+proof\s+fn\s+([A-Za-z0-9_]+)', line)
        if m and prop in woven.tags[i]:
            out.append({'unit': woven.unit.name, 'lemma': m.group(1)})
    return out[:limit]


def write_json(path, obj):
    os.makedirs(os.path.dirname(path), exist_ok=True)
    tmp = path + '.tmp'
    with open(tmp, 'w') as f:
        json.dump(obj, f, indent=1, sort_keys=True)
        f.write('\n')
    os.replace(tmp, path)


def main(argv):
    import atexit
    import shutil
    atexit.register(lambda: shutil.rmtree(U.BUILD, ignore_errors=True))
    if not argv:
        print(__doc__)
        return 2
    prop = argv[0]
    tier = os.environ.get('VERIF_TIER', 'quick')
    replay = None
    i = 1
    while i < len(argv):
        if argv[i] == '--tier':
            tier = argv[i + 1]
            i += 2
        elif argv[i] == '--replay':
            replay = argv[i + 1]
            i += 2
        else:
            i += 1
    try:
        seed = int(os.environ.get('VERIF_SEED', '0'))
    except ValueError:
        seed = 0
    cfg = load_config()
    if prop not in cfg['properties']:
        print('UNDECIDED property=%s reason=not-claimed (see MANIFEST.not_applicable)' % prop)
        return 2
    pc = cfg['properties'][prop]
    if replay:
        from . import replay as R
        return R.replay(prop, replay)
    t0 = time.time()
    units = list(pc['units'])
    results = []
    with concurrent.futures.ThreadPoolExecutor(max_workers=min(8, max(1, len(units)))) as ex:
        futs = [ex.submit(run_unit, u, pc.get('rlimit'), None, 900, prop) for u in units]
        results = [f.result() for f in futs]

    extra = []   # results of additional engines (kani, stability seeds, probes)
    if pc.get('kani'):
        from . import kani
        for h in pc['kani']:
            extra.append(kani.run(h, prop))
    if pc.get('dyn'):
        from . import dyn
        lazy = False
        if os.environ.get('VERIF_DYN_LAZY'):
            # canary runs only need to know WHETHER the check alarms: when Verus already reports a violation of this property the
            # bounded executions (a minute each for the git kinds) are skipped; the normal checks never set this
            kn = load_known()
            for r in results:
                if r['status'] in ('ok', 'failed') and r['analysis']:
                    for f in r['analysis']['failures']:
                        if not f.is_rlimit and prop in f.props and not match_known(prop, r['unit'], f, kn):
                            lazy = True
        for h in pc['dyn']:
            if lazy:
                extra.append({'engine': h['engine'], 'harness': h['engine'], 'bounded': True, 'skipped': 'VERIF_DYN_LAZY: Verus already reports a violation',
                              'obligations': 0, 'discharged': 0, 'violations': [], 'undecided': []})
            else:
                extra.append(dyn.run(h, prop, tier))
    if tier == 'thorough':
        from . import thorough
        extra += thorough.run(prop, pc, results, seed)

    known = load_known()
    violations = []
    known_hits = []
    undecided = []
    obligations = 0
    discharged = 0
    functions = []
    trusted = set()
    samples = []
    solver_ms = {}
    tagged = 0
    checker_cmds = []
    fuc = []
    for r in results:
        if r['woven'] is not None:
            fuc += [dict(f, unit=r['unit']) for f in r['woven'].functions]
        trusted |= set(r['trusted'])
        if r['status'] == 'undecided':
            undecided.append('%s: %s' % (r['unit'], r['reason']))
            continue
        a = r['analysis']
        checker_cmds.append(r['res']['cmd'])
        obligations += a['verified'] + a['errors']
        discharged += a['verified']
        tagged += count_tagged(r['woven'], prop)
        samples += ob_samples(r['woven'], prop)
        samples += lemma_samples(r['woven'], prop)
        for fn in a['functions']:
            solver_ms[fn['function']] = fn['ms']
        rl = [f for f in a['failures'] if f.is_rlimit]
        definite = [f for f in a['failures'] if not f.is_rlimit]
        for f in definite:
            if prop not in f.props:
                continue
            k = match_known(prop, r['unit'], f, known)
            if k:
                known_hits.append((k, r, f))
            else:
                violations.append((r, f))
        for f in rl:
            if prop in f.props or not f.props:
                undecided.append('%s: resource limit in %s' % (r['unit'], f.function))
    bounded_run = bounded_passed = 0
    for e in extra:
        if e.get('bounded') and e.get('skipped'):
            continue
        if e.get('bounded'):
            # a bounded execution is never counted among the proof obligations
            bounded_run += 1
            bounded_passed += 1 if (e.get('discharged') and not e.get('known_hits')) else 0
        else:
            obligations += e.get('obligations', 0)
            discharged += e.get('discharged', 0)
        trusted |= set(e.get('trusted', []))
        samples += e.get('samples', [])
        if e.get('cmd'):
            checker_cmds.append(e['cmd'])
        for v in e.get('violations', []):
            k = None
            for kf in known:
                if kf.get('property') == prop and kf.get('status') == 'open' and kf.get('match', {}).get('engine') == e.get('engine') \
                        and kf['match'].get('harness') == v.get('harness'):
                    k = kf
            if k:
                known_hits.append((k, None, v))
            else:
                violations.append((None, v))
        for sig, n in (e.get('known_hits') or {}).items():
            for kf in known:
                if kf.get('property') == prop and kf.get('status') == 'open' and (kf.get('match') or {}).get('signature') == sig:
                    known_hits.append((kf, None, {'signature': sig, 'scenarios': n}))
        undecided += e.get('undecided', [])
        for wmsg in e.get('warnings', []):
            print('WARNING property=%s %s' % (prop, wmsg))

    wall = time.time() - t0
    rc = 0
    lines = []
    replay_paths = []
    for (k, r, f) in known_hits:
        lines.append('KNOWN-FINDING: property=%s %s' % (prop, k.get('what', k.get('id', ''))))
    for (r, f) in violations:
        if r is None:
            # engine-provided violation (Kani): has its own replay payload
            path = os.path.join(REPLAYS, '%s-%s.json' % (prop, slug(f.get('harness', 'x'))))
            write_json(path, dict(f, property=prop, tier=tier))
            suffix = '' if f.get('counterexample') else ' no-failing-input-found'
            lines.append('VIOLATION property=%s replay=%s%s' % (prop, path, suffix))
            replay_paths.append(path)
            continue
        ob = '%s::%s::%s' % (r['unit'], f.function, f.labels[0] if f.labels else f.message)
        path = os.path.join(REPLAYS, '%s-%s.json' % (prop, slug(ob)))
        payload = {
            'property': prop, 'tier': tier,
            'failed_obligation': {'unit': r['unit'], 'function': f.function, 'labels': f.labels, 'kind': f.message,
                                  'clause': f.clause, 'properties_tagged': sorted(f.props)},
            'verifier': 'verus ' + str(r['analysis'].get('verus_version')),
            'verifier_output': f.rendered,
            'verifier_cmd': r['res']['cmd'],
            'source_changes_vs_golden': region_diffs(r['woven']),
            'counterexample': None,
            'weave_fallback_level': r.get('fallback_level', 0),
            'weave_fallback_note': ('the plain weave was rejected by the front end (%s); contract lines attached to changed code '
                                    'were dropped (level %d) and the function contract could not be re-established' % (r.get('fallback_reason'), r.get('fallback_level', 0))) if r.get('fallback_level') else None,
            'note': 'Verus produces no model; the obligation above was discharged on the committed tree and fails on this one. '
                    'Re-run: ./check %s --replay %s' % (prop, path),
        }
        if path in replay_paths:
            # several failures of the same obligation kind in one function: one replay file, one line
            try:
                prev = json.load(open(path))
                prev.setdefault('further_failures', []).append({'kind': f.message, 'clause': f.clause, 'labels': f.labels})
                write_json(path, prev)
            except (OSError, ValueError):
                pass
            continue
        write_json(path, payload)
        replay_paths.append(path)
        lines.append('VIOLATION property=%s replay=%s no-failing-input-found' % (prop, path))
    if violations:
        rc = 1
    elif undecided:
        rc = 2
        for u in undecided:
            lines.append('UNDECIDED property=%s reason=%s' % (prop, u.replace('\n', ' ')[:400]))

    # vacuity guard: a run that generated no obligations proves nothing
    if rc == 0 and obligations == 0:
        rc = 2
        lines.append('UNDECIDED property=%s reason=no obligations were generated' % prop)

    ev = {
        'property_id': prop,
        'tier': tier,
        'seed': seed,
        'level': pc.get('level', 'proof'),
        'wall_s': round(wall, 2),
        'violations': len(violations),
        'coverage': {
            'obligations': obligations,
            'discharged': discharged,
            'obligation_unit': 'one per exec function / proof lemma as counted by Verus (verified+errors); loop-free full-domain Kani harnesses counted one each; bounded executions are NOT counted here (see bounded_checks_run / bounded_checks_passed)',
            'bounded_checks_run': bounded_run,
            'bounded_checks_passed': bounded_passed,
            'tagged_clauses_for_property': tagged,
            'checker_cmd': ' && '.join(checker_cmds) if checker_cmds else 'none',
            'trusted_base': sorted(trusted),
            'samples': samples[:12] or [{'note': 'no tagged clause in the units run'}],
            'functions_under_contract': fuc,
            'solver_ms': solver_ms,
            'units': [{'unit': r['unit'], 'status': r['status'], 'reason': r['reason'],
                       'verified': (r['analysis'] or {}).get('verified'), 'errors': (r['analysis'] or {}).get('errors'),
                       'wall_s': round(r['res']['wall_s'], 2) if r['res'] else None,
                       'smt_ms': (r['analysis'] or {}).get('smt_ms'),
                       'weave_fallback_level': r.get('fallback_level', 0),
                       'verus': (r['analysis'] or {}).get('verus_version')} for r in results],
            'other_engines': [{k: v for k, v in e.items() if k not in ('violations',)} for e in extra],
            'known_findings_reported': [k.get('id') for (k, _, _) in known_hits],
            'undecided': undecided,
            'out_of_reach': pc.get('out_of_reach', []),
            'bounded': [e for e in extra if e.get('bounded')],
            'replays': replay_paths,
        },
        'assumptions': pc.get('assumptions', []) + cfg.get('common_assumptions', []),
    }
    write_json(os.path.join(EVIDENCE, prop + '.json'), ev)
    for l in lines:
        print(l)
    print('%s %s: %d/%d obligations discharged%s, %d violation(s), %d known finding(s), %.1fs%s' % (
        prop, tier, discharged, obligations,
        ('; bounded executions (not proofs) %d/%d passed' % (bounded_passed, bounded_run)) if bounded_run else '',
        len(violations), len(known_hits), wall,
        ' [UNDECIDED]' if rc == 2 else ''))
    return rc
