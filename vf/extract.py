"""Mechanical extraction of items from /repo's current source text, plus the closed list of syntactic
rewrites (DESIGN.md section 2.2) that bring them into the language subset Verus accepts.

Every rewrite is token-level, local, and counted.  Anything outside the list raises ExtractError, which the
driver reports as UNDECIDED (exit 2), never as a violation.
"""
import hashlib
import re
from . import rtok
from .rtok import is_p, is_id, next_sig, prev_sig, match_close, TRIVIA


class ExtractError(Exception):
    pass


ITEM_KW = ('fn', 'enum', 'struct', 'trait', 'mod', 'const', 'static', 'type', 'impl', 'use')
QUALIFIERS = ('pub', 'async', 'unsafe', 'const', 'extern', 'default')


def _norm(s):
    return re.sub(r'\s+', '', s)


def _item_end(toks, k):
    """k indexes the item keyword; return index of last token of the item (closing brace or semicolon)."""
    n = len(toks)
    j = k + 1
    while j < n:
        t = toks[j]
        if t[0] == 'p':
            if t[1] == ';':
                return j
            if t[1] == '{':
                return match_close(toks, j)
            if t[1] in '([':
                j = match_close(toks, j)
        j += 1
    raise ExtractError('item without end')


def _item_start(toks, k, lo):
    """walk back from keyword index k over qualifiers, attributes and doc comments; not below lo"""
    i = k
    while True:
        p = prev_sig(toks, i - 1)
        if p < lo:
            break
        t = toks[p]
        if t[0] == 'id' and t[1] in QUALIFIERS:
            i = p
            continue
        if is_p(t, ')'):
            # pub(crate) / pub(super) / pub(in path)
            q = p
            depth = 0
            while q >= lo:
                if is_p(toks[q], ')'):
                    depth += 1
                elif is_p(toks[q], '('):
                    depth -= 1
                    if depth == 0:
                        break
                q -= 1
            pp = prev_sig(toks, q - 1)
            if pp >= lo and is_id(toks[pp], 'pub'):
                i = pp
                continue
            break
        if t[0] == 'str' and p - 1 >= lo:
            # extern "C"
            pp = prev_sig(toks, p - 1)
            if pp >= lo and is_id(toks[pp], 'extern'):
                i = pp
                continue
            break
        if is_p(t, ']'):
            q = p
            depth = 0
            while q >= lo:
                if is_p(toks[q], ']'):
                    depth += 1
                elif is_p(toks[q], '['):
                    depth -= 1
                    if depth == 0:
                        break
                q -= 1
            pp = prev_sig(toks, q - 1)
            if pp >= lo and is_p(toks[pp], '#'):
                i = pp
                continue
            break
        break
    # swallow doc comments / attributes already handled; leave ordinary comments out
    return i


def _scan_items(toks, lo, hi):
    """yield (kw_index, kind, header_text) for items directly inside toks[lo:hi] (bracket depth 0)"""
    j = lo
    while j < hi:
        t = toks[j]
        if t[0] == 'p' and t[1] in rtok.OPEN:
            j = match_close(toks, j) + 1
            continue
        if t[0] == 'id' and t[1] in ITEM_KW:
            kind = t[1]
            # `const fn`, `const` qualifier: the next significant token decides
            nx = next_sig(toks, j + 1)
            if kind == 'const' and nx < hi and is_id(toks[nx]) and toks[nx][1] in ('fn', 'unsafe', 'async', 'extern'):
                j += 1
                continue
            if kind == 'unsafe':
                j += 1
                continue
            if kind == 'fn' and not (nx < hi and toks[nx][0] == 'id'):
                j += 1
                continue
            if kind == 'impl':
                # header = text up to '{'
                e = j + 1
                while e < hi and not is_p(toks[e], '{'):
                    if toks[e][0] == 'p' and toks[e][1] in '([':
                        e = match_close(toks, e)
                    e += 1
                header = 'impl' + _norm(rtok.untok([x for x in toks[j + 1:e] if x[0] not in ('lc', 'bc')]))
                header = 'impl ' + header[4:]
            else:
                header = kind + ' ' + (toks[nx][1] if nx < hi else '')
            end = _item_end(toks, j)
            yield (j, kind, header, end)
            j = end + 1
            continue
        j += 1


def find_item(toks, path):
    """path: list of headers like 'impl SyncOp', 'fn transform'.  Returns (start, end) token indices (inclusive)."""
    lo, hi = 0, len(toks)
    start = end = None
    for depth, comp in enumerate(path):
        comp = comp.strip()
        if comp.startswith('impl') and comp[4:5] in ('<', ' '):
            kind, rest = 'impl', comp[4:]
        else:
            kind, _, rest = comp.partition(' ')
        want = kind + ' ' + _norm(rest)
        # optional "#n" suffix selects the n-th match (1-based)
        nth = 1
        m = re.match(r'^(.*)#(\d+)$', want)
        if m:
            want, nth = m.group(1), int(m.group(2))
        found = None
        seen = 0
        for (k, knd, header, e) in _scan_items(toks, lo, hi):
            h = knd + ' ' + _norm(header[len(knd):])
            if h == want:
                seen += 1
                if seen == nth:
                    found = (k, e)
                    break
        if not found:
            raise ExtractError('item not found: %s (component %r)' % (' :: '.join(path), comp))
        k, e = found
        start = _item_start(toks, k, lo)
        end = e
        if depth + 1 < len(path):
            # descend into the body
            b = k
            while b <= e and not is_p(toks[b], '{'):
                if toks[b][0] == 'p' and toks[b][1] in '([':
                    b = match_close(toks, b)
                b += 1
            if b > e:
                raise ExtractError('no body to descend into: %r' % comp)
            lo, hi = b + 1, match_close(toks, b)
    return start, end


# ------------------------------------------------------------------------------------------------
# rewrites.  Each takes (toks, counts) and returns a new token list.

LOG_MACROS = ('trace', 'debug', 'info', 'warn', 'error')


def _line_indent(toks, i):
    """indentation (string of spaces) of the line on which token i starts"""
    j = i - 1
    while j >= 0:
        t = toks[j]
        if '\n' in t[1]:
            if t[0] == 'ws':
                return t[1].rsplit('\n', 1)[1]
            return ''
        j -= 1
    # first line: leading ws token?
    if toks and toks[0][0] == 'ws':
        return toks[0][1]
    return ''


def strip_comments(toks, counts):
    out = [t for t in toks if t[0] not in ('lc', 'bc')]
    return out


def r1_async(toks, counts):
    out = []
    i = 0
    n = len(toks)
    while i < n:
        t = toks[i]
        if is_id(t, 'async'):
            nx = next_sig(toks, i + 1)
            if nx < n and (is_id(toks[nx], 'fn') or is_id(toks[nx], 'unsafe')):
                counts['R1'] = counts.get('R1', 0) + 1
                i = nx
                continue
            raise ExtractError('R1: async block/closure is outside the subset')
        if is_p(t, '.'):
            nx = next_sig(toks, i + 1)
            if nx < n and is_id(toks[nx], 'await'):
                # side condition: directly after a call expression or `?`
                p = prev_sig(out, len(out) - 1)
                if p < 0 or not (out[p][0] == 'p' and out[p][1] in ')?'):
                    raise ExtractError('R1: .await not directly after a call expression')
                # drop whitespace/newline between the call and `.await`
                while out and out[-1][0] == 'ws':
                    out.pop()
                counts['R1'] = counts.get('R1', 0) + 1
                i = nx + 1
                continue
        out.append(t)
        i += 1
    return out


def _drop_stmt(out, toks, i_end):
    """remove trailing whitespace already emitted on this line; return index after the statement's `;`"""
    nx = next_sig(toks, i_end + 1)
    if nx < len(toks) and is_p(toks[nx], ';'):
        i_end = nx
    # eat emitted indentation back to the newline
    if out and out[-1][0] == 'ws' and '\n' in out[-1][1]:
        ws = out.pop()[1]
        out.append(('ws', ws[:ws.rfind('\n') + 1]))
    return i_end + 1


def r2_logging(toks, counts):
    out = []
    i = 0
    n = len(toks)
    while i < n:
        t = toks[i]
        if t[0] == 'id' and t[1] in LOG_MACROS + ('log',):
            j = i
            if t[1] == 'log':
                # log::trace!(..)
                a = next_sig(toks, i + 1)
                b = next_sig(toks, a + 1) if a < n else n
                c = next_sig(toks, b + 1) if b < n else n
                if a < n and b < n and c < n and is_p(toks[a], ':') and is_p(toks[b], ':') and toks[c][0] == 'id' and toks[c][1] in LOG_MACROS:
                    j = c
                else:
                    out.append(t)
                    i += 1
                    continue
            bang = next_sig(toks, j + 1)
            if bang < n and is_p(toks[bang], '!'):
                op = next_sig(toks, bang + 1)
                if op < n and is_p(toks[op], '('):
                    cl = match_close(toks, op)
                    # must be a statement: previous significant token is `;`, `{`, `}` or start
                    p = prev_sig(out, len(out) - 1)
                    if p >= 0 and not (out[p][0] == 'p' and out[p][1] in ';{}'):
                        raise ExtractError('R2: logging macro in expression position')
                    counts['R2'] = counts.get('R2', 0) + 1
                    i = _drop_stmt(out, toks, cl)
                    # also swallow the newline that followed the statement
                    continue
        out.append(t)
        i += 1
    return out


def r3_format(toks, counts, names=('format',)):
    out = []
    i = 0
    n = len(toks)
    while i < n:
        t = toks[i]
        if t[0] == 'id' and t[1] in names:
            bang = next_sig(toks, i + 1)
            if bang < n and is_p(toks[bang], '!'):
                op = next_sig(toks, bang + 1)
                if op < n and toks[op][0] == 'p' and toks[op][1] in '([{':
                    cl = match_close(toks, op)
                    counts['R3'] = counts.get('R3', 0) + 1
                    out.append(('id', 'opaque_string'))
                    out.append(('p', '('))
                    out.append(('p', ')'))
                    i = cl + 1
                    continue
        out.append(t)
        i += 1
    return out


def r32_format_prefixed(toks, counts, infix=False):
    """opt-in: `format!("LIT{name}")` / `format!("LIT{}", E)` -- a literal prefix followed by ONE placeholder at the very end --
    -> `fmt_prefixed("LIT", &name)` / `fmt_prefixed("LIT", &(E))`: the text is the prefix followed by the Display text of the value
    (what `format!` means for this shape).  Runs before R3, which makes every other `format!` opaque."""
    out = []
    i = 0
    n = len(toks)
    while i < n:
        t = toks[i]
        if is_id(t, 'format'):
            bang = next_sig(toks, i + 1)
            if bang < n and is_p(toks[bang], '!'):
                op = next_sig(toks, bang + 1)
                if op < n and is_p(toks[op], '('):
                    cl = match_close(toks, op)
                    inner = [x for x in toks[op + 1:cl] if x[0] not in TRIVIA]
                    if inner and inner[0][0] == 'str' and inner[0][1].startswith('"'):
                        lit = inner[0][1][1:-1]
                        m = re.match(r'^([^{}\\]*)\{([A-Za-z_][A-Za-z0-9_]*)?\}$', lit)
                        suffix = ''
                        if not m and infix:
                            # region option R32i: one placeholder followed by a literal -> fmt_infixed("PRE", &E, "SUF")
                            m = re.match(r'^([^{}\\]*)\{([A-Za-z_][A-Za-z0-9_]*)?\}([^{}\\]+)$', lit)
                            suffix = m.group(3) if m else ''
                        if m:
                            prefix, name = m.group(1), m.group(2)
                            arg = None
                            if name and len(inner) == 1:
                                arg = name
                            elif not name and len(inner) >= 3 and is_p(inner[1], ','):
                                a0 = next(k for k in range(op + 1, cl) if is_p(toks[k], ','))
                                arg = '(' + _flat(toks[a0 + 1:cl]).rstrip(',').strip() + ')'
                            if arg is not None and suffix:
                                out += rtok.tokenize('fmt_infixed("%s", &%s, "%s")' % (prefix, arg, suffix))
                                counts['R32'] = counts.get('R32', 0) + 1
                                i = cl + 1
                                continue
                            if arg is not None:
                                out += rtok.tokenize('fmt_prefixed("%s", &%s)' % (prefix, arg))
                                counts['R32'] = counts.get('R32', 0) + 1
                                i = cl + 1
                                continue
        out.append(t)
        i += 1
    return out


def r3b_anyhow_macro(toks, counts):
    """what R21 leaves: `anyhow::anyhow!(..)` -> `opaque_anyhow_val()` (an error value whose text is irrelevant)"""
    out = []
    i = 0
    n = len(toks)
    while i < n:
        t = toks[i]
        if is_id(t, 'anyhow') and i + 3 < n and is_p(toks[i + 1], ':') and is_p(toks[i + 2], ':') and is_id(toks[i + 3], 'anyhow'):
            bang = next_sig(toks, i + 4)
            if bang < n and is_p(toks[bang], '!'):
                op = next_sig(toks, bang + 1)
                if op < n and toks[op][0] == 'p' and toks[op][1] in '([{':
                    # `anyhow::anyhow!(..)`: an error value whose text is irrelevant
                    cl = match_close(toks, op)
                    counts['R3'] = counts.get('R3', 0) + 1
                    out += [('id', 'opaque_anyhow_val'), ('p', '('), ('p', ')')]
                    i = cl + 1
                    continue
        out.append(t)
        i += 1
    return out


def r4_ref_patterns(toks, counts):
    """inside match-arm patterns (before `=>` / guard `if`), `&Path {` / `&Path (` -> `Path {` / `Path (` when the
    `&` directly follows `(` or `,` (i.e. a component of a tuple pattern)."""
    out = list(toks)
    n = len(out)
    drop = set()
    i = 0
    while i < n:
        if is_id(out[i], 'match'):
            # find body brace at depth 0
            j = i + 1
            while j < n and not is_p(out[j], '{'):
                if out[j][0] == 'p' and out[j][1] in '([':
                    j = match_close(out, j)
                j += 1
            if j >= n:
                break
            end = match_close(out, j)
            k = j + 1
            in_pat = True
            while k < end:
                t = out[k]
                if in_pat:
                    if is_p(t, '=') and k + 1 < end and is_p(out[k + 1], '>'):
                        in_pat = False
                        k += 2
                        # skip the arm expression: either a block or up to the next `,` at depth 0
                        e = next_sig(out, k)
                        if e < end and is_p(out[e], '{'):
                            k = match_close(out, e) + 1
                            e2 = next_sig(out, k)
                            if e2 < end and is_p(out[e2], ','):
                                k = e2 + 1
                        else:
                            while k < end and not is_p(out[k], ','):
                                if out[k][0] == 'p' and out[k][1] in rtok.OPEN:
                                    k = match_close(out, k)
                                k += 1
                            k += 1
                        in_pat = True
                        continue
                    if is_id(t, 'if'):
                        # guard: skip to `=>`
                        while k < end and not (is_p(out[k], '=') and is_p(out[k + 1], '>')):
                            if out[k][0] == 'p' and out[k][1] in rtok.OPEN:
                                k = match_close(out, k)
                            k += 1
                        continue
                    if is_p(t, '&'):
                        p = prev_sig(out, k - 1)
                        nx = next_sig(out, k + 1)
                        if p >= 0 and out[p][0] == 'p' and out[p][1] in '(,' and nx < end and out[nx][0] == 'id' and out[nx][1][0].isupper():
                            # path then `{` or `(`
                            q = nx
                            while True:
                                q2 = next_sig(out, q + 1)
                                if q2 < end and is_p(out[q2], ':'):
                                    q3 = next_sig(out, q2 + 1)
                                    q4 = next_sig(out, q3 + 1)
                                    if is_p(out[q3], ':') and out[q4][0] == 'id':
                                        q = q4
                                        continue
                                break
                            q2 = next_sig(out, q + 1)
                            if q2 < end and out[q2][0] == 'p' and out[q2][1] in '{(':
                                drop.add(k)
                                counts['R4'] = counts.get('R4', 0) + 1
                k += 1
            # nested matches inside arms are handled by continuing the outer scan
        i += 1
    return [t for idx, t in enumerate(out) if idx not in drop]


def _is_mut_ref_param(toks, name):
    """is `name` declared in this item as `name: &mut ..` / `name: &'a mut ..` (a fn parameter)?"""
    n = len(toks)
    for i, t in enumerate(toks):
        if is_id(t, name):
            a = next_sig(toks, i + 1)
            if a < n and is_p(toks[a], ':'):
                b = next_sig(toks, a + 1)
                if b < n and is_p(toks[b], '&'):
                    c = next_sig(toks, b + 1)
                    if c < n and toks[c][0] == 'life':
                        c = next_sig(toks, c + 1)
                    if c < n and is_id(toks[c], 'mut'):
                        return True
    return False


def r5_drain(toks, counts, map_fn='drain_map'):
    """`X.drain(..)` -> `drain_all(&mut X)` where X is a field/ident path; `X.drain()` -> `drain_map(&mut X)`"""
    out = []
    i = 0
    n = len(toks)
    while i < n:
        t = toks[i]
        if is_p(t, '.'):
            nx = next_sig(toks, i + 1)
            if nx < n and is_id(toks[nx], 'drain'):
                op = next_sig(toks, nx + 1)
                if op < n and is_p(toks[op], '('):
                    cl = match_close(toks, op)
                    inner = [x for x in toks[op + 1:cl] if x[0] not in TRIVIA]
                    full = len(inner) == 2 and is_p(inner[0], '.') and is_p(inner[1], '.')
                    empty = len(inner) == 0
                    if full or empty:
                        # pull the receiver (the whole postfix expression, `?` included) back out of `out`
                        j = len(out) - 1
                        while j >= 0 and out[j][0] == 'ws':
                            j -= 1
                        recv_end = j
                        try:
                            j = _postfix_start(out, recv_end)
                        except ExtractError:
                            raise ExtractError('R5: drain receiver is not a postfix expression')
                        recv = out[j:recv_end + 1]
                        del out[j:]
                        out.append(('id', 'drain_all' if full else map_fn))
                        out.append(('p', '('))
                        if not (len(recv) == 1 and _is_mut_ref_param(toks, recv[0][1])):
                            out.append(('p', '&'))
                            out.append(('id', 'mut'))
                            out.append(('ws', ' '))
                        out.extend(recv)
                        out.append(('p', ')'))
                        counts['R5'] = counts.get('R5', 0) + 1
                        i = cl + 1
                        continue
        out.append(t)
        i += 1
    return out


def r6_attributes(toks, counts):
    """remove #[...] and #![...] attributes; an item under #[cfg(test)] is removed entirely"""
    out = []
    i = 0
    n = len(toks)
    while i < n:
        t = toks[i]
        if is_p(t, '#'):
            nx = next_sig(toks, i + 1)
            if nx < n and is_p(toks[nx], '!'):
                nx = next_sig(toks, nx + 1)
            if nx < n and is_p(toks[nx], '['):
                cl = match_close(toks, nx)
                text = _norm(rtok.untok(toks[nx:cl + 1]))
                counts['R6'] = counts.get('R6', 0) + 1
                if text == '[cfg(test)]':
                    # remove the following item/statement as well
                    k = next_sig(toks, cl + 1)
                    # skip further attributes
                    while k < n and is_p(toks[k], '#'):
                        b = next_sig(toks, k + 1)
                        k = next_sig(toks, match_close(toks, b) + 1)
                    if k >= n:
                        raise ExtractError('R6: cfg(test) attribute without item')
                    first = toks[k]
                    nx2 = next_sig(toks, k + 1)
                    if (first[0] == 'id' and first[1] in BLOCKLIKE) or is_p(first, '{'):
                        # a statement that is a block-like expression (`if let .. { .. }`): it ends with its last block
                        e = _stmts(toks, k, n)[0][1] - 1
                    elif first[0] == 'id' and first[1] not in ITEM_KW + ('let', 'pub') and nx2 < n and is_p(toks[nx2], ':') \
                            and not (nx2 + 1 < n and is_p(toks[nx2 + 1], ':')):
                        # a field of a struct declaration or of a struct literal: up to and including its comma
                        e = nx2
                        while e < n and not is_p(toks[e], ',') and not is_p(toks[e], '}'):
                            if toks[e][0] == 'p' and toks[e][1] in rtok.OPEN:
                                e = match_close(toks, e)
                            e += 1
                        if e < n and is_p(toks[e], '}'):
                            e -= 1
                    else:
                        # find keyword
                        kk = k
                        while kk < n and not (toks[kk][0] == 'id' and toks[kk][1] in ITEM_KW + ('let',)):
                            kk += 1
                        if kk >= n:
                            raise ExtractError('R6: cfg(test) attribute without item')
                        if is_id(toks[kk], 'let'):
                            e = kk
                            while e < n and not is_p(toks[e], ';'):
                                if toks[e][0] == 'p' and toks[e][1] in rtok.OPEN:
                                    e = match_close(toks, e)
                                e += 1
                        else:
                            e = _item_end(toks, kk)
                    i = e + 1
                else:
                    i = cl + 1
                # eat indentation emitted before the attribute and the newline after it
                if out and out[-1][0] == 'ws' and '\n' in out[-1][1]:
                    ws = out.pop()[1]
                    out.append(('ws', ws[:ws.rfind('\n') + 1]))
                continue
        out.append(t)
        i += 1
    return out


def r7_visibility(toks, counts):
    out = []
    i = 0
    n = len(toks)
    while i < n:
        t = toks[i]
        out.append(t)
        if is_id(t, 'pub'):
            nx = next_sig(toks, i + 1)
            if nx < n and is_p(toks[nx], '('):
                cl = match_close(toks, nx)
                inner = [x for x in toks[nx + 1:cl] if x[0] not in TRIVIA]
                if inner and inner[0][0] == 'id' and inner[0][1] in ('crate', 'super', 'in', 'self'):
                    counts['R7'] = counts.get('R7', 0) + 1
                    i = cl + 1
                    continue
        i += 1
    return out


def r7b_struct_pub(toks, counts):
    """struct items: the struct and all its fields become `pub` (Verus needs spec-visible fields)"""
    n = len(toks)
    k = next_sig(toks, 0)
    # find the `struct` keyword at depth 0 before any bracket
    j = k
    while j < n and not (is_id(toks[j], 'struct') or is_id(toks[j], 'enum')):
        if toks[j][0] == 'p' and toks[j][1] in rtok.OPEN:
            return toks
        j += 1
    if j >= n:
        return toks
    ins = set()   # token indices before which `pub ` is inserted
    p = prev_sig(toks, j - 1)
    if not (p >= 0 and is_id(toks[p], 'pub')):
        ins.add(j)
    if is_id(toks[j], 'enum'):
        out = []
        for idx, t in enumerate(toks):
            if idx in ins:
                out.append(('id', 'pub'))
                out.append(('ws', ' '))
                counts['R7'] = counts.get('R7', 0) + 1
            out.append(t)
        return out
    # body
    b = j + 1
    while b < n and not (toks[b][0] == 'p' and toks[b][1] in '{(;'):
        b += 1
    if b < n and toks[b][1] in '{(':
        close = match_close(toks, b)
        tuple_struct = toks[b][1] == '('
        i = b + 1
        start_of_field = True
        while i < close:
            t = toks[i]
            if t[0] in TRIVIA:
                i += 1
                continue
            if start_of_field:
                if not is_id(t, 'pub'):
                    ins.add(i)
                start_of_field = False
            if t[0] == 'p' and t[1] in rtok.OPEN:
                i = match_close(toks, i) + 1
                continue
            if is_p(t, '<'):
                # skip generic arguments (commas inside are not field separators)
                depth = 0
                while i < close:
                    if is_p(toks[i], '<'):
                        depth += 1
                    elif is_p(toks[i], '>'):
                        depth -= 1
                        if depth == 0:
                            break
                    elif toks[i][0] == 'p' and toks[i][1] in rtok.OPEN:
                        i = match_close(toks, i)
                    i += 1
                i += 1
                continue
            if is_p(t, ','):
                start_of_field = True
            i += 1
    if not ins:
        return toks
    out = []
    for idx, t in enumerate(toks):
        if idx in ins:
            out.append(('id', 'pub'))
            out.append(('ws', ' '))
            counts['R7'] = counts.get('R7', 0) + 1
        out.append(t)
    return out


def r18_dyn_auto_traits(toks, counts):
    """`dyn Trait + Send (+ Sync)` -> `dyn Trait`: auto-trait markers on trait objects carry no behaviour"""
    out = []
    n = len(toks)
    i = 0
    in_dyn = 0
    while i < n:
        t = toks[i]
        if is_id(t, 'dyn'):
            in_dyn = 1
        elif in_dyn and t[0] == 'p' and t[1] in '>),;{=':
            in_dyn = 0
        if in_dyn and is_p(t, '+'):
            nx = next_sig(toks, i + 1)
            if nx < n and toks[nx][0] == 'id' and toks[nx][1] in ('Send', 'Sync'):
                while out and out[-1][0] == 'ws':
                    out.pop()
                counts['R18'] = counts.get('R18', 0) + 1
                i = nx + 1
                continue
        out.append(t)
        i += 1
    return out


def r12_context(toks, counts):
    out = []
    i = 0
    n = len(toks)
    while i < n:
        t = toks[i]
        if is_p(t, '.'):
            nx = next_sig(toks, i + 1)
            if nx < n and toks[nx][0] == 'id' and toks[nx][1] in ('context', 'with_context'):
                op = next_sig(toks, nx + 1)
                if op < n and is_p(toks[op], '('):
                    cl = match_close(toks, op)
                    while out and out[-1][0] == 'ws':
                        out.pop()
                    counts['R12'] = counts.get('R12', 0) + 1
                    i = cl + 1
                    continue
        out.append(t)
        i += 1
    return out


def _split_brace(out, indent):
    """make sure the `{` about to be emitted starts on its own line with the given indentation"""
    while out and out[-1][0] == 'ws':
        out.pop()
    out.append(('ws', '\n' + indent))


def r13_binders(toks, counts, ret_name='r'):
    """fn: `-> T` becomes `-> (r: T)`; body braces of fns and loops start on their own line;
    `for P in E` becomes `for P in it_<ident>: E`."""
    out = []
    i = 0
    n = len(toks)
    # positions of `{` that must be split, with indentation
    split_at = {}
    ret_ranges = []   # (start, end) token index ranges of return types to wrap
    for_names = {}    # index of first token of EXPR -> iterator name
    used_names = set()
    j = 0
    while j < n:
        t = toks[j]
        if is_id(t, 'fn'):
            nm = next_sig(toks, j + 1)
            if nm < n and toks[nm][0] == 'id':
                k = next_sig(toks, nm + 1)
                # generics
                if k < n and is_p(toks[k], '<'):
                    depth = 0
                    while k < n:
                        if is_p(toks[k], '<'):
                            depth += 1
                        elif is_p(toks[k], '>') and not (k > 0 and is_p(toks[k - 1], '-')):
                            depth -= 1
                            if depth == 0:
                                break
                        k += 1
                    k = next_sig(toks, k + 1)
                if k < n and is_p(toks[k], '('):
                    cl = match_close(toks, k)
                    a = next_sig(toks, cl + 1)
                    rs = re_ = None
                    if a + 1 < n and is_p(toks[a], '-') and is_p(toks[a + 1], '>'):
                        rs = next_sig(toks, a + 2)
                        e = rs
                        while e < n and not (is_p(toks[e], '{') or is_p(toks[e], ';') or is_id(toks[e], 'where')):
                            if toks[e][0] == 'p' and toks[e][1] in '([':
                                e = match_close(toks, e)
                            e += 1
                        re_ = prev_sig(toks, e - 1)
                        a = e
                    # skip where clause
                    while a < n and not (is_p(toks[a], '{') or is_p(toks[a], ';')):
                        if toks[a][0] == 'p' and toks[a][1] in '([':
                            a = match_close(toks, a)
                        a += 1
                    if a < n and (is_p(toks[a], '{') or is_p(toks[a], ';')):
                        # bodiless declarations (trait methods): the `;` goes on its own line too
                        split_at[a] = _line_indent(toks, j)
                        if rs is not None:
                            ret_ranges.append((rs, re_))
        elif is_id(t, 'for'):
            # loop iff an `in` appears at depth 0 before `{`
            k = j + 1
            pos_in = None
            while k < n and not is_p(toks[k], '{') and not is_p(toks[k], ';'):
                if toks[k][0] == 'p' and toks[k][1] in '([':
                    k = match_close(toks, k)
                elif is_id(toks[k], 'in'):
                    pos_in = k
                    break
                k += 1
            if pos_in is not None:
                pat = [x for x in toks[j + 1:pos_in] if x[0] == 'id' and x[1] not in ('mut', 'ref', '_')]
                base = 'it_' + (pat[0][1] if pat else 'x')
                name = base
                c = 2
                while name in used_names:
                    name = '%s%d' % (base, c)
                    c += 1
                used_names.add(name)
                es = next_sig(toks, pos_in + 1)
                for_names[es] = name
                k = es
                while k < n and not is_p(toks[k], '{'):
                    if toks[k][0] == 'p' and toks[k][1] in '([':
                        k = match_close(toks, k)
                    k += 1
                if k < n:
                    split_at[k] = _line_indent(toks, j)
        elif is_id(t, 'while') or is_id(t, 'loop'):
            k = j + 1
            while k < n and not is_p(toks[k], '{'):
                if toks[k][0] == 'p' and toks[k][1] in '([':
                    k = match_close(toks, k)
                k += 1
            if k < n:
                split_at[k] = _line_indent(toks, j)
        j += 1
    starts = {a: b for a, b in ret_ranges}
    ends = {b for a, b in ret_ranges}
    for idx, t in enumerate(toks):
        if idx in split_at:
            _split_brace(out, split_at[idx])
            counts['R13'] = counts.get('R13', 0) + 1
        if idx in starts:
            out.append(('p', '('))
            out.append(('id', ret_name))
            out.append(('p', ':'))
            out.append(('ws', ' '))
            counts['R13'] = counts.get('R13', 0) + 1
        if idx in for_names:
            out.append(('id', for_names[idx]))
            out.append(('p', ':'))
            out.append(('ws', ' '))
            counts['R13'] = counts.get('R13', 0) + 1
        out.append(t)
        if idx in ends:
            out.append(('p', ')'))
    return out


def r14_rename(toks, counts, mapping):
    out = []
    for t in toks:
        if t[0] == 'id' and t[1] in mapping:
            out.append(('id', mapping[t[1]]))
            counts['R14'] = counts.get('R14', 0) + 1
        else:
            out.append(t)
    return out


def r10_trailing_continue(toks, counts):
    """delete `continue;` when it is the last statement of a block that is itself in tail position of the
    enclosing `for` body (checked structurally: only `}` tokens follow it up to the end of the for body)."""
    out = list(toks)
    n = len(out)
    drop = set()
    i = 0
    while i < n:
        if is_id(out[i], 'for'):
            k = i + 1
            saw_in = False
            while k < n and not is_p(out[k], '{'):
                if out[k][0] == 'p' and out[k][1] in '([':
                    k = match_close(out, k)
                if is_id(out[k], 'in'):
                    saw_in = True
                k += 1
            if saw_in and k < n:
                end = match_close(out, k)
                for c in range(k + 1, end):
                    if is_id(out[c], 'continue'):
                        sc = next_sig(out, c + 1)
                        if sc < end and is_p(out[sc], ';'):
                            # everything after up to `end` must be `}` (closing nested if/else blocks) -- and no
                            # `else` branch may follow a closed block, since that code would still be skipped.
                            q = next_sig(out, sc + 1)
                            ok = True
                            while q < end:
                                if not is_p(out[q], '}'):
                                    ok = False
                                    break
                                q = next_sig(out, q + 1)
                            if ok:
                                drop.update(range(c, sc + 1))
                                counts['R10'] = counts.get('R10', 0) + 1
                            else:
                                raise ExtractError('R10: `continue` is not in tail position of its for body')
        i += 1
    if not drop:
        return out
    res = []
    for idx, t in enumerate(out):
        if idx in drop:
            continue
        res.append(t)
    return res


def r15_impl_trait_args(toks, counts):
    """argument-position `x: impl Trait<..>` -> named type parameter.  Only for fns without existing generics
    list collisions; the new parameters are called P1, P2, ..."""
    out = list(toks)
    n = len(out)
    i = 0
    while i < n:
        if is_id(out[i], 'fn'):
            nm = next_sig(out, i + 1)
            k = next_sig(out, nm + 1)
            gen_insert = None
            has_generics = False
            if k < n and is_p(out[k], '<'):
                has_generics = True
                depth = 0
                g = k
                while g < n:
                    if is_p(out[g], '<'):
                        depth += 1
                    elif is_p(out[g], '>') and not is_p(out[g - 1], '-'):
                        depth -= 1
                        if depth == 0:
                            break
                    g += 1
                gen_insert = g      # insert before the closing '>'
                k = next_sig(out, g + 1)
            if k < n and is_p(out[k], '('):
                cl = match_close(out, k)
                params = []
                j = k + 1
                while j < cl:
                    if is_id(out[j], 'impl'):
                        p = prev_sig(out, j - 1)
                        if is_p(out[p], ':'):
                            # bound runs to the `,` or `)` at depth 0 (angle brackets counted)
                            e = j + 1
                            adepth = 0
                            while e < cl:
                                if out[e][0] == 'p' and out[e][1] in '([':
                                    e = match_close(out, e)
                                elif is_p(out[e], '<'):
                                    adepth += 1
                                elif is_p(out[e], '>') and not is_p(out[e - 1], '-'):
                                    adepth -= 1
                                elif is_p(out[e], ',') and adepth == 0:
                                    break
                                e += 1
                            last = prev_sig(out, e - 1)
                            bound = out[next_sig(out, j + 1):last + 1]
                            params.append((j, last, bound))
                            j = e
                            continue
                    j += 1
                if params:
                    new = list(out[:])
                    # apply from the back so indices stay valid
                    names = []
                    for idx, (a, b, bound) in enumerate(params):
                        names.append('P%d' % (idx + 1))
                    for (a, b, bound), name in reversed(list(zip(params, names))):
                        new[a:b + 1] = [('id', name)]
                    decl = []
                    for (a, b, bound), name in zip(params, names):
                        if decl:
                            decl += [('p', ','), ('ws', ' ')]
                        decl += [('id', name), ('p', ':'), ('ws', ' ')] + bound
                    if has_generics:
                        new[gen_insert:gen_insert] = [('p', ','), ('ws', ' ')] + decl
                    else:
                        new[nm + 1:nm + 1] = [('p', '<')] + decl + [('p', '>')]
                    counts['R15'] = counts.get('R15', 0) + len(params)
                    out = new
                    n = len(out)
        i += 1
    return out


KEYWORDS_STOP = ('return', 'let', 'in', 'if', 'else', 'match', 'while', 'for', 'loop', 'break', 'mut', 'ref', 'move', 'as')


def _postfix_start(out, end):
    """index in `out` where the postfix expression ending at out[end] (inclusive) starts"""
    j = end
    while True:
        while j >= 0 and out[j][0] in TRIVIA:
            j -= 1
        if j < 0:
            raise ExtractError('postfix walker ran off the start')
        t = out[j]
        if t[0] == 'p' and t[1] in ')]':
            depth = 0
            while j >= 0:
                if out[j][0] == 'p' and out[j][1] in ')]':
                    depth += 1
                elif out[j][0] == 'p' and out[j][1] in '([':
                    depth -= 1
                    if depth == 0:
                        break
                j -= 1
            start = j
            p = prev_sig(out, j - 1)
            if p >= 0 and out[p][0] == 'id' and out[p][1] not in KEYWORDS_STOP:
                j = p
                continue
            if p >= 0 and is_p(out[p], '!'):
                # macro call: name!( .. )
                q = prev_sig(out, p - 1)
                if q >= 0 and out[q][0] == 'id':
                    j = q
                    continue
            return start
        if is_p(t, '?'):
            j -= 1
            continue
        if t[0] in ('id', 'num', 'str', 'chr') and not (t[0] == 'id' and t[1] in KEYWORDS_STOP):
            start = j
            p = prev_sig(out, j - 1)
            if p >= 0 and is_p(out[p], '.'):
                j = p - 1
                continue
            if p >= 1 and is_p(out[p], ':') and is_p(out[p - 1], ':'):
                j = p - 2
                continue
            return start
        raise ExtractError('postfix walker: unexpected token %r' % (t,))


def r16_into(toks, counts):
    """`E.into()` -> `into_conv(E)` (E = the whole postfix expression before `.into()`)"""
    out = []
    i = 0
    n = len(toks)
    while i < n:
        t = toks[i]
        if is_p(t, '.'):
            nx = next_sig(toks, i + 1)
            if nx < n and is_id(toks[nx], 'into'):
                op = next_sig(toks, nx + 1)
                if op < n and is_p(toks[op], '('):
                    cl = match_close(toks, op)
                    if all(x[0] in TRIVIA for x in toks[op + 1:cl]):
                        end = len(out) - 1
                        start = _postfix_start(out, end)
                        recv = out[start:]
                        while recv and recv[-1][0] == 'ws':
                            recv.pop()
                        del out[start:]
                        out.append(('id', 'into_conv'))
                        out.append(('p', '('))
                        out.extend(recv)
                        out.append(('p', ')'))
                        counts['R16'] = counts.get('R16', 0) + 1
                        i = cl + 1
                        continue
        out.append(t)
        i += 1
    return out


def r17_flatten_options(toks, counts):
    """`E.iter().filter_map(|x| *x).collect()` -> `flatten_options(&E)`: the Some-values of a list of options"""
    out = []
    i = 0
    n = len(toks)
    pat = ['.', 'iter', '(', ')', '.', 'filter_map', '(', '|', None, '|', '*', None, ')', '.', 'collect', '(', ')']
    while i < n:
        t = toks[i]
        if is_p(t, '.'):
            # try to match the pattern on significant tokens
            j = i
            ok = True
            names = []
            for want in pat:
                j = next_sig(toks, j)
                if j >= n:
                    ok = False
                    break
                if want is None:
                    if toks[j][0] != 'id':
                        ok = False
                        break
                    names.append(toks[j][1])
                elif toks[j][1] != want:
                    ok = False
                    break
                j += 1
            if ok and names[0] == names[1]:
                end = len(out) - 1
                start = _postfix_start(out, end)
                recv = out[start:]
                while recv and recv[-1][0] == 'ws':
                    recv.pop()
                del out[start:]
                out += [('id', 'flatten_options'), ('p', '('), ('p', '&')] + recv + [('p', ')')]
                counts['R17'] = counts.get('R17', 0) + 1
                i = j
                continue
        out.append(t)
        i += 1
    return out


def r19_box_as_mut(toks, counts):
    """`X.as_mut()` -> `&mut *X` for an identifier X holding a Box, `E.as_mut()` -> `&mut *(E)` for a postfix expression E such as
    `self.storage.txn()?` (opt-in; the definition of Box::as_mut)"""
    out = []
    i = 0
    n = len(toks)
    while i < n:
        t = toks[i]
        if is_p(t, '.'):
            b = next_sig(toks, i + 1)
            c = next_sig(toks, b + 1) if b < n else n
            d = next_sig(toks, c + 1) if c < n else n
            if d < n and is_id(toks[b], 'as_mut') and is_p(toks[c], '(') and is_p(toks[d], ')'):
                try:
                    start = _postfix_start(out, len(out) - 1)
                except ExtractError:
                    start = None
                if start is not None:
                    recv = out[start:]
                    while recv and recv[-1][0] == 'ws':
                        recv.pop()
                    del out[start:]
                    sig = [x for x in recv if x[0] not in TRIVIA]
                    if len(sig) == 1:
                        out += [('p', '&'), ('id', 'mut'), ('ws', ' '), ('p', '*')] + recv
                    else:
                        out += [('p', '&'), ('id', 'mut'), ('ws', ' '), ('p', '*'), ('p', '(')] + recv + [('p', ')')]
                    counts['R19'] = counts.get('R19', 0) + 1
                    i = d + 1
                    continue
        out.append(t)
        i += 1
    return out


def r21_map_err_anyhow(toks, counts):
    """`.map_err(|e| anyhow::anyhow!(..))` -> `.map_err(opaque_anyhow)`: the closure only decorates the error value"""
    out = []
    i = 0
    n = len(toks)
    while i < n:
        t = toks[i]
        if is_id(t, 'map_err'):
            op = next_sig(toks, i + 1)
            if op < n and is_p(toks[op], '('):
                cl = match_close(toks, op)
                inner = [x for x in toks[op + 1:cl] if x[0] not in TRIVIA]
                texts = [x[1] for x in inner]
                if len(texts) >= 8 and texts[0] == '|' and texts[2] == '|' and texts[3:8] == ['anyhow', ':', ':', 'anyhow', '!']:
                    out.append(t)
                    out += [('p', '('), ('id', 'opaque_anyhow'), ('p', ')')]
                    counts['R21'] = counts.get('R21', 0) + 1
                    i = cl + 1
                    continue
        out.append(t)
        i += 1
    return out


def r22_asref_str_params(toks, counts):
    """`x: impl AsRef<str>` -> `x: &str` and `x.as_ref()` -> `x`: the instance of the generic function at the argument
    type its callers use (`&str`, for which `as_ref` is the identity)"""
    n = len(toks)
    names = []
    out = []
    i = 0
    pat = ['impl', 'AsRef', '<', 'str', '>']
    while i < n:
        t = toks[i]
        if t[0] == 'id':
            a = next_sig(toks, i + 1)
            if a < n and is_p(toks[a], ':'):
                j = a
                ok = True
                for want in pat:
                    j = next_sig(toks, j + 1)
                    if j >= n or toks[j][1] != want:
                        ok = False
                        break
                if ok:
                    names.append(t[1])
                    out += [t, ('p', ':'), ('ws', ' '), ('p', '&'), ('id', 'str')]
                    counts['R22'] = counts.get('R22', 0) + 1
                    i = j + 1
                    continue
        out.append(t)
        i += 1
    if not names:
        return toks
    res = []
    i = 0
    n = len(out)
    while i < n:
        t = out[i]
        if t[0] == 'id' and t[1] in names:
            a = next_sig(out, i + 1)
            b = next_sig(out, a + 1) if a < n else n
            c = next_sig(out, b + 1) if b < n else n
            d = next_sig(out, c + 1) if c < n else n
            if d < n and is_p(out[a], '.') and is_id(out[b], 'as_ref') and is_p(out[c], '(') and is_p(out[d], ')'):
                res.append(t)
                counts['R22'] = counts.get('R22', 0) + 1
                i = d + 1
                continue
        res.append(t)
        i += 1
    return res


def r23_split_or_pattern_guard(toks, counts):
    """match arm `A | B if G => E` -> `A if G => E` followed by `B if G => E` (Verus rejects or-pattern + guard).
    The guard is evaluated for the alternative that matched in both forms; E is duplicated verbatim."""
    n = len(toks)
    i = 0
    while i < n:
        if is_id(toks[i], 'match'):
            j = i + 1
            while j < n and not is_p(toks[j], '{'):
                if toks[j][0] == 'p' and toks[j][1] in '([':
                    j = match_close(toks, j)
                j += 1
            if j >= n:
                break
            end = match_close(toks, j)
            k = j + 1
            while k < end:
                a0 = next_sig(toks, k)
                if a0 >= end:
                    break
                # pattern up to `=>`
                q = a0
                bars = []
                guard_at = None
                while q < end and not (is_p(toks[q], '=') and is_p(toks[q + 1], '>')):
                    if toks[q][0] == 'p' and toks[q][1] in rtok.OPEN:
                        q = match_close(toks, q)
                    elif is_p(toks[q], '|') and guard_at is None:
                        bars.append(q)
                    elif is_id(toks[q], 'if') and guard_at is None:
                        guard_at = q
                    q += 1
                arrow = q
                b0 = next_sig(toks, arrow + 2)
                if b0 < end and is_p(toks[b0], '{'):
                    b1 = match_close(toks, b0)
                    c = next_sig(toks, b1 + 1)
                    if c < end and is_p(toks[c], ','):
                        b1 = c
                else:
                    b1 = b0
                    while b1 < end and not is_p(toks[b1], ','):
                        if toks[b1][0] == 'p' and toks[b1][1] in rtok.OPEN:
                            b1 = match_close(toks, b1)
                        b1 += 1
                if bars and guard_at is not None:
                    # alternatives
                    cuts = [a0] + [b + 1 for b in bars]
                    ends = bars + [guard_at]
                    alts = [toks[cuts[x]:ends[x]] for x in range(len(cuts))]
                    rest = toks[guard_at:b1 + 1]
                    lead = []
                    # indentation before the arm
                    ws = toks[a0 - 1] if a0 > 0 and toks[a0 - 1][0] == 'ws' else ('ws', '\n')
                    new = []
                    for x, alt in enumerate(alts):
                        al = list(alt)
                        while al and al[0][0] == 'ws':
                            al.pop(0)
                        while al and al[-1][0] == 'ws':
                            al.pop()
                        if x > 0:
                            new.append(('ws', '\n' + ws[1].rsplit('\n', 1)[-1]))
                        new += al + [('ws', '\n' + ws[1].rsplit('\n', 1)[-1] + '    ')] + rest
                    toks = toks[:a0] + new + toks[b1 + 1:]
                    counts['R23'] = counts.get('R23', 0) + 1
                    n = len(toks)
                    end = match_close(toks, j)
                    k = a0 + len(new)
                    continue
                k = b1 + 1
        i += 1
    return toks


STMT_KW = ('if', 'match', 'for', 'while', 'loop', 'unsafe')


def r24_name_tail_expr(toks, counts):
    """the tail expression `E` of the outermost fn body becomes `let r_tail = E;` followed by `r_tail`
    (so that proof steps can follow the last call); a no-op on behaviour"""
    n = len(toks)
    # outermost fn body
    i = 0
    while i < n and not is_id(toks[i], 'fn'):
        i += 1
    k = i
    while k < n and not is_p(toks[k], '{'):
        if toks[k][0] == 'p' and toks[k][1] in '([':
            k = match_close(toks, k)
        k += 1
    if k >= n:
        return toks
    end = match_close(toks, k)
    j = k + 1
    stmt_start = next_sig(toks, j)
    starts_with_kw = False
    while j < end:
        t = toks[j]
        if t[0] in TRIVIA:
            j += 1
            continue
        if j == stmt_start:
            starts_with_kw = t[0] == 'id' and t[1] in STMT_KW
        if is_p(t, ';'):
            stmt_start = next_sig(toks, j + 1)
            j += 1
            continue
        if t[0] == 'p' and t[1] in rtok.OPEN:
            c = match_close(toks, j)
            if t[1] == '{' and starts_with_kw:
                nx = next_sig(toks, c + 1)
                if nx < end and not (is_id(toks[nx], 'else') or (toks[nx][0] == 'p' and toks[nx][1] in '.?;,')):
                    stmt_start = nx
                elif nx >= end:
                    return toks   # the tail is a block statement: nothing to name
            j = c + 1
            continue
        j += 1
    if stmt_start >= end:
        return toks
    last = prev_sig(toks, end - 1)
    if is_p(toks[last], ';') or is_p(toks[last], '}'):
        return toks
    ind = _line_indent(toks, stmt_start)
    new = toks[:stmt_start] + [('id', 'let'), ('ws', ' '), ('id', 'r_tail'), ('ws', ' '), ('p', '='), ('ws', ' ')] \
        + toks[stmt_start:last + 1] + [('p', ';'), ('ws', '\n' + ind), ('id', 'r_tail')] + toks[last + 1:]
    counts['R24'] = counts.get('R24', 0) + 1
    return new


def r34_vec_sort(toks, counts):
    """statement `X.sort();` (X an identifier) -> `vec_sort(&mut X);`: `[T]::sort` leaves a permutation in ascending order (TRUSTED stand-in)"""
    text = rtok.untok(toks)
    pat = re.compile(r'(?m)^(\s*)([A-Za-z_][A-Za-z0-9_]*)\.sort\(\);')
    text2, k = pat.subn(lambda m: '%svec_sort(&mut %s);' % (m.group(1), m.group(2)), text)
    if k:
        counts['R34'] = counts.get('R34', 0) + k
        return rtok.tokenize(text2)
    return toks


def r35_bsearch_first(toks, counts):
    """`X.binary_search_by_key(&K, |t| t.0)` (the key closure is the projection to the first component) -> `bsearch_by_first(&X, &K)`:
    binary search of a list sorted by its first components (TRUSTED stand-in of the std function for this key closure)"""
    text = rtok.untok(toks)
    pat = re.compile(r'([A-Za-z_][A-Za-z0-9_]*)\.binary_search_by_key\(\s*&([A-Za-z_][A-Za-z0-9_]*)\s*,\s*\|\s*([a-z_][A-Za-z0-9_]*)\s*\|\s*\3\.0\s*\)')
    text2, k = pat.subn(lambda m: 'bsearch_by_first(&%s, &%s)' % (m.group(1), m.group(2)), text)
    if k:
        counts['R35'] = counts.get('R35', 0) + k
        return rtok.tokenize(text2)
    return toks


def r36_hashset_for(toks, counts, names):
    """`for P in NAME {` where NAME (given in the region option R36=NAME) is a std HashSet consumed by value ->
    `for P in hashset_into_vec(NAME) {`: every element once, in an unspecified order (TRUSTED stand-in of HashSet::into_iter)"""
    text = rtok.untok(toks)
    k_all = 0
    for nm in names:
        pat = re.compile(r'(\bfor\s+[^{};]*?\sin\s+)%s(\s*\{)' % re.escape(nm))
        text, k = pat.subn(lambda m: '%shashset_into_vec(%s)%s' % (m.group(1), nm, m.group(2)), text)
        k_all += k
    if k_all:
        counts['R36'] = counts.get('R36', 0) + k_all
        return rtok.tokenize(text)
    return toks


def r25_vec_extend(toks, counts):
    """statement `X.extend(E);` -> `vec_extend(&mut X, E);` for a simple path X (a Vec extended by a Vec):
    `Extend::extend` with a Vec argument appends its elements in order"""
    out = []
    i = 0
    n = len(toks)
    while i < n:
        t = toks[i]
        if is_p(t, '.'):
            nx = next_sig(toks, i + 1)
            if nx < n and is_id(toks[nx], 'extend'):
                op = next_sig(toks, nx + 1)
                if op < n and is_p(toks[op], '('):
                    cl = match_close(toks, op)
                    after = next_sig(toks, cl + 1)
                    if after < n and is_p(toks[after], ';'):
                        j = len(out) - 1
                        while j >= 0 and out[j][0] == 'ws':
                            j -= 1
                        recv_end = j
                        ok = True
                        while j >= 0:
                            if out[j][0] == 'id':
                                p = j - 1
                                while p >= 0 and out[p][0] == 'ws':
                                    p -= 1
                                if p >= 0 and is_p(out[p], '.'):
                                    j = p - 1
                                    while j >= 0 and out[j][0] == 'ws':
                                        j -= 1
                                    continue
                                break
                            ok = False
                            break
                        if ok and j >= 0:
                            pv = prev_sig(out, j - 1)
                            if pv < 0 or (out[pv][0] == 'p' and out[pv][1] in ';{}'):
                                recv = out[j:recv_end + 1]
                                del out[j:]
                                out += [('id', 'vec_extend'), ('p', '(')]
                                if not (len(recv) == 1 and _is_mut_ref_param(toks, recv[0][1])):
                                    out += [('p', '&'), ('id', 'mut'), ('ws', ' ')]
                                out += recv + [('p', ','), ('ws', ' ')] + toks[op + 1:cl] + [('p', ')')]
                                counts['R25'] = counts.get('R25', 0) + 1
                                i = cl + 1
                                continue
        out.append(t)
        i += 1
    return out


def _tail_blocks(toks, b_open, b_close):
    """the block itself plus, recursively, the branch blocks of an if/else chain that is its last statement"""
    out = [(b_open, b_close)]
    j = b_open + 1
    last_if = None
    while j < b_close:
        t = toks[j]
        if t[0] in TRIVIA:
            j += 1
            continue
        if is_id(t, 'if'):
            branches = []
            k = j
            while True:
                b = k + 1
                while b < b_close and not is_p(toks[b], '{'):
                    if toks[b][0] == 'p' and toks[b][1] in '([':
                        b = match_close(toks, b)
                    b += 1
                if b >= b_close:
                    break
                bc = match_close(toks, b)
                branches.append((b, bc))
                nx = next_sig(toks, bc + 1)
                if nx < b_close and is_id(toks[nx], 'else'):
                    n2 = next_sig(toks, nx + 1)
                    if n2 < b_close and is_id(toks[n2], 'if'):
                        k = n2
                        continue
                    if n2 < b_close and is_p(toks[n2], '{'):
                        bc2 = match_close(toks, n2)
                        branches.append((n2, bc2))
                        bc = bc2
                break
            endj = branches[-1][1] if branches else j
            if next_sig(toks, endj + 1) >= b_close:
                last_if = branches
            j = endj + 1
            continue
        if t[0] == 'p' and t[1] in rtok.OPEN:
            j = match_close(toks, j) + 1
            continue
        j += 1
    if last_if:
        for (bo, bc) in last_if:
            out += _tail_blocks(toks, bo, bc)
    return out


def _rewrite_continue_in_block(toks, body_open, body_close, counts):
    """one rewrite inside the block (body_open, body_close), or None"""
    j = body_open + 1
    while j < body_close:
        t = toks[j]
        if t[0] in TRIVIA:
            j += 1
            continue
        if is_id(t, 'if'):
            b = j + 1
            while b < body_close and not is_p(toks[b], '{'):
                if toks[b][0] == 'p' and toks[b][1] in '([':
                    b = match_close(toks, b)
                b += 1
            bc = match_close(toks, b)
            nx = next_sig(toks, bc + 1)
            has_else = nx < body_close and is_id(toks[nx], 'else')
            last = prev_sig(toks, bc - 1)
            if not has_else and is_p(toks[last], ';'):
                c = prev_sig(toks, last - 1)
                if is_id(toks[c], 'continue'):
                    ind = _line_indent(toks, j)
                    rest = toks[bc + 1:body_close]
                    cut_from = c
                    while cut_from - 1 > b and toks[cut_from - 1][0] == 'ws':
                        cut_from -= 1
                    head = toks[:cut_from] + [('ws', '\n' + ind)] + [toks[bc]]
                    rest_sig = [x for x in rest if x[0] not in TRIVIA]
                    if rest_sig:
                        new_rest = []
                        for x in rest:
                            if x[0] == 'ws' and '\n' in x[1]:
                                new_rest.append(('ws', x[1] + '    '))
                            else:
                                new_rest.append(x)
                        while new_rest and new_rest[-1][0] == 'ws':
                            new_rest.pop()
                        tail = [('ws', ' '), ('id', 'else'), ('ws', ' '), ('p', '{')] + new_rest + [('ws', '\n' + ind), ('p', '}')]
                    else:
                        tail = []
                    close_ws = []
                    q = body_close - 1
                    while q >= 0 and toks[q][0] == 'ws':
                        close_ws.insert(0, toks[q])
                        q -= 1
                    counts['R10'] = counts.get('R10', 0) + 1
                    return head + tail + close_ws + toks[body_close:]
            j = bc + 1
            if has_else:
                e = nx + 1
                while e < body_close and not is_p(toks[e], '{'):
                    e += 1
                j = match_close(toks, e) + 1 if e < body_close else body_close
                # else-if chains: keep skipping
                while True:
                    nx2 = next_sig(toks, j)
                    if nx2 < body_close and is_id(toks[nx2], 'else'):
                        e = nx2 + 1
                        while e < body_close and not is_p(toks[e], '{'):
                            e += 1
                        j = match_close(toks, e) + 1 if e < body_close else body_close
                        continue
                    break
            continue
        if is_id(t, 'let'):
            e = j + 1
            else_at = None
            while e < body_close and not is_p(toks[e], ';'):
                if toks[e][0] == 'p' and toks[e][1] in rtok.OPEN:
                    e = match_close(toks, e)
                elif is_id(toks[e], 'else'):
                    else_at = e
                    break
                e += 1
            if else_at is not None:
                b = next_sig(toks, else_at + 1)
                if b < body_close and is_p(toks[b], '{'):
                    bc = match_close(toks, b)
                    semi = next_sig(toks, bc + 1)
                    last = prev_sig(toks, bc - 1)
                    c = prev_sig(toks, last - 1) if is_p(toks[last], ';') else -1
                    if semi < body_close and is_p(toks[semi], ';') and c > b and is_id(toks[c], 'continue'):
                        ind = _line_indent(toks, j)
                        head_pat = toks[j + 1:else_at]
                        while head_pat and head_pat[-1][0] == 'ws':
                            head_pat.pop()
                        else_body = toks[b + 1:c]
                        while else_body and else_body[-1][0] == 'ws':
                            else_body.pop()
                        rest = toks[semi + 1:body_close]
                        new_rest = []
                        for x in rest:
                            if x[0] == 'ws' and '\n' in x[1]:
                                new_rest.append(('ws', x[1] + '    '))
                            else:
                                new_rest.append(x)
                        while new_rest and new_rest[-1][0] == 'ws':
                            new_rest.pop()
                        close_ws = []
                        q = body_close - 1
                        while q >= 0 and toks[q][0] == 'ws':
                            close_ws.insert(0, toks[q])
                            q -= 1
                        counts['R10'] = counts.get('R10', 0) + 1
                        return toks[:j] + [('id', 'if'), ('ws', ' '), ('id', 'let')] + head_pat + [('ws', ' '), ('p', '{')] \
                            + new_rest + [('ws', '\n' + ind), ('p', '}'), ('ws', ' '), ('id', 'else'), ('ws', ' '), ('p', '{')] \
                            + else_body + [('ws', '\n' + ind), ('p', '}')] + close_ws + toks[body_close:]
                    j = bc + 1
                    continue
            j = e + 1
            continue
        if t[0] == 'p' and t[1] in rtok.OPEN:
            j = match_close(toks, j) + 1
            continue
        j += 1
    return None


def r10b_if_continue(toks, counts):
    """inside a `for` body (and, recursively, in branch blocks in tail position of it):
       `if C { S; continue; } REST`            -> `if C { S } else { REST }`
       `let P = E else { S; continue; }; REST` -> `if let P = E { REST } else { S }`
    (Verus has no `continue` in for-loops).  The `if` must have no `else`, and `continue;` must be the last statement."""
    changed = True
    while changed:
        changed = False
        n = len(toks)
        i = 0
        while i < n and not changed:
            if is_id(toks[i], 'for'):
                k = i + 1
                saw_in = False
                while k < n and not is_p(toks[k], '{'):
                    if toks[k][0] == 'p' and toks[k][1] in '([':
                        k = match_close(toks, k)
                    if is_id(toks[k], 'in'):
                        saw_in = True
                    k += 1
                if saw_in and k < n:
                    for (bo, bc) in _tail_blocks(toks, k, match_close(toks, k)):
                        new = _rewrite_continue_in_block(toks, bo, bc, counts)
                        if new is not None:
                            toks = new
                            changed = True
                            break
            i += 1
    return toks


# ---- R10c: remaining `continue`s (nested in if / if-let / match / let-else, not in tail position) -> a skip flag --------------------

BLOCKLIKE = ('if', 'match', 'for', 'while', 'loop', 'unsafe')


def _stmts(toks, a, b):
    """top-level statements of the block interior toks[a:b]: list of (start, end_exclusive)"""
    out = []
    j = a
    while j < b:
        if toks[j][0] in TRIVIA:
            j += 1
            continue
        s = j
        first = toks[j]
        blocklike = (first[0] == 'id' and first[1] in BLOCKLIKE) or is_p(first, '{') or first[0] == 'life'
        k = j
        end = None
        while k < b:
            t = toks[k]
            if t[0] == 'p' and t[1] in rtok.OPEN:
                c = match_close(toks, k)
                if is_p(t, '{') and blocklike:
                    nx = next_sig(toks, c + 1)
                    if nx < b and is_id(toks[nx], 'else'):
                        k = nx + 1
                        continue
                    if nx + 1 < b and is_p(toks[nx], '=') and not (toks[nx + 1][0] == 'p' and toks[nx + 1][1] in '=>'):
                        # the braces of a struct pattern in `if let P { .. } = E {`
                        k = nx + 1
                        continue
                    if nx < b and is_p(toks[nx], ';'):
                        end = nx + 1
                    elif nx < b and (is_p(toks[nx], '.') or is_p(toks[nx], '?')):
                        blocklike = False
                        k = c + 1
                        continue
                    else:
                        end = c + 1
                    break
                k = c + 1
                continue
            if is_p(t, ';'):
                end = k + 1
                break
            k += 1
        if end is None:
            end = b
            while end > s and toks[end - 1][0] in TRIVIA:
                end -= 1
        out.append((s, end))
        j = end
    return out


def _has_continue(toks, a, b):
    """a `continue` of *this* loop in toks[a:b] (those of nested loops do not count); labelled continue -> error"""
    j = a
    while j < b:
        t = toks[j]
        if t[0] == 'id' and t[1] in ('for', 'while', 'loop'):
            k = j + 1
            while k < b and not is_p(toks[k], '{'):
                if toks[k][0] == 'p' and toks[k][1] in '([':
                    k = match_close(toks, k)
                k += 1
            if k < b:
                j = match_close(toks, k) + 1
                continue
        if is_id(t, 'continue'):
            nx = next_sig(toks, j + 1)
            if nx < len(toks) and toks[nx][0] == 'life':
                raise ExtractError('labelled continue')
            return True
        j += 1
    return False


def _indent_more(ts, extra='    '):
    return [(x[0], x[1] + extra) if (x[0] == 'ws' and '\n' in x[1]) else x for x in ts]


def _r10c_block(toks, a, b, flag, ind):
    """rewrite the block interior toks[a:b]; returns the new interior tokens (no `continue` of this loop left)"""
    out = []
    stmts = _stmts(toks, a, b)
    pos = a
    for idx, (s, e) in enumerate(stmts):
        if not _has_continue(toks, s, e):
            out += toks[pos:e]
            pos = e
            continue
        out += toks[pos:s]
        first = toks[s]
        sind = _line_indent(toks, s)
        rest_a = e
        if is_id(first, 'continue'):
            out += rtok.tokenize('%s = true;' % flag)
            # everything after it in this block is unreachable
            ws_tail = []
            q = b
            while q > e and toks[q - 1][0] == 'ws':
                q -= 1
            return out + toks[q:b]
        if is_id(first, 'if') or is_p(first, '{'):
            out += _r10c_branches(toks, s, e, flag)
        elif is_id(first, 'match'):
            out += _r10c_match(toks, s, e, flag)
        elif is_id(first, 'let'):
            out += None or _r10c_let_else(toks, s, e, b, flag, sind)
            # let-else swallows the rest of the block
            q = b
            while q > e and toks[q - 1][0] == 'ws':
                q -= 1
            return out + toks[q:b]
        else:
            raise ExtractError('continue in an unsupported position')
        # the rest of the block runs only when no continue was taken
        q = b
        while q > rest_a and toks[q - 1][0] == 'ws':
            q -= 1
        rest_sig = [x for x in toks[rest_a:q] if x[0] not in TRIVIA]
        if rest_sig:
            inner = _r10c_block(toks, rest_a, q, flag, ind)
            while inner and inner[0][0] == 'ws':
                inner.pop(0)
            out += [('ws', '\n' + sind)] + rtok.tokenize('if !%s {' % flag) + [('ws', '\n' + sind + '    ')] + _indent_more(inner) \
                + [('ws', '\n' + sind), ('p', '}')]
        return out + toks[q:b]
    out += toks[pos:b]
    return out


def _r10c_branches(toks, s, e, flag):
    """an if / else-if / else chain or a bare block: rewrite every branch block"""
    out = []
    j = s
    while j < e:
        t = toks[j]
        if is_p(t, '{'):
            c = match_close(toks, j)
            out.append(t)
            out += _r10c_block(toks, j + 1, c, flag, '')
            out.append(toks[c])
            j = c + 1
            continue
        if t[0] == 'p' and t[1] in '([':
            c = match_close(toks, j)
            out += toks[j:c + 1]
            j = c + 1
            continue
        out.append(t)
        j += 1
    return out


def _r10c_match(toks, s, e, flag):
    # find the match body
    k = s + 1
    while k < e and not is_p(toks[k], '{'):
        if toks[k][0] == 'p' and toks[k][1] in '([':
            k = match_close(toks, k)
        k += 1
    if k >= e:
        raise ExtractError('match without a body')
    c = match_close(toks, k)
    out = toks[s:k + 1]
    j = k + 1
    while j < c:
        # pattern up to `=>` at depth 0
        a0 = j
        while j < c and not (is_p(toks[j], '=') and j + 1 < c and is_p(toks[j + 1], '>')):
            if toks[j][0] == 'p' and toks[j][1] in rtok.OPEN:
                j = match_close(toks, j)
            j += 1
        if j >= c:
            out += toks[a0:c]
            break
        out += toks[a0:j + 2]
        j += 2
        b0 = next_sig(toks, j)
        out += toks[j:b0]
        if is_p(toks[b0], '{'):
            bc = match_close(toks, b0)
            out.append(toks[b0])
            out += _r10c_block(toks, b0 + 1, bc, flag, '')
            out.append(toks[bc])
            j = bc + 1
        else:
            # expression arm up to `,` at depth 0
            q = b0
            while q < c and not is_p(toks[q], ','):
                if toks[q][0] == 'p' and toks[q][1] in rtok.OPEN:
                    q = match_close(toks, q)
                q += 1
            arm = [x for x in toks[b0:q] if x[0] not in TRIVIA]
            if len(arm) == 1 and is_id(arm[0], 'continue'):
                out += rtok.tokenize('{ %s = true; }' % flag)
            elif _has_continue(toks, b0, q):
                raise ExtractError('continue inside a match arm expression')
            else:
                out += toks[b0:q]
            j = q
    out += toks[c:e]
    return out


def _r10c_let_else(toks, s, e, b, flag, sind):
    """`let P = E else { S; continue; }; REST` -> `if let P = E { REST } else { S; FLAG = true; }`"""
    k = s + 1
    else_at = None
    while k < e:
        if toks[k][0] == 'p' and toks[k][1] in rtok.OPEN:
            k = match_close(toks, k)
        elif is_id(toks[k], 'else'):
            else_at = k
            break
        k += 1
    if else_at is None:
        raise ExtractError('continue in an unsupported position (let)')
    bo = next_sig(toks, else_at + 1)
    bc = match_close(toks, bo)
    head = toks[s + 1:else_at]
    while head and head[-1][0] == 'ws':
        head.pop()
    else_body = _r10c_block(toks, bo + 1, bc, flag, '')
    q = b
    while q > e and toks[q - 1][0] == 'ws':
        q -= 1
    rest = _r10c_block(toks, e, q, flag, '')
    while rest and rest[0][0] == 'ws':
        rest.pop(0)
    return [('id', 'if'), ('ws', ' '), ('id', 'let')] + head + [('ws', ' '), ('p', '{'), ('ws', '\n' + sind + '    ')] + _indent_more(rest) \
        + [('ws', '\n' + sind), ('p', '}'), ('ws', ' '), ('id', 'else'), ('ws', ' '), ('p', '{')] + else_body + [('p', '}')]


def r10c_continue_flag(toks, counts):
    """what R10b leaves: a `continue` nested in if / if-let / match arms / let-else inside a `for` body, with code after it.
    The body gets `let mut skip_N = false;`, each such `continue;` becomes `skip_N = true;` and the statements that would have been
    skipped are wrapped in `if !skip_N { .. }` (at every nesting level between the continue and the loop body)."""
    serial = 0
    i = 0
    while i < len(toks):
        if is_id(toks[i], 'for'):
            k = i + 1
            saw_in = False
            while k < len(toks) and not is_p(toks[k], '{'):
                if toks[k][0] == 'p' and toks[k][1] in '([':
                    k = match_close(toks, k)
                if is_id(toks[k], 'in'):
                    saw_in = True
                k += 1
            if saw_in and k < len(toks):
                c = match_close(toks, k)
                try:
                    if _has_continue(toks, k + 1, c):
                        serial += 1
                        flag = 'skip_%d' % serial
                        inner = _r10c_block(toks, k + 1, c, flag, '')
                        ind = _line_indent(toks, i) + '    '
                        toks = toks[:k + 1] + [('ws', '\n' + ind)] + rtok.tokenize('let mut %s = false;' % flag) + inner + toks[c:]
                        counts['R10c'] = counts.get('R10c', 0) + 1
                except ExtractError:
                    pass
        i += 1
    return toks


def r20_rposition(toks, counts, type_name):
    """`E.iter().enumerate().rev().find(|(_, X)| X.M()).map(|(I, _)| I)` -> `rposition_by(&E, TYPE::M)`:
    the index of the last element satisfying the method predicate M (TYPE is given by the region option R20=TYPE)"""
    pat = ['.', 'iter', '(', ')', '.', 'enumerate', '(', ')', '.', 'rev', '(', ')', '.', 'find', '(', '|', '(', '_', ',', None, ')', '|',
           None, '.', None, '(', ')', ')', '.', 'map', '(', '|', '(', None, ',', '_', ')', '|', None, ')']
    out = []
    i = 0
    n = len(toks)
    while i < n:
        t = toks[i]
        if is_p(t, '.'):
            j = i
            ok = True
            names = []
            for want in pat:
                j = next_sig(toks, j)
                if j >= n:
                    ok = False
                    break
                if want is None:
                    if toks[j][0] != 'id':
                        ok = False
                        break
                    names.append(toks[j][1])
                elif toks[j][1] != want:
                    ok = False
                    break
                j += 1
            if ok and names[0] == names[1] and names[3] == names[4]:
                end = len(out) - 1
                start = _postfix_start(out, end)
                recv = out[start:]
                while recv and recv[-1][0] == 'ws':
                    recv.pop()
                del out[start:]
                out += [('id', 'rposition_by'), ('p', '('), ('p', '&')] + recv + [('p', ','), ('ws', ' '), ('id', type_name), ('p', ':'), ('p', ':'), ('id', names[2]), ('p', ')')]
                counts['R20'] = counts.get('R20', 0) + 1
                i = j
                continue
        out.append(t)
        i += 1
    return out


def r9_enumerate(toks, counts):
    """`for (i, P) in E.enumerate() { B }`            ->  `{ let mut i: usize = 0; for P in E { B i += 1; } }`
       `for (i, P) in E.enumerate().skip(N) { B }`    ->  same with the body guarded by `if i >= N { B }`
    side conditions: B contains no `continue`/`break` and does not assign to i."""
    n = len(toks)
    i = 0
    while i < n:
        if is_id(toks[i], 'for'):
            a = next_sig(toks, i + 1)
            if a < n and is_p(toks[a], '('):
                cl = match_close(toks, a)
                inn = next_sig(toks, cl + 1)
                first = next_sig(toks, a + 1)
                comma = next_sig(toks, first + 1)
                if inn < n and is_id(toks[inn], 'in') and toks[first][0] == 'id' and is_p(toks[comma], ','):
                    # find the body brace
                    k = inn + 1
                    while k < n and not is_p(toks[k], '{'):
                        if toks[k][0] == 'p' and toks[k][1] in '([':
                            k = match_close(toks, k)
                        k += 1
                    head = toks[inn + 1:k]
                    sig = [x for x in head if x[0] not in TRIVIA]
                    texts = [x[1] for x in sig]
                    skip_arg = None
                    cut = None
                    # ... . enumerate ( )   or   ... . enumerate ( ) . skip ( N )
                    if texts[-4:] == ['.', 'enumerate', '(', ')']:
                        cut = 4
                    elif len(texts) >= 8 and 'skip' in texts:
                        # locate ". enumerate ( ) . skip (" then argument then ")"
                        for q in range(len(texts) - 6):
                            if texts[q:q + 7] == ['.', 'enumerate', '(', ')', '.', 'skip', '('] and texts[-1] == ')':
                                cut = len(texts) - q
                                skip_arg = sig[q + 7:-1]
                                break
                    if cut is not None:
                        # token index in `head` of the q-th significant token from the end
                        sig_idx = [idx for idx, x in enumerate(head) if x[0] not in TRIVIA]
                        head_keep = head[:sig_idx[len(sig) - cut]]
                        while head_keep and head_keep[-1][0] == 'ws':
                            head_keep.pop()
                        body_close = match_close(toks, k)
                        body = toks[k + 1:body_close]
                        ctr = toks[first][1]
                        for bt_i, bt in enumerate(body):
                            if bt[0] == 'id' and bt[1] in ('continue', 'break'):
                                raise ExtractError('R9: continue/break inside an enumerate loop body')
                            if is_id(bt, ctr):
                                nb = next_sig(body, bt_i + 1)
                                if nb < len(body) and is_p(body[nb], '=') and not (nb + 1 < len(body) and is_p(body[nb + 1], '=')):
                                    raise ExtractError('R9: loop counter assigned in the body')
                        pat = toks[comma + 1:cl]
                        while pat and pat[0][0] == 'ws':
                            pat.pop(0)
                        while pat and pat[-1][0] == 'ws':
                            pat.pop()
                        ind = _line_indent(toks, i)
                        new = []
                        new += [('p', '{'), ('ws', '\n' + ind + '    '), ('id', 'let'), ('ws', ' '), ('id', 'mut'), ('ws', ' '),
                                ('id', ctr), ('p', ':'), ('ws', ' '), ('id', 'usize'), ('ws', ' '), ('p', '='), ('ws', ' '), ('num', '0'), ('p', ';'),
                                ('ws', '\n' + ind + '    ')]
                        new += [('id', 'for'), ('ws', ' ')] + pat + [('ws', ' '), ('id', 'in'), ('ws', ' ')]
                        hk = list(head_keep)
                        while hk and hk[0][0] == 'ws':
                            hk.pop(0)
                        new += hk + [('ws', ' '), ('p', '{')]
                        inner = []
                        for bt in body:
                            if bt[0] == 'ws' and '\n' in bt[1]:
                                inner.append(('ws', bt[1] + '    ' + ('    ' if skip_arg is not None else '')))
                            else:
                                inner.append(bt)
                        # drop trailing ws of body
                        while inner and inner[-1][0] == 'ws':
                            inner.pop()
                        if skip_arg is not None:
                            new += [('ws', '\n' + ind + '        '), ('id', 'if'), ('ws', ' '), ('id', ctr), ('ws', ' '), ('p', '>'), ('p', '='), ('ws', ' ')]
                            new += skip_arg + [('ws', ' '), ('p', '{')]
                            new += inner
                            new += [('ws', '\n' + ind + '        '), ('p', '}')]
                        else:
                            new += inner
                        new += [('ws', '\n' + ind + '        '), ('id', ctr), ('ws', ' '), ('p', '+'), ('p', '='), ('ws', ' '), ('num', '1'), ('p', ';'),
                                ('ws', '\n' + ind + '    '), ('p', '}'), ('ws', '\n' + ind), ('p', '}')]
                        toks = toks[:i] + new + toks[body_close + 1:]
                        n = len(toks)
                        counts['R9'] = counts.get('R9', 0) + 1
                        i += 1
                        continue
        i += 1
    return toks


R26_SOURCES = ('iter', 'into_iter', 'keys', 'values')
R26_ADAPTERS = ('filter', 'map', 'filter_map', 'map_while', 'copied', 'cloned')
R26_TERMINALS = ('collect', 'count', 'for_each', 'all', 'any')


def _flat(toks):
    """token text with comments removed and line breaks collapsed (method chains need no spaces)"""
    out = []
    for t in toks:
        if t[0] in ('lc', 'bc'):
            continue
        if t[0] == 'ws':
            out.append('' if '\n' in t[1] else t[1])
        else:
            out.append(t[1])
    return ''.join(out).strip()


def _parse_closure(arg, allow_path=False):
    """arg: tokens between the parentheses of an adapter call; returns (pattern_text, body_tokens) or None"""
    k = next_sig(arg, 0)
    if k < len(arg) and is_id(arg[k], 'move'):
        k = next_sig(arg, k + 1)
    if allow_path and k < len(arg) and arg[k][0] == 'id' and all(t[0] in TRIVIA or t[0] == 'id' or is_p(t, ':') for t in arg):
        # a function path in place of a closure (`.map_while(SyncOp::from_op)`) is `|v| PATH(v)`
        path = _flat(arg).strip()
        return 'r26_v', rtok.tokenize('%s(r26_v)' % path)
    if k >= len(arg) or not is_p(arg[k], '|'):
        return None
    j = k + 1
    while j < len(arg):
        if arg[j][0] == 'p' and arg[j][1] in '([':
            j = match_close(arg, j)
        elif is_p(arg[j], '|'):
            break
        j += 1
    if j >= len(arg):
        return None
    pat = _flat(arg[k + 1:j])
    body = arg[j + 1:]
    # a `return` or `?` inside the closure leaves the closure, not the enclosing function: not expressible after inlining
    for t in body:
        if is_id(t, 'return') or is_p(t, '?'):
            return None
    if ':' in pat and '::' not in pat:
        return None   # typed closure parameter: keep it simple
    return pat, body


def _body_text(body, indent):
    """the closure body as an expression, re-indented relative to `indent` (multi-line blocks keep their line structure)"""
    txt = ''.join(t[1] for t in body if t[0] not in ('lc', 'bc')).strip()
    lines = txt.split('\n')
    if len(lines) == 1:
        return txt
    rest = lines[1:]
    strip = min((len(l) - len(l.lstrip()) for l in rest if l.strip()), default=0)
    # the closing line of a block body is the least indented one; align it with `indent`
    return '\n'.join([lines[0]] + [indent + l[strip:] if l.strip() else l for l in rest])


R26_STANDIN_SOURCES = ('drain_all', 'drain_map', 'drain_hashmap')


def _r26_parse_stages(toks, j):
    """adapters/terminal following position j; returns (stages, end_index) or (None, j)"""
    n = len(toks)
    stages = []
    while True:
        d = next_sig(toks, j)
        if d >= n or not is_p(toks[d], '.'):
            break
        nm = next_sig(toks, d + 1)
        if nm >= n or toks[nm][0] != 'id' or toks[nm][1] not in R26_ADAPTERS + R26_TERMINALS:
            break
        a = next_sig(toks, nm + 1)
        turbofish = None
        if a + 2 < n and is_p(toks[a], ':') and is_p(toks[a + 1], ':') and is_p(toks[a + 2], '<'):
            depth = 0
            k = a + 2
            while k < n:
                if is_p(toks[k], '<'):
                    depth += 1
                elif is_p(toks[k], '>'):
                    depth -= 1
                    if depth == 0:
                        break
                k += 1
            turbofish = _flat(toks[a + 3:k])
            a = next_sig(toks, k + 1)
        if a >= n or not is_p(toks[a], '('):
            break
        cl = match_close(toks, a)
        stages.append((toks[nm][1], toks[a + 1:cl], turbofish))
        j = cl + 1
        if toks[nm][1] in R26_TERMINALS:
            break
    if not stages or stages[-1][0] not in R26_TERMINALS:
        return None, j
    parsed = []
    for (name, arg, tf) in stages:
        if name in ('filter', 'map', 'filter_map', 'map_while', 'for_each', 'all', 'any'):
            c = _parse_closure(arg, allow_path=(name == 'map_while'))
            if c is None:
                return None, j
            parsed.append((name, c[0], c[1], tf))
        else:
            if not all(x[0] in TRIVIA for x in arg):
                return None, j
            parsed.append((name, None, None, tf))
    return parsed, j


def _r26_target(parsed, out, start):
    """collection built by collect(): turbofish, else the annotation of the `let` the chain initialises, else Vec"""
    if parsed[-1][0] != 'collect':
        return 'Vec'
    ty = parsed[-1][3]
    if not ty and start is not None:
        e = prev_sig(out, start - 1)
        if e >= 0 and is_p(out[e], '='):
            k = e - 1
            ann = []
            while k >= 0 and not is_id(out[k], 'let') and not (out[k][0] == 'p' and out[k][1] in ';{}'):
                ann.append(out[k])
                k -= 1
            if k >= 0 and is_id(out[k], 'let'):
                txt = _flat(list(reversed(ann)))
                if ':' in txt:
                    ty = txt.split(':', 1)[1].strip()
    if ty:
        head = re.match(r'(?:std::collections::)?(\w+)', ty)
        return head.group(1) if head else None
    return 'Vec'


def _r26_emit(parsed, target, source_text, ind0, P):
    I1 = ind0 + '    '
    lines = ['{']
    term = parsed[-1][0]
    if term == 'count':
        lines.append(I1 + 'let mut %sacc: usize = 0;' % P)
    elif term in ('all', 'any'):
        lines.append(I1 + 'let mut %sacc = %s;' % (P, 'true' if term == 'all' else 'false'))
    elif term == 'collect':
        lines.append(I1 + 'let mut %sacc = %s::new();' % (P, target))
    lines.append(I1 + 'for %sx in %s {' % (P, source_text))
    depth_ind = I1 + '    '
    cur = P + 'x'
    closers = []
    ycount = 0
    for (name, pat, body, tf) in parsed[:-1]:
        if name == 'filter':
            lines.append(depth_ind + 'let %s = &%s;' % (pat, cur))
            lines.append(depth_ind + 'let %sc%d = %s;' % (P, len(closers), _body_text(body, depth_ind)))
            lines.append(depth_ind + 'if %sc%d {' % (P, len(closers)))
            closers.append(depth_ind + '}')
            depth_ind += '    '
        elif name == 'map':
            ycount += 1
            nxt = '%sy%d' % (P, ycount)
            lines.append(depth_ind + 'let %s = %s;' % (pat, cur))
            lines.append(depth_ind + 'let %s = %s;' % (nxt, _body_text(body, depth_ind)))
            cur = nxt
        elif name == 'filter_map':
            ycount += 1
            nxt = '%sy%d' % (P, ycount)
            lines.append(depth_ind + 'let %s = %s;' % (pat, cur))
            lines.append(depth_ind + 'let %so%d = %s;' % (P, ycount, _body_text(body, depth_ind)))
            lines.append(depth_ind + 'if let Some(%s) = %so%d {' % (nxt, P, ycount))
            closers.append(depth_ind + '}')
            depth_ind += '    '
            cur = nxt
        elif name == 'map_while':
            # "yields elements while the closure returns Some": the first None ends the iteration
            ycount += 1
            nxt = '%sy%d' % (P, ycount)
            lines.append(depth_ind + 'let %s = %s;' % (pat, cur))
            lines.append(depth_ind + 'let %so%d = %s;' % (P, ycount, _body_text(body, depth_ind)))
            lines.append(depth_ind + 'if %so%d.is_none() {' % (P, ycount))
            lines.append(depth_ind + '    break;')
            lines.append(depth_ind + '}')
            lines.append(depth_ind + 'if let Some(%s) = %so%d {' % (nxt, P, ycount))
            closers.append(depth_ind + '}')
            depth_ind += '    '
            cur = nxt
        elif name == 'copied':
            ycount += 1
            nxt = '%sy%d' % (P, ycount)
            lines.append(depth_ind + 'let %s = *%s;' % (nxt, cur))
            cur = nxt
        elif name == 'cloned':
            ycount += 1
            nxt = '%sy%d' % (P, ycount)
            lines.append(depth_ind + 'let %s = %s.clone();' % (nxt, cur))
            cur = nxt
    if term == 'count':
        lines.append(depth_ind + '%sacc += 1;' % P)
    elif term in ('all', 'any'):
        # lazy `all`/`any` stop calling the closure once the answer is known: the guard keeps the number of calls the same
        (name, pat, body, tf) = parsed[-1]
        lines.append(depth_ind + 'if %s%sacc {' % ('' if term == 'all' else '!', P))
        lines.append(depth_ind + '    let %s = %s;' % (pat, cur))
        lines.append(depth_ind + '    let %st = %s;' % (P, _body_text(body, depth_ind + '    ')))
        lines.append(depth_ind + '    if %s%st {' % ('!' if term == 'all' else '', P))
        lines.append(depth_ind + '        %sacc = %s;' % (P, 'false' if term == 'all' else 'true'))
        lines.append(depth_ind + '    }')
        lines.append(depth_ind + '}')
    elif term == 'for_each':
        (name, pat, body, tf) = parsed[-1]
        lines.append(depth_ind + 'let %s = %s;' % (pat, cur))
        lines.append(depth_ind + '%s;' % _body_text(body, depth_ind))
    elif target == 'Vec':
        lines.append(depth_ind + '%sacc.push(%s);' % (P, cur))
    elif target == 'HashSet':
        lines.append(depth_ind + '%sacc.insert(%s);' % (P, cur))
    else:
        lines.append(depth_ind + '%sacc.insert(%s.0, %s.1);' % (P, cur, cur))
    for c in reversed(closers):
        lines.append(c)
    lines.append(I1 + '}')
    if term != 'for_each':
        lines.append(I1 + '%sacc' % P)
    lines.append(ind0 + '}')
    return lines


def _indent_of_line_containing(out, start):
    line_start = start
    while line_start > 0 and not (out[line_start - 1][0] == 'ws' and '\n' in out[line_start - 1][1]):
        line_start -= 1
    if line_start > 0:
        return out[line_start - 1][1].rsplit('\n', 1)[1]
    if out and out[0][0] == 'ws':
        return out[0][1].rsplit('\n', 1)[-1]
    return ''


def r26_iter_chains(toks, counts):
    # to a fixpoint: a chain inside the closure of another chain is rewritten in the next round
    for _round in range(6):
        before = counts.get('R26', 0)
        toks = _r26_iter_chains_once(toks, counts, before)
        if counts.get('R26', 0) == before:
            break
    return toks


def _r26_iter_chains_once(toks, counts, serial0=0):
    """`E.iter().filter(|P| C).map(|Q| F).collect()` -- sources `.iter()`, `.into_iter()`, `.keys()`, `.values()` or a drain stand-in call
    (`drain_all(..)`, `drain_map(..)`, `drain_hashmap(..)`, rule R5); adapters filter, map, filter_map, copied, cloned; terminals
    collect, count, for_each -- becomes a block with an explicit loop:
        { let mut itN_acc = Vec::new(); for itN_x in E.iter() { let P = &itN_x; let itN_c0 = C; if itN_c0 { let Q = itN_x; let itN_y1 = F;
          itN_acc.push(itN_y1); } } itN_acc }
    (`for_each(|Q| B)` ends in `let Q = itN_x; B;` and the block has no value).  The closure parameters and bodies are the source's own
    tokens; evaluation order and the number of closure calls per element are those of the lazy adapters. Chains with any other
    adapter, with closures that `return`/`?`, or without a terminal are left alone."""
    out = []
    i = 0
    n = len(toks)
    serial = serial0
    while i < n:
        t = toks[i]
        done = False
        if is_p(t, '.'):
            nx = next_sig(toks, i + 1)
            if nx < n and toks[nx][0] == 'id' and toks[nx][1] in R26_SOURCES:
                op = next_sig(toks, nx + 1)
                if op < n and is_p(toks[op], '(') and all(x[0] in TRIVIA for x in toks[op + 1:match_close(toks, op)]):
                    parsed, j = _r26_parse_stages(toks, match_close(toks, op) + 1)
                    if parsed is not None:
                        try:
                            start = _postfix_start(out, len(out) - 1)
                        except ExtractError:
                            start = None
                        target = _r26_target(parsed, out, start) if start is not None else None
                        if start is not None and target in ('Vec', 'HashSet', 'HashMap'):
                            serial += 1
                            recv = _flat(out[start:])
                            ind0 = _indent_of_line_containing(out, start)
                            lines = _r26_emit(parsed, target, '%s.%s()' % (recv, toks[nx][1]), ind0, 'it%d_' % serial)
                            del out[start:]
                            out.extend(rtok.tokenize('\n'.join(lines)))
                            counts['R26'] = counts.get('R26', 0) + 1
                            i = j
                            done = True
        elif t[0] == 'id' and t[1] in R26_STANDIN_SOURCES:
            op = next_sig(toks, i + 1)
            if op < n and is_p(toks[op], '('):
                cl = match_close(toks, op)
                parsed, j = _r26_parse_stages(toks, cl + 1)
                if parsed is not None:
                    target = _r26_target(parsed, out, len(out))
                    if target in ('Vec', 'HashSet', 'HashMap'):
                        serial += 1
                        ind0 = _indent_of_line_containing(out + [t], len(out))
                        lines = _r26_emit(parsed, target, _flat(toks[i:cl + 1]), ind0, 'it%d_' % serial)
                        out.extend(rtok.tokenize('\n'.join(lines)))
                        counts['R26'] = counts.get('R26', 0) + 1
                        i = j
                        done = True
        if not done:
            out.append(t)
            i += 1
    return out


def _r28_walk(toks, counts, sigs, state):
    """the k-th closure of the item gets the signature given by the region option `R28=SIG1,SIG2,..` with SIG = `T1;T2->RET`
    (`_` keeps the parameter as written): `|t| BODY` -> `|t: T1| -> (cK_r: RET)` + newline + `{ BODY }` (a block body keeps its own
    braces, its `{` goes on its own line).  Only type annotations are added -- what the compiler infers is written out, and rustc
    rejects a wrong one -- so that `requires`/`ensures` can be attached to the closure."""
    out = []
    i = 0
    n = len(toks)
    k = state[0]
    STARTERS = ('=', '(', ',', '{', ';')
    while i < n:
        t = toks[i]
        is_start = False
        if is_p(t, '|'):
            p = prev_sig(toks, i - 1)
            if p >= 0 and ((toks[p][0] == 'p' and toks[p][1] in STARTERS and not (toks[p][1] == '=' and p > 0 and is_p(toks[p - 1], '|')))
                           or is_id(toks[p], 'move') or is_id(toks[p], 'return')):
                # `||` (no parameters) is tokenised as two `|`
                is_start = True
        if not is_start or k >= len(sigs):
            out.append(t)
            i += 1
            continue
        # parameters up to the closing `|`
        j = i + 1
        while j < n and not is_p(toks[j], '|'):
            if toks[j][0] == 'p' and toks[j][1] in '([':
                j = match_close(toks, j)
            j += 1
        if j >= n:
            raise ExtractError('R28: unterminated closure parameters')
        params = toks[i + 1:j]
        sig = sigs[k]
        k += 1
        state[0] = k
        my_k = k
        if '->' not in sig:
            raise ExtractError('R28: signature %r lacks `->`' % sig)
        hoist = sig.startswith('let:')
        if hoist:
            sig = sig[4:]
        ptypes, ret = sig.split('->', 1)
        ptypes = ptypes.split(';') if ptypes else []
        # split params at depth-0 commas
        parts = []
        cur = []
        q = 0
        while q < len(params):
            x = params[q]
            if x[0] == 'p' and x[1] in '([':
                c = match_close(params, q)
                cur += params[q:c + 1]
                q = c + 1
                continue
            if is_p(x, ','):
                parts.append(cur)
                cur = []
            else:
                cur.append(x)
            q += 1
        if [y for y in cur if y[0] not in TRIVIA]:
            parts.append(cur)
        if len(parts) != len(ptypes):
            raise ExtractError('R28: closure %d has %d parameters, signature gives %d' % (k, len(parts), len(ptypes)))
        new_params = []
        for part, ty in zip(parts, ptypes):
            txt = rtok.untok(part).strip()
            if ty != '_':
                if ':' in txt.replace('::', ''):
                    raise ExtractError('R28: parameter %r is already typed' % txt)
                txt = '%s: %s' % (txt, ty)
            new_params.append(txt)
        ind = _line_indent(toks, i)
        # a closure that already declares its return type keeps it
        b = next_sig(toks, j + 1)
        if b + 1 < n and is_p(toks[b], '-') and is_p(toks[b + 1], '>'):
            raise ExtractError('R28: closure already has a return type')
        header = '|%s| -> (c%d_r: %s)' % (', '.join(new_params), my_k, ret)
        hoist_at = None
        if hoist:
            # `let:` -- a closure written inline as a call argument is bound to a name first (closure creation has no effect),
            # so that the contract can speak about it: `let cK_f = <closure>;` goes before the statement it occurs in
            q = len(out) - 1
            depth = 0
            while q >= 0:
                x = out[q]
                if x[0] == 'p' and x[1] in ')]}':
                    depth += 1
                elif x[0] == 'p' and x[1] in '([{':
                    if depth == 0:
                        if x[1] == '{':
                            break
                    else:
                        depth -= 1
                elif is_p(x, ';') and depth == 0:
                    break
                q -= 1
            hoist_at = q + 1
            while hoist_at < len(out) and out[hoist_at][0] == 'ws':
                hoist_at += 1
            stmt_ind = _line_indent(out, hoist_at) if hoist_at < len(out) else ind
            saved_tail = out[hoist_at:]
            del out[hoist_at:]
            out += rtok.tokenize('let c%d_f = ' % my_k)
            ind = stmt_ind
        out += rtok.tokenize(header)
        if is_p(toks[b], '{'):
            c = match_close(toks, b)
            out += [('ws', '\n' + ind)]
            body_end = c
            out += [toks[b]] + _r28_walk(toks[b + 1:c], counts, sigs, state) + [toks[c]]
            k = state[0]
        else:
            # expression body: up to the `,` / `;` / closing bracket at depth 0
            e = b
            while e < n and not (toks[e][0] == 'p' and toks[e][1] in ',;)]}'):
                if toks[e][0] == 'p' and toks[e][1] in rtok.OPEN:
                    e = match_close(toks, e)
                e += 1
            body = toks[b:e]
            while body and body[-1][0] == 'ws':
                body.pop()
            nbody = len(body)
            body = _r28_walk(body, counts, sigs, state)
            k = state[0]
            out += [('ws', '\n' + ind), ('p', '{'), ('ws', '\n' + ind + '    ')] + _indent_more(body) + [('ws', '\n' + ind), ('p', '}')]
            body_end = b + nbody - 1
        if hoist:
            out += [('p', ';'), ('ws', '\n' + ind)] + saved_tail + [('id', 'c%d_f' % my_k)]
        counts['R28'] = counts.get('R28', 0) + 1
        i = body_end + 1
    state[0] = k
    return out


def r28_closure_signatures(toks, counts, sigs):
    state = [0]
    out = _r28_walk(toks, counts, sigs, state)
    if state[0] < len(sigs):
        raise ExtractError('R28: %d closure signatures given, %d closures found' % (len(sigs), state[0]))
    return out


R29_FORMS = {
    # method: (pattern of the value arm, arm body template, other arm)
    'is_some_and': ('Some(%s)', '%s', 'None => false'),
    'is_ok_and': ('Ok(%s)', '%s', 'Err(_) => false'),
    'and_then': ('Some(%s)', '%s', 'None => None'),
    # only Result has map_err, only Option has ok_or_else: the closure becomes the other arm
    'map_err': ('Ok(r29_v) => Ok(r29_v)', 'Err(%s) => Err(%s)', None),
    'ok_or_else': ('Some(r29_v) => Ok(r29_v)', 'None => Err(%s)', None),
}
R29_RESULT_FORMS = {
    # region option R29res: and_then / map on a Result
    'and_then': ('Ok(%s)', '%s', 'Err(r29_e) => Err(r29_e)'),
    'map': ('Ok(%s)', 'Ok(%s)', 'Err(r29_e) => Err(r29_e)'),
}


R29_OPTIONAL = {
    # opt-in (region option R29map): `.map` is also an iterator / Result method; on those the rewrite does not type-check
    'map': ('Some(%s)', 'Some(%s)', 'None => None'),
}


def r29_inline_combinators(toks, counts, extra=()):
    """`E.is_some_and(|P| B)` -> `match E { Some(P) => B, None => false }`; `E.is_ok_and(|P| B)` -> `match E { Ok(P) => B, Err(_) => false }`;
    `E.and_then(|P| B)` (Option) -> `match E { Some(P) => B, None => None }`: the definitions of the combinators, so that no closure
    (which would need a hand-written signature to carry a contract) is left.  E is the whole postfix expression before the call; the
    closure parameter and body are the source's own tokens.  Closures containing `return`/`?` or typed parameters are left alone."""
    FORMS = dict(R29_FORMS)
    for e in extra:
        if e == 'result':
            FORMS.update(R29_RESULT_FORMS)
        else:
            FORMS[e] = R29_OPTIONAL[e]
    changed = True
    while changed:
        changed = False
        out = []
        i = 0
        n = len(toks)
        while i < n:
            t = toks[i]
            if is_p(t, '.') and not changed:
                nx = next_sig(toks, i + 1)
                if nx < n and toks[nx][0] == 'id' and toks[nx][1] in FORMS:
                    op = next_sig(toks, nx + 1)
                    if op < n and is_p(toks[op], '('):
                        cl = match_close(toks, op)
                        c = _parse_closure(toks[op + 1:cl])
                        arg_sig = [x for x in toks[op + 1:cl] if x[0] not in TRIVIA]
                        if c is None and toks[nx][1] in ('and_then', 'map') and arg_sig and all(x[0] == 'id' or is_p(x, ':') for x in arg_sig) and arg_sig[0][0] == 'id':
                            # a function path in place of a closure: `f` is `|v| f(v)`
                            c = ('r29_v', rtok.tokenize('%s(r29_v)' % _flat(toks[op + 1:cl])))
                        # innermost first: the closure body must not itself contain a combinator call still to be rewritten
                        if c is not None and not any(x[0] == 'id' and x[1] in FORMS for x in c[1]):
                            try:
                                start = _postfix_start(out, len(out) - 1)
                            except ExtractError:
                                start = None
                            if start is not None:
                                pat, body = c
                                form = FORMS[toks[nx][1]]
                                recv = _flat(out[start:])
                                ind0 = _indent_of_line_containing(out, start)
                                I1 = ind0 + '    '
                                if form[2] is None:
                                    # the closure is the *other* arm (map_err / ok_or_else)
                                    second = form[1] % ((pat, _body_text(body, I1)) if form[1].count('%s') == 2 else (_body_text(body, I1),))
                                    txt = 'match %s {\n%s%s,\n%s%s,\n%s}' % (recv, I1, form[0], I1, second, ind0)
                                else:
                                    txt = 'match %s {\n%s%s => %s,\n%s%s,\n%s}' % (recv, I1, form[0] % pat, form[1] % _body_text(body, I1), I1, form[2], ind0)
                                after = next_sig(toks, cl + 1)
                                if after < n and (is_p(toks[after], '.') or is_p(toks[after], '?')):
                                    # the chain goes on: the match becomes a parenthesised receiver
                                    txt = '(' + txt + ')'
                                del out[start:]
                                out.extend(rtok.tokenize(txt))
                                counts['R29'] = counts.get('R29', 0) + 1
                                i = cl + 1
                                changed = True
                                continue
            out.append(t)
            i += 1
        toks = out
    return toks


def r30_const_static_lifetime(toks, counts):
    """`const X: &T = ..` / `static X: &T = ..` -> `&'static T`: the elided lifetime of a const/static item is `'static`
    (Rust reference); inside `verus!` it has to be written"""
    sig = [i for i, t in enumerate(toks) if t[0] not in TRIVIA]
    if not sig:
        return toks
    k = 0
    if is_id(toks[sig[k]], 'pub'):
        k += 1
        if k < len(sig) and is_p(toks[sig[k]], '('):
            k = next(i for i, idx in enumerate(sig) if idx == match_close(toks, sig[k])) + 1
    top = k < len(sig) and (is_id(toks[sig[k]], 'const') or is_id(toks[sig[k]], 'static'))
    out = []
    in_type = False
    for i, t in enumerate(toks):
        out.append(t)
        if not top and in_type is not True and is_id(t, 'const'):
            # a `const NAME: &T = ..;` statement inside a function body
            nm = next_sig(toks, i + 1)
            co = next_sig(toks, nm + 1) if nm < len(toks) else len(toks)
            if nm < len(toks) and toks[nm][0] == 'id' and co < len(toks) and is_p(toks[co], ':') and not (co + 1 < len(toks) and is_p(toks[co + 1], ':')):
                in_type = 'pending'
            continue
        if in_type == 'pending':
            if is_p(t, ':'):
                in_type = True
            continue
        if top and is_p(t, ':') and in_type is False:
            in_type = True
        elif is_p(t, '=') and in_type is True:
            in_type = None if top else False
        elif in_type is True and is_p(t, '&'):
            nx = next_sig(toks, i + 1)
            if nx < len(toks) and toks[nx][0] != 'life':
                out.append(('life', "'static"))
                out.append(('ws', ' '))
                counts['R30'] = counts.get('R30', 0) + 1
    return out


def r31_slice_empty_match(toks, counts):
    """`match S { [] => A, name => B }` (a slice scrutinee, an empty-slice arm and a catch-all binding arm) ->
    `{ let name = S; if name.is_empty() { A } else B }` -- the definition of the two patterns (Verus has no slice patterns)."""
    out = []
    i = 0
    n = len(toks)
    while i < n:
        t = toks[i]
        if is_id(t, 'match'):
            k = i + 1
            while k < n and not is_p(toks[k], '{'):
                if toks[k][0] == 'p' and toks[k][1] in '([':
                    k = match_close(toks, k)
                k += 1
            if k < n:
                c = match_close(toks, k)
                a1 = next_sig(toks, k + 1)
                if a1 + 1 < c and is_p(toks[a1], '[') and is_p(toks[next_sig(toks, a1 + 1)], ']'):
                    cl = next_sig(toks, a1 + 1)
                    ar = next_sig(toks, cl + 1)
                    if ar + 1 < c and is_p(toks[ar], '=') and is_p(toks[ar + 1], '>'):
                        # first arm body: up to the `,` at depth 0
                        b0 = next_sig(toks, ar + 2)
                        q = b0
                        while q < c and not is_p(toks[q], ','):
                            if toks[q][0] == 'p' and toks[q][1] in rtok.OPEN:
                                q = match_close(toks, q)
                            q += 1
                        arm1 = toks[b0:q]
                        nm = next_sig(toks, q + 1)
                        ar2 = next_sig(toks, nm + 1)
                        if nm < c and toks[nm][0] == 'id' and ar2 + 1 < c and is_p(toks[ar2], '=') and is_p(toks[ar2 + 1], '>'):
                            b2 = next_sig(toks, ar2 + 2)
                            if b2 < c and is_p(toks[b2], '{'):
                                e2 = match_close(toks, b2)
                                rest = [x for x in toks[e2 + 1:c] if x[0] not in TRIVIA and not is_p(x, ',')]
                                if not rest:
                                    scrut = toks[i + 1:k]
                                    while scrut and scrut[0][0] == 'ws':
                                        scrut.pop(0)
                                    while scrut and scrut[-1][0] == 'ws':
                                        scrut.pop()
                                    ind = _line_indent(toks, i)
                                    name = toks[nm][1]
                                    pre = []
                                    ssig = [x for x in scrut if x[0] not in TRIVIA]
                                    if len(ssig) > 5 and is_p(ssig[0], '&') and [x[1] for x in ssig[-4:]] == ['[', '.', '.', ']']:
                                        # `&(E)[..]`: the sliced value is bound to a name first (a temporary lives as long as the match anyway);
                                        # Verus relates a slice to the vector it is taken from only when the vector has a name
                                        first = next(k2 for k2, x in enumerate(scrut) if is_p(x, '&'))
                                        last_open = max(k2 for k2, x in enumerate(scrut) if is_p(x, '['))
                                        inner = scrut[first + 1:last_open]
                                        pre = rtok.tokenize('let %s_v = ' % name) + inner + [('p', ';'), ('ws', '\n' + ind + '    ')]
                                        scrut = rtok.tokenize('&%s_v[..]' % name)
                                    out += [('p', '{'), ('ws', '\n' + ind + '    ')] + pre + rtok.tokenize('let %s = ' % name) + scrut + [('p', ';'), ('ws', '\n' + ind + '    ')] \
                                        + rtok.tokenize('if %s.is_empty() {' % name) + [('ws', '\n' + ind + '        ')] + arm1 + [('ws', '\n' + ind + '    ')] \
                                        + rtok.tokenize('} else ') + toks[b2:e2 + 1] + [('ws', '\n' + ind), ('p', '}')]
                                    counts['R31'] = counts.get('R31', 0) + 1
                                    i = c + 1
                                    continue
        out.append(t)
        i += 1
    return out


# ---- R33: calls of NEW helper functions of the same file are replaced by the helper's body -------------------------------------

def _find_fn_items(src_toks, name):
    """all `fn name` items of the file: list of (kw_index)"""
    out = []
    for i, t in enumerate(src_toks):
        if is_id(t, 'fn'):
            nx = next_sig(src_toks, i + 1)
            if nx < len(src_toks) and is_id(src_toks[nx], name):
                out.append(i)
    return out


def _helper_parts(src_toks, kw):
    """(params, has_self, body_tokens_without_braces) of the fn item whose `fn` keyword is at kw; None if unsupported"""
    n = len(src_toks)
    nm = next_sig(src_toks, kw + 1)
    k = next_sig(src_toks, nm + 1)
    if k < n and is_p(src_toks[k], '<'):
        return None            # generic helper: not inlined
    if k >= n or not is_p(src_toks[k], '('):
        return None
    cl = match_close(src_toks, k)
    params = []
    cur = []
    has_self = False
    q = k + 1
    while q < cl:
        x = src_toks[q]
        if x[0] == 'p' and x[1] in '([<':
            if x[1] == '<':
                cur.append(x)
                q += 1
                continue
            c = match_close(src_toks, q)
            cur += src_toks[q:c + 1]
            q = c + 1
            continue
        if is_p(x, ','):
            params.append(cur)
            cur = []
        else:
            cur.append(x)
        q += 1
    if [y for y in cur if y[0] not in TRIVIA]:
        params.append(cur)
    plist = []
    for prm in params:
        sig = [y for y in prm if y[0] not in TRIVIA]
        if any(is_id(y, 'self') for y in sig) and not any(is_p(y, ':') for y in sig):
            has_self = True
            continue
        # split at the first `:` (not `::`)
        idx = None
        for j, y in enumerate(prm):
            if is_p(y, ':') and not (j + 1 < len(prm) and is_p(prm[j + 1], ':')) and not (j > 0 and is_p(prm[j - 1], ':')):
                idx = j
                break
        if idx is None:
            return None
        plist.append((_flat(prm[:idx]), _flat(prm[idx + 1:])))
    b = cl + 1
    while b < n and not is_p(src_toks[b], '{') and not is_p(src_toks[b], ';'):
        if src_toks[b][0] == 'p' and src_toks[b][1] in '([':
            b = match_close(src_toks, b)
        b += 1
    if b >= n or not is_p(src_toks[b], '{'):
        return None
    e = match_close(src_toks, b)
    body = src_toks[b + 1:e]
    return plist, has_self, body


def inline_helpers(item, src_toks, names, counts):
    """calls `name(args)`, `Self::name(args)` or `self.name(args)` of helper functions that did not exist in the golden extraction (they
    are new in the changed tree and have no contract) are replaced by `{ let inl_k = arg_k; ..; let param_k: T_k = inl_k; ..; BODY }`
    -- the definition of a call.  Only helpers without generics and without `return`; a helper using `?` only where the call itself
    is followed by `?`.  Anything else raises (the unit stays UNDECIDED)."""
    serial = 0
    changed = True
    while changed:
        changed = False
        out = []
        i = 0
        n = len(item)
        while i < n:
            t = item[i]
            if t[0] == 'id' and t[1] in names:
                op = next_sig(item, i + 1)
                pv = prev_sig(item, i - 1)
                if op < n and is_p(item[op], '(') and not (pv >= 0 and is_id(item[pv], 'fn')):
                    kws = _find_fn_items(src_toks, t[1])
                    if len(kws) != 1:
                        raise ExtractError('R33: helper %s is not defined exactly once in the file' % t[1])
                    parts = _helper_parts(src_toks, kws[0])
                    if parts is None:
                        raise ExtractError('R33: helper %s has a shape that is not inlined (generics / patterns)' % t[1])
                    plist, has_self, body = parts
                    if any(is_id(x, 'return') for x in body):
                        raise ExtractError('R33: helper %s uses `return`' % t[1])
                    cl = match_close(item, op)
                    # what precedes the name: `self.` (method), `Self::` / `path::` (associated / free), or nothing
                    start = len(out)
                    if pv >= 0 and is_p(item[pv], '.'):
                        rv = prev_sig(item, pv - 1)
                        if not (has_self and rv >= 0 and is_id(item[rv], 'self')):
                            raise ExtractError('R33: helper %s is called on a receiver other than `self`' % t[1])
                        # drop `self .` already emitted
                        while out and not is_id(out[-1], 'self'):
                            out.pop()
                        out.pop()
                    elif pv >= 1 and is_p(item[pv], ':') and is_p(item[pv - 1], ':'):
                        # drop the path prefix `Self::` / `module::`
                        while out and (out[-1][0] in TRIVIA or is_p(out[-1], ':')):
                            out.pop()
                        if out and out[-1][0] == 'id':
                            out.pop()
                    # arguments
                    args = []
                    cur = []
                    q = op + 1
                    while q < cl:
                        x = item[q]
                        if x[0] == 'p' and x[1] in rtok.OPEN:
                            c = match_close(item, q)
                            cur += item[q:c + 1]
                            q = c + 1
                            continue
                        if is_p(x, ','):
                            args.append(cur)
                            cur = []
                        else:
                            cur.append(x)
                        q += 1
                    if [y for y in cur if y[0] not in TRIVIA]:
                        args.append(cur)
                    if len(args) != len(plist):
                        raise ExtractError('R33: helper %s: %d arguments for %d parameters' % (t[1], len(args), len(plist)))
                    # a `?` inside the helper leaves the helper; after inlining it leaves the caller: the same only if the call is `helper(..)?`
                    after = next_sig(item, cl + 1)
                    if after < n and is_p(item[after], '.'):
                        a2 = next_sig(item, after + 1)
                        if a2 < n and is_id(item[a2], 'await'):
                            after = next_sig(item, a2 + 1)
                    if any(is_p(x, '?') for x in body) and not (after < n and is_p(item[after], '?')):
                        raise ExtractError('R33: helper %s uses `?` but the call is not followed by `?`' % t[1])
                    serial += 1
                    ind = _indent_of_line_containing(out, len(out)) if out else ''
                    lines = ['{']
                    for k2, a in enumerate(args):
                        lines.append('%s    let inl%d_%d = %s;' % (ind, serial, k2, _flat(a)))
                    for k2, (pat, ty) in enumerate(plist):
                        if 'impl ' in ty or ty.startswith('impl'):
                            lines.append('%s    let %s = inl%d_%d;' % (ind, pat, serial, k2))
                        else:
                            lines.append('%s    let %s: %s = inl%d_%d;' % (ind, pat, ty, serial, k2))
                    out += rtok.tokenize('\n'.join(lines) + '\n')
                    out += body
                    out += [('ws', '\n' + ind), ('p', '}')]
                    counts['R33'] = counts.get('R33', 0) + 1
                    i = cl + 1
                    changed = True
                    # copy the rest and restart (the inlined body may call further helpers)
                    out += item[i:]
                    break
            out.append(t)
            i += 1
        item = out
    return item


def r11_closure_pattern_params(toks, counts):
    """`|(a, b)| E` / `|&x| E` / `|S { f, .. }| E` (a closure whose parameter is a pattern, which Verus does not accept) ->
    `|r11_k| { let (a, b) = r11_k; E }` -- the definition of an irrefutable parameter pattern.  Closures with several parameters are
    rewritten parameter by parameter; identifier parameters (optionally `mut`, optionally typed) are left alone."""
    out = []
    i = 0
    n = len(toks)
    serial = 0
    STARTERS = ('=', '(', ',', '{', ';')
    while i < n:
        t = toks[i]
        is_start = False
        if is_p(t, '|'):
            p = prev_sig(toks, i - 1)
            if p >= 0 and ((toks[p][0] == 'p' and toks[p][1] in STARTERS) or is_id(toks[p], 'move') or is_id(toks[p], 'return')):
                is_start = True
        if not is_start:
            out.append(t)
            i += 1
            continue
        j = i + 1
        while j < n and not is_p(toks[j], '|'):
            if toks[j][0] == 'p' and toks[j][1] in '([':
                j = match_close(toks, j)
            j += 1
        if j >= n:
            out.append(t)
            i += 1
            continue
        params = toks[i + 1:j]
        parts, cur, q = [], [], 0
        while q < len(params):
            x = params[q]
            if x[0] == 'p' and x[1] in '([{':
                c = match_close(params, q)
                cur += params[q:c + 1]
                q = c + 1
                continue
            if is_p(x, ','):
                parts.append(cur)
                cur = []
            else:
                cur.append(x)
            q += 1
        if [y for y in cur if y[0] not in TRIVIA]:
            parts.append(cur)

        def simple(part):
            sig = [y for y in part if y[0] not in TRIVIA]
            if sig and is_id(sig[0], 'mut'):
                sig = sig[1:]
            if not sig or sig[0][0] != 'id':
                return False
            return len(sig) == 1 or (is_p(sig[1], ':') and not (len(sig) > 2 and is_p(sig[2], ':')))
        if all(simple(pt) for pt in parts) or not parts:
            out.append(t)
            i += 1
            continue
        b = next_sig(toks, j + 1)
        if b + 1 < n and is_p(toks[b], '-') and is_p(toks[b + 1], '>'):
            out.append(t)      # declared return type: leave it
            i += 1
            continue
        names, lets = [], []
        for pt in parts:
            if simple(pt):
                names.append(_flat(pt))
            else:
                serial += 1
                nm = 'r11_%d' % serial
                names.append(nm)
                lets.append('let %s = %s;' % (_flat(pt), nm))
        if is_p(toks[b], '{'):
            c = match_close(toks, b)
            body = toks[b + 1:c]
            end = c
        else:
            e = b
            while e < n and not (toks[e][0] == 'p' and toks[e][1] in ',;)]}'):
                if toks[e][0] == 'p' and toks[e][1] in rtok.OPEN:
                    e = match_close(toks, e)
                e += 1
            body = toks[b:e]
            while body and body[-1][0] == 'ws':
                body.pop()
            end = b + len(body) - 1
        out += rtok.tokenize('|%s| { %s ' % (', '.join(names), ' '.join(lets))) + body + [('ws', ' '), ('p', '}')]
        counts['R11'] = counts.get('R11', 0) + 1
        i = end + 1
    return out


def cleanup_lines(text):
    lines = [l.rstrip() for l in text.split('\n')]
    return [l for l in lines if l.strip() != '']


DEFAULT_RULES = ['R6', 'R1', 'R2', 'R12', 'R3', 'R4', 'R5', 'R7', 'R13']


def extract_region(src_text, path, opts=None):
    """returns (lines, counts, sha256_of_raw_item)"""
    opts = opts or {}
    toks = rtok.tokenize(src_text)
    s, e = find_item(toks, path)
    item = toks[s:e + 1]
    raw = rtok.untok(item)
    sha = hashlib.sha256(raw.encode()).hexdigest()
    # keep the indentation of the first line
    indent = _line_indent(toks, s)
    counts = {}
    if opts.get('inline'):
        item = inline_helpers(item, toks, set(opts['inline']), counts)
    item = strip_comments(item, counts)
    rules = [r for r in DEFAULT_RULES if r not in opts.get('skip', ())]
    for r in rules:
        if r == 'R6':
            item = r6_attributes(item, counts)
        elif r == 'R1':
            item = r1_async(item, counts)
        elif r == 'R2':
            item = r2_logging(item, counts)
        elif r == 'R12':
            item = r12_context(item, counts)
        elif r == 'R3':
            if 'R32' in opts.get('rules', ()) or 'R32i' in opts.get('rules', ()):
                item = r32_format_prefixed(item, counts, infix='R32i' in opts.get('rules', ()))
            item = r3_format(item, counts, names=('format',) + tuple(opts.get('opaque_macros', ())))
        elif r == 'R4':
            item = r4_ref_patterns(item, counts)
        elif r == 'R5':
            item = r5_drain(item, counts, map_fn=opts.get('drain_fn', 'drain_map'))
        elif r == 'R7':
            item = r7_visibility(item, counts)
            item = r7b_struct_pub(item, counts)
            item = r18_dyn_auto_traits(item, counts)
        elif r == 'R13':
            if 'R9' in opts.get('rules', ()):
                item = r9_enumerate(item, counts)
            if 'R16' in opts.get('rules', ()):
                item = r16_into(item, counts)
            if 'R17' in opts.get('rules', ()):
                item = r17_flatten_options(item, counts)
            if 'R19' in opts.get('rules', ()):
                item = r19_box_as_mut(item, counts)
            if 'R20' in opts.get('rules', ()):
                item = r20_rposition(item, counts, opts.get('r20_type', 'Self'))
            if 'R22' in opts.get('rules', ()):
                item = r22_asref_str_params(item, counts)
            if 'R23' in opts.get('rules', ()):
                item = r23_split_or_pattern_guard(item, counts)
            if 'R24' in opts.get('rules', ()):
                item = r24_name_tail_expr(item, counts)
            if 'R26' not in opts.get('skip', ()):
                item = r26_iter_chains(item, counts)
            item = r21_map_err_anyhow(item, counts)
            item = r3b_anyhow_macro(item, counts)
            item = r31_slice_empty_match(item, counts)
            if 'R29' not in opts.get('skip', ()):
                item = r29_inline_combinators(item, counts, extra=(('map',) if 'R29map' in opts.get('rules', ()) else ()) + (('result',) if 'R29res' in opts.get('rules', ()) else ()))
            item = r11_closure_pattern_params(item, counts)
            if 'R36' in opts.get('rules', ()):
                item = r36_hashset_for(item, counts, opts.get('r36_names', []))
            if 'R34' in opts.get('rules', ()):
                item = r34_vec_sort(item, counts)
            if 'R35' in opts.get('rules', ()):
                item = r35_bsearch_first(item, counts)
            if 'R28' in opts.get('rules', ()):
                item = r28_closure_signatures(item, counts, opts.get('r28_sigs', []))
            item = r21_map_err_anyhow(item, counts)
            item = r25_vec_extend(item, counts)
            item = r10b_if_continue(item, counts)
            item = r10c_continue_flag(item, counts)
            item = r13_binders(item, counts)
    item = r30_const_static_lifetime(item, counts)
    if 'R10' in opts.get('rules', ()):
        item = r10_trailing_continue(item, counts)
    if 'R15' in opts.get('rules', ()):
        item = r15_impl_trait_args(item, counts)
    if opts.get('rename'):
        item = r14_rename(item, counts, opts['rename'])
    text = indent + rtok.untok(item)
    return cleanup_lines(text), counts, sha
