"""Run Verus on a woven unit and turn its output into obligations / failures."""
import json
import os
import re
import subprocess
import time

VERUS = os.environ.get('VERIF_VERUS', 'verus')

RLIMIT_RE = re.compile(r'[Rr]esource limit|rlimit')


class Failure:
    def __init__(self, message, spans, rendered):
        self.message = message
        self.spans = spans          # list of dicts: line_start, line_end, is_primary, label, text
        self.rendered = rendered
        self.props = frozenset()
        self.labels = []
        self.function = None
        self.clause = ''
        self.is_rlimit = bool(RLIMIT_RE.search(message))

    def key(self):
        return (self.function or '?') + ' :: ' + self.message + ' :: ' + self.clause


def run_verus(path, rlimit=None, seed=None, extra=None, timeout=900):
    cmd = [VERUS, path, '--output-json', '--time', '--error-format=json', '--multiple-errors', '25',
           '--triggers-mode', 'silent', '--no-report-long-running']
    if rlimit:
        cmd += ['--rlimit', str(rlimit)]
    if seed is not None:
        cmd += ['--smt-option', 'smt.random_seed=%d' % seed]
    if extra:
        cmd += extra
    t0 = time.time()
    try:
        p = subprocess.run(cmd, stdout=subprocess.PIPE, stderr=subprocess.PIPE, text=True, timeout=timeout,
                           cwd=os.path.dirname(path))
        out, err, rc = p.stdout, p.stderr, p.returncode
    except subprocess.TimeoutExpired as e:
        out, err, rc = (e.stdout or ''), (e.stderr or ''), -9
        if isinstance(out, bytes):
            out = out.decode(errors='replace')
        if isinstance(err, bytes):
            err = err.decode(errors='replace')
    wall = time.time() - t0
    res = {'cmd': ' '.join(cmd), 'rc': rc, 'wall_s': wall, 'json': None, 'diagnostics': [], 'raw_err': err}
    try:
        res['json'] = json.loads(out)
    except ValueError:
        # the JSON document may be preceded by other output
        i = out.find('{')
        if i >= 0:
            try:
                res['json'] = json.loads(out[i:])
            except ValueError:
                pass
    for line in err.split('\n'):
        line = line.strip()
        if not line.startswith('{'):
            continue
        try:
            d = json.loads(line)
        except ValueError:
            continue
        if d.get('$message_type') == 'diagnostic':
            res['diagnostics'].append(d)
    return res


def analyse(res, woven):
    """returns dict(status, failures, frontend_errors, verified, errors, functions)"""
    j = res['json'] or {}
    vr = j.get('verification-results') or {}
    verified = vr.get('verified', 0)
    errors = vr.get('errors', 0)
    failures = []
    frontend = []
    for d in res['diagnostics']:
        if d.get('level') != 'error':
            continue
        msg = d.get('message', '')
        if msg.startswith('aborting due to'):
            continue
        spans = [{'line_start': s['line_start'], 'line_end': s['line_end'], 'is_primary': s['is_primary'],
                  'label': s.get('label'), 'text': ' '.join(t['text'].strip() for t in s.get('text', []))}
                 for s in d.get('spans', [])]
        f = Failure(msg, spans, d.get('rendered', ''))
        if errors == 0 and not f.is_rlimit:
            frontend.append(f)
        else:
            failures.append(f)
    status = 'ok'
    if res['rc'] == -9:
        status = 'timeout'
    elif res['json'] is None or not vr:
        status = 'frontend'
    elif errors == 0 and vr.get('encountered-error'):
        status = 'frontend'
    elif errors > 0:
        status = 'failed'
    elif not vr.get('success'):
        status = 'frontend'
    # attribute failures
    for f in failures:
        attribute(f, woven)
    funcs = []
    try:
        for m in j['times-ms']['smt']['smt-run-module-times']:
            for fb in m.get('function-breakdown', []):
                funcs.append({'function': fb['function'], 'mode': fb.get('mode:'), 'ms': fb.get('time'),
                              'rlimit': fb.get('rlimit'), 'success': fb.get('success')})
    except (KeyError, TypeError):
        pass
    return {'status': status, 'failures': failures, 'frontend_errors': frontend, 'verified': verified,
            'errors': errors, 'functions': funcs,
            'verus_version': (j.get('verus') or {}).get('version'),
            'smt_ms': ((j.get('times-ms') or {}).get('smt') or {}).get('total'),
            'total_ms': (j.get('times-ms') or {}).get('total')}


FN_RE = re.compile(r'\b(?:proof\s+|spec\s+|exec\s+)?fn\s+([A-Za-z_][A-Za-z0-9_]*)')


def enclosing_function(woven, line_idx):
    """name of the fn whose header is the closest one above line_idx (0-based) at a smaller-or-equal indent"""
    # the body brace of a function sits alone on its line without indentation (rule R13): start from the header above it
    while line_idx > 0 and woven.lines[line_idx].strip() == '{':
        line_idx -= 1
    for k in range(line_idx, -1, -1):
        m = FN_RE.search(woven.lines[k])
        if m and not woven.lines[k].lstrip().startswith('//'):
            # skip nested helper fns only if they closed before line_idx: approximate with indentation
            ind = len(woven.lines[k]) - len(woven.lines[k].lstrip())
            ind_here = len(woven.lines[line_idx]) - len(woven.lines[line_idx].lstrip())
            if ind <= ind_here or k == line_idx:
                return m.group(1)
    return None


def attribute(f, woven):
    n = len(woven.lines)
    tagged = set()
    labels = []
    primary_default = set()
    clause = ''
    fn = None
    for s in f.spans:
        # only the clause that failed carries the attribution: the primary span, or the secondary span Verus labels
        # "failed precondition" / "failed this postcondition"; "at the end of the function body" etc. cover unrelated lines
        if not (s['is_primary'] or (s.get('label') and 'failed' in s['label'])):
            continue
        for ln in range(s['line_start'] - 1, min(s['line_end'], n)):
            if ln < 0 or ln >= n:
                continue
            if woven.kind[ln] == 'contract' and woven.ob_label[ln] != '' or (woven.kind[ln] == 'contract' and woven.tags[ln] and _explicit(woven, ln)):
                tagged |= set(woven.tags[ln])
                if woven.ob_label[ln]:
                    labels.append(woven.ob_label[ln])
            if s['is_primary']:
                primary_default |= set(woven.tags[ln])
        if s['is_primary']:
            clause = s['text'][:160]
            fn = enclosing_function(woven, max(0, min(n - 1, s['line_start'] - 1)))
    # the function the failure is *in* is where the non-primary "at the end of the function body"/call site is;
    # prefer the span located on a code line or inside a proof fn body
    for s in f.spans:
        ln = s['line_start'] - 1
        if 0 <= ln < n and woven.kind[ln] == 'code':
            fn = enclosing_function(woven, ln) or fn
            break
    f.function = fn
    f.clause = clause
    f.labels = labels
    f.props = frozenset(tagged) if tagged else frozenset(primary_default)
    # machine-arithmetic side conditions (overflow, division by zero) are panic-freedom obligations: they belong to C18 where the
    # code is tagged for it, and to no other property (a new counter `n += 1` is not a convergence defect)
    if re.search(r'possible (arithmetic|division|bit shift)', f.message):
        f.props = frozenset(p for p in f.props if p == 'C18')
        f.side_condition = True


def _explicit(woven, ln):
    """does line ln sit under an //@ob directive (explicit tags) rather than the //@props default?"""
    for k in range(ln, -1, -1):
        if woven.kind[k] == 'directive':
            return woven.lines[k].lstrip().startswith('//@ob')
        if woven.kind[k] == 'code':
            return False
    return False
