"""vf -- driver for the contract-based checks.

  vf skeleton FILE :: item [:: item] [| opts]     print the extraction of one item (to start a region)
  vf golden UNIT...                                (re)record the golden extraction of the units' regions
  vf lint [UNIT...]                                check unit files against their golden extraction
  vf weave UNIT                                    write build/UNIT.rs from /repo's current tree
  vf verify UNIT [--rlimit N]                      weave + run Verus, print failures
  vf check ID [--tier quick|thorough] [--replay F] decide one property (used by MANIFEST.json)
  vf scan UNIT                                     list trusted items (external_body, axiom, assume_specification)
"""
import os
import re
import sys

sys.path.insert(0, os.path.dirname(os.path.dirname(os.path.abspath(__file__))))

from vf import extract, unit as U, runner  # noqa: E402


def cmd_skeleton(args):
    spec = ' '.join(args)
    spec, _, opts = spec.partition('|')
    comps = [c.strip() for c in re.split(r'\s::\s', spec)]
    src = open(os.path.join(U.REPO, comps[0])).read()
    lines, counts, sha = extract.extract_region(src, comps[1:], U.parse_opts(opts))
    print('//@extract ' + ' :: '.join(comps) + ((' | ' + opts.strip()) if opts.strip() else ''))
    print('\n'.join(lines))
    print('//@end')
    sys.stderr.write('rewrites: %r sha256: %s\n' % (counts, sha[:16]))


def all_units():
    return sorted(f[:-3] for f in os.listdir(U.UNITS_DIR) if f.endswith('.rs'))


def cmd_golden(args):
    for name in (args or all_units()):
        u = U.Unit(name)
        g = u.write_golden()
        print('%s: %d regions recorded' % (name, len(g)))
        for p in U.lint_unit(u):
            print('  LINT: ' + p)


def cmd_lint(args):
    bad = 0
    fresh = '--fresh' in args
    args = [a for a in args if a != '--fresh']
    for name in (args or all_units()):
        u = U.Unit(name)
        for p in U.lint_unit(u):
            print('%s: %s' % (name, p))
            bad += 1
        if fresh:
            # development aid: does the extraction of the tree at VERIF_REPO still equal the committed golden extraction?
            # (it must on the pinned tree -- a difference means a rewrite rule changed its output)
            golden = u.load_golden()
            for r in u.regions():
                try:
                    cur, _, _ = r.extract_current(U.REPO)
                except Exception as e:
                    print('%s: %s: extraction failed: %s' % (name, r.key, e))
                    bad += 1
                    continue
                g = golden.get(r.key)
                if g is None or g['lines'] != cur:
                    print('%s: %s: current extraction differs from the golden extraction' % (name, r.key))
                    bad += 1
            if u.trusted_items():
                gold_th = golden.get('@trusted', {})
                for k, v in u.trusted_hashes(U.REPO).items():
                    if gold_th.get(k) != v:
                        print('%s: hashed (trusted / watched) item differs from the golden hash: %s' % (name, k))
                        bad += 1
    return 1 if bad else 0


def cmd_weave(args):
    U.BUILD = os.path.join(U.OUT, 'build')
    u = U.Unit(args[0])
    w = U.Woven(u)
    print(w.write())


def cmd_verify(args):
    U.BUILD = os.path.join(U.OUT, 'build')
    name = args[0]
    rlimit = None
    if '--rlimit' in args:
        rlimit = float(args[args.index('--rlimit') + 1])
    u = U.Unit(name)
    w = U.Woven(u)
    path = w.write()
    res = runner.run_verus(path, rlimit=rlimit)
    a = runner.analyse(res, w)
    print('%s: status=%s verified=%d errors=%d wall=%.1fs smt=%sms' % (name, a['status'], a['verified'], a['errors'],
                                                                    res['wall_s'], a['smt_ms']))
    for f in a['frontend_errors'][:12]:
        print('FRONTEND: ' + f.rendered)
    for f in a['failures']:
        print('FAIL [%s] fn=%s labels=%s\n%s' % (','.join(sorted(f.props)), f.function, f.labels, f.rendered))
    slow = sorted(a['functions'], key=lambda x: -(x['ms'] or 0))[:5]
    for s in slow:
        print('  %6d ms  rlimit %9s  %s' % (s['ms'] or 0, s['rlimit'], s['function']))
    return 0 if a['status'] == 'ok' else 1


def cmd_baseline(args):
    """record, per unit, the number of functions/lemmas Verus verifies on the committed tree"""
    import json
    from vf import check
    base = {}
    for name in all_units():
        r = check.run_unit(name)
        if r['status'] != 'ok':
            print('%s: %s %s' % (name, r['status'], r['reason']))
            return 1
        base[name] = {'verified': r['analysis']['verified'],
                      'tagged_clauses': sum(1 for l in r['woven'].lines if l.lstrip().startswith('//@ob'))}
        print(name, base[name])
    with open(os.path.join(U.CONTRACTS, 'baseline.json'), 'w') as f:
        json.dump(base, f, indent=1, sort_keys=True)
    return 0


def cmd_scan(args):
    from vf import check
    u = U.Unit(args[0])
    w = U.Woven(u)
    for t in check.scan_trusted(w):
        print(t)


def main():
    if len(sys.argv) < 2:
        print(__doc__)
        return 2
    cmd, args = sys.argv[1], sys.argv[2:]
    if cmd == 'skeleton':
        return cmd_skeleton(args)
    if cmd == 'golden':
        return cmd_golden(args)
    if cmd == 'lint':
        return cmd_lint(args)
    if cmd == 'weave':
        return cmd_weave(args)
    if cmd == 'verify':
        return cmd_verify(args)
    if cmd == 'scan':
        return cmd_scan(args)
    if cmd == 'baseline':
        return cmd_baseline(args)
    if cmd == 'dyn-build':
        from vf import dyn
        b, msg, secs = dyn.build(args[0])
        print('%s (%.1fs)' % (msg, secs))
        return 0 if b else 2
    if cmd == 'check':
        from vf import check
        return check.main(args)
    print(__doc__)
    return 2


if __name__ == '__main__':
    sys.exit(main() or 0)
