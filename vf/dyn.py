"""Bounded stand-ins that EXECUTE code no installed deductive verifier can reach (SQL run by a C library), comparing it with the
implementation that is proved against the contract.  Labelled `bounded` everywhere; never counted as proved.

Engine `sqlite_equiv` (C16): /verif/dyn/sqlite_equiv is built against a copy of the tree under check (VERIF_REPO) and runs every
contract-respecting call sequence within the stated bounds on the real SqliteStorage and the real InMemoryStorage.
"""
import fcntl
import hashlib
import json
import os
import shutil
import subprocess
import time

from . import unit as U

CACHE = os.environ.get('VERIF_DYN_CACHE', os.path.join(U.VERIF, 'build', 'dyn'))
SRC = os.path.join(U.VERIF, 'dyn')


def _tree_hash(paths):
    h = hashlib.sha256()
    for root in paths:
        if os.path.isfile(root):
            h.update(root.encode() + b'\0' + open(root, 'rb').read())
            continue
        for d, dirs, files in sorted(os.walk(root)):
            dirs.sort()
            for f in sorted(files):
                p = os.path.join(d, f)
                h.update(os.path.relpath(p, root).encode() + b'\0')
                h.update(open(p, 'rb').read())
    return h.hexdigest()[:20]


def _write_if_changed(path, data, only_if_missing=False):
    """cargo decides freshness by mtime: a file is rewritten (new mtime) exactly when its content differs"""
    if os.path.exists(path):
        if only_if_missing or open(path, 'rb').read() == data:
            return
    os.makedirs(os.path.dirname(path), exist_ok=True)
    with open(path, 'wb') as f:
        f.write(data)


def _sync_tree(src, dst, keep=()):
    """make dst's files equal to src's; unchanged files keep their mtime, changed ones get a new one, vanished ones are removed
    (copying with preserved mtimes would let cargo reuse the artifact of a *different* tree built there before)"""
    want = set()
    for d, dirs, files in os.walk(src):
        for f in files:
            sp = os.path.join(d, f)
            rel = os.path.relpath(sp, src)
            want.add(rel)
            _write_if_changed(os.path.join(dst, rel), open(sp, 'rb').read())
    removed = False
    for d, dirs, files in os.walk(dst):
        for f in files:
            rel = os.path.relpath(os.path.join(d, f), dst)
            if rel not in want and rel not in keep:
                os.remove(os.path.join(d, f))
                removed = True
    if removed:
        # a vanished source file: make every remaining file look new so that the crate is rebuilt
        for d, dirs, files in os.walk(dst):
            for f in files:
                os.utime(os.path.join(d, f))


def _pick(name):
    """a top-level file of the tree under check, falling back to /repo (scratch copies made by the tools carry src/ only)"""
    for base in (U.REPO, '/repo'):
        p = os.path.join(base, name)
        if os.path.exists(p):
            return p
    return None


def build(engine):
    """returns (binary path | None, message, seconds)"""
    t0 = time.time()
    src_dir = os.path.join(U.REPO, 'src')
    cargo_toml = _pick('Cargo.toml')
    lock = _pick('Cargo.lock')
    if not os.path.isdir(src_dir) or not cargo_toml:
        return None, 'tree under check has no src/ or Cargo.toml', 0.0
    key = _tree_hash([src_dir, cargo_toml, os.path.join(SRC, engine)])
    bindir = os.path.join(CACHE, 'bin', key)
    binary = os.path.join(bindir, engine)
    if os.path.exists(binary):
        return binary, 'cached build %s' % key, time.time() - t0
    os.makedirs(CACHE, exist_ok=True)
    with open(os.path.join(CACHE, 'lock'), 'w') as lk:
        fcntl.flock(lk, fcntl.LOCK_EX)
        if os.path.exists(binary):
            return binary, 'cached build %s' % key, time.time() - t0
        ws = os.path.join(CACHE, 'ws')
        tc = os.path.join(ws, 'tc')
        # the crate under check: its src/ and manifest, nothing else (no workspace members, no tests, no benches)
        os.makedirs(tc, exist_ok=True)
        _sync_tree(src_dir, os.path.join(tc, 'src'))
        manifest = open(cargo_toml).read()
        # drop the [workspace] table (xtask is not copied); everything else is the tree's own manifest
        out, skip = [], False
        for line in manifest.split('\n'):
            if line.strip().startswith('['):
                skip = line.strip() == '[workspace]'
            if not skip:
                out.append(line)
        _write_if_changed(os.path.join(tc, 'Cargo.toml'), '\n'.join(out).encode())
        for extra in ('build.rs',):
            p = _pick(extra)
            if p:
                _write_if_changed(os.path.join(tc, extra), open(p, 'rb').read())
        hd = os.path.join(ws, engine)
        os.makedirs(hd, exist_ok=True)
        _sync_tree(os.path.join(SRC, engine), hd, keep=('Cargo.lock',))
        if lock:
            _write_if_changed(os.path.join(hd, 'Cargo.lock'), open(lock, 'rb').read(), only_if_missing=True)
        env = dict(os.environ, CARGO_NET_OFFLINE='true', CARGO_TARGET_DIR=os.path.join(CACHE, 'target'))
        env.pop('RUSTFLAGS', None)
        cmd = ['cargo', 'build', '--release', '--offline', '-j', '16']
        try:
            p = subprocess.run(cmd, cwd=hd, env=env, stdout=subprocess.PIPE, stderr=subprocess.STDOUT, text=True, timeout=1800)
        except subprocess.TimeoutExpired:
            return None, 'cargo build timed out', time.time() - t0
        if p.returncode != 0:
            tail = '\n'.join(p.stdout.strip().split('\n')[-25:])
            return None, 'the tree under check does not build with the comparison harness: ' + tail, time.time() - t0
        os.makedirs(bindir, exist_ok=True)
        shutil.copy(os.path.join(CACHE, 'target', 'release', engine), binary)
        # keep the cache small: at most 6 binaries
        bins = sorted((os.path.getmtime(os.path.join(CACHE, 'bin', d)), d) for d in os.listdir(os.path.join(CACHE, 'bin')))
        for _, d in bins[:-6]:
            shutil.rmtree(os.path.join(CACHE, 'bin', d), ignore_errors=True)
    return binary, 'built %s' % key, time.time() - t0


WHAT = {
    'http_conform': 'BOUNDED (executed, not proved): the real HTTP client (real reqwest) against a protocol-conformant sync server written in the harness '
                    '(docs/src/http.md) on a loopback socket, two client handles, every call sequence within the bound: results follow the version-chain '
                    'contract with the server\'s chain as ghost state (a request reported as rejected was not stored; a lost response is an error, not a '
                    'silent second request); every request carries X-Client-Id and the documented content type; every body received has the documented '
                    'sealed form and no payload bytes in clear; modified, truncated, re-labelled or swapped responses are rejected with an error',
    'server_conform:git-seal': 'BOUNDED (executed, not proved): the git-backed server stores versions and snapshots only in the documented sealed form (format byte 1, '
                               'fresh 12-byte nonce, payload + 16-byte tag; base64 inside the snapshot file), no task content appears in any file of the repository, '
                               'and every single-bit modification of every byte, every truncation, re-labelled versions and snapshots, foreign sealed data and a '
                               'different secret are rejected with an error rather than returned',
    'replica_exec:c12': 'BOUNDED (executed, not proved): for every edit sequence of up to 4 (thorough: 5) steps and each of 5 urgency / avoid_snapshots '
                        'combinations, a snapshot is handed to the harness-side Server only at or above the replica\'s threshold, labelled with the version '
                        'just accepted, and -- decompressed and parsed independently -- contains exactly the task set obtained by an independent replay '
                        'of the version documents up to that version; a fresh replica synced from the snapshot and the later versions (earlier ones '
                        'discarded) ends in the state of the whole chain; a replica that already holds data keeps it',
    'server_conform:git-fault': 'BOUNDED (executed, not proved): on the git-backed server with a shared remote, every git command of add_version / add_snapshot '
                                'on one replica is made to fail in turn (not run / run but reported failed / this and all later commands fail), every handle '
                                'is then restarted, and the protocol contract must hold: the interrupted version is either accepted for everyone or visible to '
                                'nobody, with the submitted bytes; both replicas go on adding versions and read the same chain',
    'replica_exec:c18': 'BOUNDED (executed under panic capture, not proved): every public read method of Task, TaskData, WorkingSet, DependencyMap and '
                        'Replica returns normally for every task map with 0, 1 (thorough: 2) entries over 47 recognised keys / prefixes / malformed '
                        'keys and 25 hostile values (non-numeric, negative, astronomically large, out-of-calendar timestamps, unknown statuses, '
                        'non-ASCII, NUL, 400 digits), planted through the storage API, with and without a working-set entry for a missing task',
    'replica_exec:c19': 'BOUNDED (executed, not proved): for every sequence of up to 3 (thorough: 4) of 52 Task / TaskData mutator calls on three '
                        'base tasks, followed by commit and reload: replaying the recorded operations from the stored task gives the task the caller '
                        'holds, every Update carries the value the property really had, the stored task equals the held one, what was written '
                        'reads back (tags, annotations, dependencies, UDAs, due/wait/entry), reserved names are refused and record nothing, '
                        '`end` follows the status, the synthetic tags follow status/start/wait, the dependency map lists exactly the edges from '
                        'working-set tasks to pending tasks',
    'replica_exec:c14': 'BOUNDED (executed, not proved): for every edit sequence of up to 5 (thorough: 6) steps (create, update with hostile '
                        'strings / null / sub-second, pre-1970 and year-9999 timestamps, delete of a populated task, undo point, sync) the versions '
                        'handed to a harness-side Server are UTF-8 JSON listing, in order, exactly the committed Create / Delete / Update operations '
                        'with exactly the documented fields and RFC 3339 Z timestamps -- undo points, old values and old tasks never leave; and 15 '
                        'hand-written versions (other field orders, whitespace, timestamp precisions and +00:00 / +02:00 offsets) are applied',
    'server_conform': 'BOUNDED (executed, not proved): the local server (SQLite) and the git-backed server (local-only; two clones sharing a bare '
                      'remote, handles created up-front or lazily) are run on every call sequence within the bounds, from several handles, '
                      'and every result is checked against the executable version-chain contract of C08: accepted only on top of the latest '
                      'version (any parent when none exists), a rejection names the latest and changes nothing, an accepted version is '
                      'returned byte for byte to every handle (also after reopening), unknown parent => NoSuchVersion, a returned snapshot '
                      'is one that was stored, intact; no faults are injected, so an Err is a deviation too',
    'sqlite_equiv': 'BOUNDED (executed, not proved): the real SqliteStorage (through the real send_wrapper) and the real InMemoryStorage '
                    '(proved against the StorageTxn contract) give the same result for every call of every contract-respecting call '
                    'sequence within the bounds, agree on what is visible after commit / abandon / close+reopen, also on databases '
                    'laid out by TaskChampion 0.8, 0.9 and schema (0,1); a read-only handle refuses every modification',
}


def run(h, prop, tier):
    engine = h['engine']
    label = h.get('mode') or h.get('mode_key') or ''
    what = WHAT.get(engine + ':' + label, WHAT.get(engine, ''))
    out = {'engine': engine, 'harness': engine + ('-' + label if label else ''), 'mode': h.get('mode'), 'obligations': 1, 'discharged': 0, 'violations': [], 'undecided': [],
           'bounded': True, 'what': what,
           'trusted': ['%s: bounded execution, not a proof (rustc, SQLite, the harness in /verif/dyn/%s)' % (engine, engine)],
           'samples': [{'bounded_check': engine, 'claim': what}]}
    if h.get('mode'):
        h = dict(h, args=list(h.get('args', [])) + ['--mode', h['mode']])
    binary, msg, secs = build(engine)
    out['build'] = msg
    out['build_s'] = round(secs, 1)
    if binary is None:
        out['undecided'].append('%s: %s' % (engine, msg[:1500]))
        return out
    work = os.path.join(U.BUILD, engine)
    replays = os.path.join(U.OUT, 'replays')
    os.makedirs(work, exist_ok=True)
    os.makedirs(replays, exist_ok=True)
    # /dev/shm keeps the thousands of scratch databases off the disk
    scratch = '/dev/shm/vf-%s-%d' % (engine, os.getpid()) if os.path.isdir('/dev/shm') else os.path.join(work, 'db')
    known_sigs = []
    try:
        for kf in json.load(open(os.path.join(U.VERIF, 'known_findings.json'))).get('findings', []):
            m = kf.get('match') or {}
            if kf.get('status') == 'open' and kf.get('property') == prop and m.get('engine') == engine and m.get('signature'):
                known_sigs.append(m['signature'])
    except (OSError, ValueError):
        pass
    cmd = [binary] + list(h.get('args', [])) + (['--known', ';;'.join(known_sigs)] if known_sigs else []) + ['--work', scratch, '--out', replays, '--tier', tier, '--jobs', str(h.get('jobs', 12)), '--seed', os.environ.get('VERIF_SEED', '0') if os.environ.get('VERIF_SEED', '0').isdigit() else '0']
    out['cmd'] = 'python3 vf/main.py dyn-build %s && build/dyn/bin/<tree-hash>/%s --tier %s' % (engine, engine, tier)
    t0 = time.time()
    try:
        p = subprocess.run(cmd, stdout=subprocess.PIPE, stderr=subprocess.STDOUT, text=True, timeout=h.get('timeout', 3000))
    except subprocess.TimeoutExpired:
        out['undecided'].append('%s: timeout' % engine)
        return out
    finally:
        shutil.rmtree(scratch, ignore_errors=True)
    out['wall_s'] = round(time.time() - t0, 2)
    summary = None
    for line in p.stdout.split('\n'):
        if line.startswith('SUMMARY '):
            summary = json.loads(line[len('SUMMARY '):])
    if summary is None:
        out['undecided'].append('%s: harness ended without a summary (exit %s): %s' % (engine, p.returncode, p.stdout[-1200:]))
        return out
    out['bounds'] = summary.get('bounds')
    out['scenarios'] = summary.get('scenarios')
    out['executed'] = summary.get('executed')
    out['outside_contract_skipped'] = summary.get('outside_contract_skipped')
    out['known_hits'] = summary.get('known_finding_hits') or {}
    out['signatures'] = summary.get('signatures') or {}
    if summary.get('executed', 0) == 0 and not out['known_hits'] and not summary.get('mismatches'):
        out['undecided'].append('%s: no scenario was executed' % engine)
        return out
    if summary['mismatches'] == 0 and p.returncode == 0:
        out['discharged'] = 1
        return out
    for f in summary.get('replays', []):
        try:
            m = json.load(open(f))
        except (OSError, ValueError):
            m = {}
        sc_ = m.get('scenario')
        kind = sc_.get('kind', '') if isinstance(sc_, dict) else ''
        out['violations'].append({'engine': engine, 'mode': h.get('mode'), 'harness': out['harness'] + ('-' + kind if kind and engine == 'server_conform' else ''),
                                  'counterexample': m.get('scenario'), 'at': m.get('at'), 'scenario': m.get('scenario'),
                                  'observed': {k: m.get(k) for k in ('sqlite', 'inmemory', 'got', 'expected') if k in m},
                                  'note': 'failing call sequence found by bounded execution of the real code; re-run: ./check %s --replay <this file>' % prop})
        try:
            os.remove(f)
        except OSError:
            pass
        if engine == 'sqlite_equiv':
            break
    for f in summary.get('replays', []):
        try:
            os.remove(f)
        except OSError:
            pass
    return out


def replay(engine, path):
    try:
        mode = json.load(open(path)).get('mode')
    except (OSError, ValueError):
        mode = None
    binary, msg, _ = build(engine)
    if binary is None:
        print('UNDECIDED replay: %s' % msg)
        return 2
    scratch = '/dev/shm/vf-%s-replay-%d' % (engine, os.getpid()) if os.path.isdir('/dev/shm') else os.path.join(U.BUILD, 'replaydb')
    try:
        p = subprocess.run([binary] + (['--mode', mode] if mode else []) + ['--work', scratch, '--out', os.path.join(U.BUILD, 'replay-out'), '--replay', path],
                           stdout=subprocess.PIPE, stderr=subprocess.STDOUT, text=True, timeout=600)
    finally:
        shutil.rmtree(scratch, ignore_errors=True)
    print(p.stdout.strip())
    return 1 if p.returncode == 1 else (0 if p.returncode == 0 else 2)
