"""thorough-tier extras (filled in later): seeds, probes, canaries"""


def run(prop, pc, results, seed):
    return []
