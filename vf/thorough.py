"""thorough tier (DESIGN.md 2.6): guards against vacuity and brittleness, on top of the quick proof run.

* stability: every unit is re-verified under three other SMT random seeds (derived from VERIF_SEED); a unit that
  verifies with the default seed but not with another one is reported (warning, not an alarm);
* reachability probes: `assert(false)` is planted at the entry of every function under contract and at the top of
  every loop body; each must FAIL -- a probe that verifies means a contradictory precondition or invariant, i.e. the
  proofs below it are vacuous -> UNDECIDED;
* canaries: the committed property-breaking edits for this property (canaries/canaries.json) are applied to a scratch
  copy of /repo/src; each must be reported as a VIOLATION of the property -> otherwise UNDECIDED.
"""
import concurrent.futures
import os
import re
import shutil
import subprocess
import sys
import tempfile

from . import unit as U, runner, extract


def _verify_text(unit_name, text, tag, seed=None, multiple_errors=None):
    d = os.path.join(U.BUILD, tag)
    os.makedirs(d, exist_ok=True)
    path = os.path.join(d, unit_name + '.rs')
    with open(path, 'w') as f:
        f.write(text)
    extra = []
    res = runner.run_verus(path, seed=seed, extra=extra)
    return res


def stability(results, seed):
    out = {'engine': 'verus-seeds', 'obligations': 0, 'discharged': 0, 'undecided': [], 'violations': [], 'warnings': [],
           'seeds': [], 'samples': []}
    seeds = [(seed * 7919 + k * 104729 + 1) % 100000 for k in (1, 2, 3)]
    out['seeds'] = seeds
    jobs = []
    with concurrent.futures.ThreadPoolExecutor(max_workers=6) as ex:
        for r in results:
            if r['woven'] is None or r['status'] != 'ok':
                continue
            for s in seeds:
                jobs.append((r['unit'], s, ex.submit(_verify_text, r['unit'], r['woven'].text(), 'seed%d' % s, s)))
        for (name, s, fut) in jobs:
            res = fut.result()
            j = (res['json'] or {}).get('verification-results') or {}
            ok = bool(j.get('success'))
            out['samples'].append({'unit': name, 'smt.random_seed': s, 'verified': j.get('verified'), 'errors': j.get('errors'),
                                   'wall_s': round(res['wall_s'], 1)})
            if not ok:
                out['warnings'].append('unit %s does not verify under smt.random_seed=%d (unstable proof; not a violation)' % (name, s))
    out['cmd'] = 'verus <unit>.rs --smt-option smt.random_seed=<s> for s in %r' % seeds
    return out


LOOP_RE = re.compile(r'^\s*(?:\'[a-z_]+:\s*)?(for|while|loop)\b')


def plant_probes(woven, level, only=None):
    """returns (text, probes) where probes = list of (line_no_1based, description).
    level 0: first line of every fn body inside an extraction region; level k>=1: loops at nesting depth k."""
    lines = list(woven.lines)
    kinds = woven.kind
    out = []
    probes = []
    n = len(lines)
    # state machine over code lines only: find `{` lines that open fn bodies / loop bodies (R13 puts them on their own line)
    seen_k = [0]     # running index of probe sites at this level (for `only`)
    pending = None   # ('fn'|'loop', description)
    loop_depth_stack = []   # brace depth at which each open loop body started
    depth = 0
    in_region_fn = False
    for i in range(n):
        line = lines[i]
        code = kinds[i] == 'code'
        stripped = line.strip()
        if code:
            if re.match(r'^(pub\s+)?(const\s+)?fn\s+\w+', stripped):
                m = re.match(r'^(?:pub\s+)?(?:const\s+)?fn\s+(\w+)', stripped)
                pending = ('fn', m.group(1))
            elif LOOP_RE.match(stripped):
                pending = ('loop', stripped[:60])
        out.append(line)
        if code and stripped == '{' and pending is not None:
            kind, desc = pending
            pending = None
            if kind == 'fn':
                loop_depth_stack = []
                # a function whose contract says `requires false` is declared unreachable on purpose (e.g. LocalServer::add_snapshot,
                # whose body is `unreachable!()`): nothing to probe
                declared_unreachable = any(re.search(r'\brequires\s+false\b', lines[q]) for q in range(max(0, i - 12), i) if kinds[q] != 'code')
                if level == 0 and not declared_unreachable:
                    seen_k[0] += 1
                    if only is None or only == seen_k[0] - 1:
                        probes.append((len(out) + 1, 'entry of fn ' + desc))
                        out.append('        proof { assert(false); } // vf-probe')
            else:
                loop_depth_stack.append(depth)
                if level == len(loop_depth_stack):
                    seen_k[0] += 1
                    if only is None or only == seen_k[0] - 1:
                        probes.append((len(out) + 1, 'top of loop body: ' + desc))
                        out.append('        proof { assert(false); } // vf-probe')
        if code:
            net, low = U._brace_profile(line)
            depth += net
            while loop_depth_stack and depth <= loop_depth_stack[-1]:
                loop_depth_stack.pop()
    return '\n'.join(out) + '\n', probes


def probes(results):
    out = {'engine': 'reachability-probes', 'obligations': 0, 'discharged': 0, 'undecided': [], 'violations': [],
           'samples': [], 'planted': 0, 'failed_as_expected': 0}
    jobs = []
    with concurrent.futures.ThreadPoolExecutor(max_workers=6) as ex:
        for r in results:
            if r['woven'] is None or r['status'] != 'ok':
                continue
            for level in (0, 1, 2, 3):
                text, pr = plant_probes(r['woven'], level)
                if not pr:
                    continue
                jobs.append((r['unit'], level, pr, ex.submit(_verify_text, r['unit'], text, 'probe%d' % level)))
        for (name, level, pr, fut) in jobs:
            res = fut.result()
            failed_lines = set()
            for d in res['diagnostics']:
                if d.get('level') != 'error':
                    continue
                for s in d.get('spans', []):
                    for ln in range(s['line_start'], s['line_end'] + 1):
                        failed_lines.add(ln)
            j = (res['json'] or {}).get('verification-results') or {}
            if not j or (j.get('errors', 0) == 0 and j.get('encountered-error')):
                out['undecided'].append('probe run of unit %s (level %d) did not reach verification' % (name, level))
                continue
            for (k_idx, (ln, desc)) in enumerate(pr):
                out['planted'] += 1
                if ln in failed_lines:
                    out['failed_as_expected'] += 1
                    continue
                # in a function verified without loop isolation a failed `assert(false)` of an earlier loop body is assumed on the
                # paths that run on through it, so a later probe can verify for that reason alone: decide it by planting it ALONE
                woven_r = [r for r in results if r['unit'] == name][0]['woven']
                text1, pr1 = plant_probes(woven_r, level, only=k_idx)
                res1 = _verify_text(name, text1, 'probe%d_%d' % (level, k_idx))
                fl1 = set()
                for d in res1['diagnostics']:
                    if d.get('level') == 'error':
                        for sp in d.get('spans', []):
                            fl1.update(range(sp['line_start'], sp['line_end'] + 1))
                if pr1 and pr1[0][0] in fl1:
                    out['failed_as_expected'] += 1
                    out.setdefault('replanted_alone', []).append(desc)
                else:
                    out['undecided'].append('VACUOUS? probe at %s in unit %s verified: a precondition or invariant above it may be contradictory' % (desc, name))
            out['samples'].append({'unit': name, 'level': level, 'probes': len(pr)})
    out['cmd'] = 'verus <unit with assert(false) planted at fn entries / loop bodies>.rs (every probe must fail)'
    return out


def canaries(prop):
    out = {'engine': 'canary-mutants', 'obligations': 0, 'discharged': 0, 'undecided': [], 'violations': [], 'samples': [],
           'ran': 0, 'detected': 0, 'stale': 0}
    from . import canary as C
    cs = [c for c in C.load() if prop in c.get('expect_violation', [])]
    if not cs:
        out['note'] = 'no canary lists this property'
        return out

    def one(c):
        c2 = dict(c, expect_violation=[prop], expect_quiet=[])
        return C.run_canary(c2)
    with concurrent.futures.ThreadPoolExecutor(max_workers=4) as ex:
        for r in ex.map(one, cs):
            if r['outcome'] == 'STALE':
                out['stale'] += 1
                continue
            out['ran'] += 1
            if r['outcome'] == 'OK':
                out['detected'] += 1
            else:
                out['undecided'].append('canary %s was NOT reported as a violation of %s (%s)' % (r['name'], prop, r['detail'].get(prop)))
            out['samples'].append({'canary': r['name'], 'outcome': r['outcome']})
    out['samples'] = out['samples'][:8]
    out['cmd'] = 'python3 vf/canary.py --only %s   (edits applied to a scratch copy of /repo/src, never to /repo)' % prop
    return out


def run(prop, pc, results, seed):
    extras = []
    extras.append(stability(results, seed))
    extras.append(probes(results))
    if os.environ.get('VERIF_NO_CANARIES') != '1':
        extras.append(canaries(prop))
    return extras
