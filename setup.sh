#!/bin/sh
# Offline setup: check the tools and the unit files; warm the build cache of the bounded comparison harness.
cd "$(dirname "$0")" || exit 1
mkdir -p build evidence replays
command -v verus >/dev/null || { echo "verus not on PATH"; exit 1; }
command -v cargo-kani >/dev/null 2>&1 || command -v kani >/dev/null 2>&1 || echo "warning: kani not found (C18 kernel check will be UNDECIDED)"
python3 vf/main.py lint || exit 1
# optional warm-up: the bounded execution harnesses (C08 C11 C12 C13 C14 C16 C18 C19) are otherwise built on first use (1-2 min each)
for e in sqlite_equiv replica_exec server_conform http_conform; do
  CARGO_NET_OFFLINE=true python3 vf/main.py dyn-build $e || echo "warning: the bounded execution harness $e did not build (its checks will be UNDECIDED)"
done
exit 0
