#!/bin/sh
# Offline setup: nothing needs building (Python + the installed verus / kani); check the tools and the unit files.
cd "$(dirname "$0")" || exit 1
mkdir -p build evidence replays
command -v verus >/dev/null || { echo "verus not on PATH"; exit 1; }
command -v cargo-kani >/dev/null 2>&1 || command -v kani >/dev/null 2>&1 || echo "warning: kani not found (C18 kernel check will be UNDECIDED)"
python3 vf/main.py lint || exit 1
exit 0
