#!/bin/sh
# Offline setup: the Verus units need nothing built (Python + the installed verus). The Kani harness crate is compiled once so
# that the C18 check does not pay for building chrono on its first run.
cd "$(dirname "$0")" || exit 1
mkdir -p build evidence replays
command -v verus >/dev/null || { echo "verus not on PATH"; exit 1; }
python3 vf/main.py lint || exit 1
if command -v cargo-kani >/dev/null 2>&1 || command -v kani >/dev/null 2>&1; then
  python3 - <<'PY'
import sys
sys.path.insert(0, '.')
from vf import kani
r = kani.run({'harness': 'utc_timestamp_opt_never_panics'}, 'C18')
print('kani warm-up:', 'ok' if r.get('discharged') else r.get('undecided') or r.get('violations'))
PY
fi
exit 0
