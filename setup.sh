#!/bin/sh
# Offline setup: check the tools and the unit files; warm the build cache of the bounded comparison harness.
cd "$(dirname "$0")" || exit 1
mkdir -p build evidence replays
command -v verus >/dev/null || { echo "verus not on PATH"; exit 1; }
command -v cargo-kani >/dev/null 2>&1 || command -v kani >/dev/null 2>&1 || echo "warning: kani not found (C18 kernel check will be UNDECIDED)"
python3 vf/main.py lint || exit 1
# optional warm-up: the bounded SQLite comparison harness (C16) is otherwise built on first use (about a minute)
CARGO_NET_OFFLINE=true python3 vf/main.py dyn-build sqlite_equiv || echo "warning: the bounded SQLite comparison harness did not build (C16 will be UNDECIDED)"
exit 0
