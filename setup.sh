#!/bin/sh
# Offline setup: nothing to build for the Verus units (pure Python + the installed verus); warm the Kani harness crate if present.
cd "$(dirname "$0")" || exit 1
mkdir -p build evidence replays
command -v verus >/dev/null || { echo "verus not on PATH"; exit 1; }
python3 vf/main.py lint || exit 1
if [ -d kani/harness ]; then
  (cd kani/harness && cp /repo/Cargo.lock . 2>/dev/null; true)
fi
exit 0
